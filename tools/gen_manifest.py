#!/usr/bin/env python3
"""Generates /verif/MANIFEST.json from the table below (kept next to the rule modules so
that the manifest never lists a check that does not exist)."""
import json, os, sys
VERIF = os.path.dirname(os.path.dirname(os.path.abspath(__file__)))
sys.path.insert(0, os.path.join(VERIF, 'engine'))

NA_FIXED = {
    'C01': "recoverability from any k of n shards is an identity of polynomial interpolation over GF(2^16) carried by run-time tables; no static argument short of executing or solving it. Structural prerequisites are decided under C05/C04/C11/C12.",
    'C02': "equality with the closed-form scaled-Cauchy matrix is numerical (field arithmetic over run-time tables); static analysis cannot evaluate it. The only structural slice (no hidden inputs) is decided under C05.f.",
    'C13': "linearity is a property of table contents (kernels are data-indexed look-ups, the reference engine even branches on data); not visible in code shape.",
    'C15': "contracts of mul/fft/ifft/eval_poly and the table contents are values of arithmetic over 2^32 pairs / 65536 entries; reading them off requires evaluation, which is a different technique family.",
}

# clauses added after the first build (seed rounds 2-4 and the false-alarm studies); appended to the description of the check
ADDED = {
    'C03': "Later clauses: C03.e lane-wise value numbering of the mul and butterfly kernels (Ssse3 = Avx2 = Neon), C03.g truncated transforms get a zeroed tail (shared with C05.c), C03.h both arms of an ordering test that split a buffer differently touch the same absolute positions, alignment of aligned-load/store intrinsics in C03.b; the schedule comparison has a second opinion on fully inlined, loop-normalised forms. C03.d also: the default engine's dispatcher reaches exactly one compiled eval_poly per detected feature set. A third opinion compares deep normal forms of the schedules (helpers expanded, pure lets substituted, loops in count form, linear index arithmetic), so a one-sided behaviour-preserving rewrite of one engine is accepted while a changed index is not; code shared through a private trait or private generic functions is analysed per instantiation. C03.i byte order fixed: no native- or big-endian integer/byte conversions and no integer-to-byte-array transmutes in non-test code (shared with C08.i, C09.f, C14.g).",
    'C04': "Later clauses: C04.d also the block index of the partial block and complete rewrite of the store geometry, C04.e/f block and lane pairing, C04.g the shard size steers nothing above the store (value-flow: a branch on it may have at most one successful continuation), C04.h kernels are straight-line lane-wise code (shared with C03.e). C04.c reads a private range-building helper (`self.original_range()`) in place. C04.b also looks inside the work object's own re-packing method: the store's un-encode runs on every path through it or is skipped on the configuration only, never on state kept between calls (round 13; shared as C12.h).",
    'C05': "Later clauses: C05.g no mutation reaches an Err exit (shared with C07), C05.h grow-only lengths (bitmap length, Vec capacity) are read only to decide whether to grow. C05.i new and reset of the default rate decide the rate alike and validate with the selected rate (shared with C09.b); the release configuration (debug assertions off) is analysed too. C05.j the shard store rewrites its whole geometry at each resize (shared with C04.d; a write skipped behind an equality test of the same value counts). C05.e accepts a same-configuration fast path only behind a predicate comparing every configured field. The explicit reset may be two calls (configure + the implicit reset): C05.a then requires the second next to the first at every call site; C05.e also accepts the work object passed to and returned from a private helper by value, or reset directly on the stored local; C05.c accepts a tail zeroing guarded by `truncated < size`; C05.d accepts one loop over a stretch containing a region, two loops writing under complementary tests of the bitmap, and a loop over the set bits next to one writing where the bit is clear (`for`-over-`filter` loops are desugared). C05.k the store's insert copies the shard on every path (a copying call dominates every return): no data-dependent skip leaves earlier bytes in a slot (shared as C09.g).",
    'C06': "Later clauses: C06.d stored configuration is the caller's and the store rewrites its whole geometry, C06.e one-shot functions hand every item to the validating add (shared with C10.b), C06.f round state is cleared at drop and reset (shared with C05.a/b), C06.g census of explicit non-debug panic sites by discharged category. C06.h every dedicated-codec use of the default rate is governed by the decision for the same counts (shared with C09.b), C06.i one predicate per codec kind, associated types included (shared with C08.a), C06.j the optimised engines run the reference schedule, so its in-range slicing holds on every engine (shared with C03.a); an error value bound once and returned at several exits is judged at each exit. C06.k a rejected call changes nothing (shared with C07.atomic). Allocation sizes (Vec::with_capacity / reserve) taken from unchecked counts are sinks; Option-returning position checks are validators. Which reset parameter is which count is derived from the flow of the callers' arguments, not from positions. Two-way selections are read as min/max (values, condition atoms, taint: a bound on max(a, b) bounds both); an Error value handed to a private helper as an argument is judged where the helper returns it, in the caller's context. `if [!]helper(..)[?]` on a private bool / Result<bool, _> helper contributes the conditions of the helper's exit that yields the value. A test `(lo..hi).contains(&x)` with bounds that are not caller-supplied bounds x on its true edge.",
    'C07': "Later: Drop impls of guards as mutation sites, mutations after the failure was produced, same-file private helpers analysed in place (inlined MIR, constant-edge pruning, producers of a re-tried Result). The release configuration (code under cfg(debug_assertions) absent) is analysed as well. Discharge V1: a mutation made by a private helper returning Result<bool, _> does not count against an Err exit taken only for the payload value on which no mutation site of the helper can have run.",
    'C08': "Later clauses: C08.d wrappers only forward (shared with C09.c), C08.e the received bitmap is sized max(base+count) of both kinds, C08.f in-place passes over fixed-size tables cover 0..len (integer constants evaluated by the driver). C08.g reset reaches every configuration (shared with C05.a/h), C08.h the acceptance conditions of the three supports predicates are atom by atom the documented ones, C08.i the optimised engines run the reference schedule (shared with C03.a). C08.j the final-block re-packing runs exactly once for every shard size (shared with C04.b).",
    'C09': "Later clauses: C09.e the work object handed over at a rate switch is completely reconfigured (shared with C05.a), C09.f any engine: schedules and kernels of the selectable engines are siblings (shared with C03.a/e). C09.g working space reused at a switch behaves like fresh space (zero-padding clauses shared with C03.g/C05.c); calls through provided forwarders (HighRate::<E>::encoder) are resolved to their targets. C09.h the store inherited at a rate switch is completely re-described by its resize (shared with C04.d). C09.i one-shot functions return the wrapper codec's result on every path (shared with C10.a), C09.j no history lengths (shared with C05.h). C09.g also: the store's insert copies on every path (C05.k).",
    'C10': "Later clauses: C10.e wrappers only forward (shared with C09.c), C10.f the iterator the one-shot decode collects from yields what the accessor exposes (shared with C12.b), C10.g no state survives between calls (shared with C05.f); once(first).chain(rest) and a one-shot function split into private helpers are understood. C10.h/i/j the streaming path both entry points share validates, reports and counts as documented (shared with C06.a/b and C11.a). C10.k the configuration registered with the work object is the caller's own (shared with C06.d). Checked-position helpers (`let pos = self.pos(i)?`) are followed on path conditions and in MIR (jump threading of inlined Result / Option values). Flow of items through a tuple built on several paths is tracked per component. C10.l every caller iterator is drained on every path to Ok (all None edges of its next() sites cut the paths to the Ok exits; shared with C09.i and C06.e); C10.a accepts several new() sites that together cut every path.",
    'C11': "Later clauses: C11.e placement agreement between decode's bitmap regions and the base positions configured at reset, C11.f every round starts clean (shared with C05.a/b), C11.g one locator evaluation (shared with C03.d); decode_begin's payload may be a tuple, a struct or a variant of a private enum. C11.h sufficiency judged on the round's counters (shared with C06.b), C11.i the final FFT covers the positions read back, C11.j table passes complete (shared with C08.f), C11.k every position defined before the first transform (shared with C05.d), C11.l engines run one schedule (shared with C03.a); loops over (a..b).chain(c..d) are split. C11.m nothing a decode reads depends on lengths of grow-only containers (shared with C05.h). C11.n a rejected add leaves no trace (shared with C07.atomic), C11.o handed-over work is reconfigured (shared with C05.e); helpers folded over a kind enum are specialised per variant. C11.d reads `a - b == 0` as `a == b`; C11.e accepts a loop over a stretch of absolute positions that contains a configured region (using next_power_of_two(x) >= x). Literal Ok(true) / Ok(false) payloads of an inlined helper are threaded through the caller's test when consumed on the spot (C11.a). `bits.contains(i)` is read as `bits[i]`; the function configuring a decoder's work object is found by reachability from that decoder's new / reset.",
    'C12': "Later: the iterator protocol is decided on MIR and covers overrides of Iterator methods other than next (fusedness), DoubleEndedIterator etc. C12.f the repacked range is the exposed range (shared with C04.c), C12.g a round's transform input is fully written in that round (shared with C05.c); a path-sensitive second opinion on the iterator protocol. C12.h re-packed exactly once (shared with C04.b), C12.i store geometry rewritten at each resize (shared with C04.d). C12.a accepts an inherent element accessor of the store whose body is data[index * len..(index + 1) * len] in place of its Index impl. C12.j the map of given shards is marked by accepted adds only: no Err exit after a write of the bitmap (shared with C07.atomic, filtered to bitmap writes; round 12).",
    'C14': "Later clauses: C14.f polynomial evaluation only through Engine::eval_poly, C14.g engines identical: schedules, kernels and bounded/aligned vector accesses (shared with C03.a/b/e). C14.g also covers the one-eval_poly dispatch (shared with C03.d); free #[target_feature] helpers beside an engine type count as that engine's. C14.f follows private generic helpers that are handed the decoder's own engine parameter.",
    'C16': "Later: C16.a also requires that table initialisers are reached only through their LazyLock (no private recomputation of a shared table). A once-only table in a OnceLock is accepted when touched only through get / get_or_init; set / take / get_mut on it are reported.",
    'C17': "Later clauses: C17.e the store is resized to exactly (work_count, ceil(shard_bytes/64)) and allocates count*len blocks. C17.c the supplied work object travels through every rate switch, C17.d results and iterators only borrow, C17.f the bitmap need is derived from the configuration (shared with C08.e). C17.e accepts a reset that computes the need itself as next_power_of_two(max(original_base_pos + original_count, recovery_base_pos + recovery_count)) after writing those fields; C17.g the working space stays with the codec: no Err exit between a mem::take / replace / swap of the work object (or the inner codec) and storing it back (clause shared with C07.atomic). C17.c accepts unwrap_or_else(ctor) like unwrap_or_default (not unwrap_or(x), which builds x in any case).",
}

CLAIMS = {
    'C08': dict(
        technique="instance-level call resolution (rustc Instance::try_resolve through provided trait methods) for 'one predicate per rate', truth-table evaluation of Rate::validate's typed-HIR decision atoms, interprocedural fail-source summaries for constructors/reset",
        text="Decides the agreement clauses for every codec kind: encoder, decoder and rate answer supports/validate from one predicate (no overrides; instance resolution shown); validate is Ok exactly for supports AND non-zero AND even (all feasible rows); new/reset of the dedicated rates fail exactly through their own validate on their own arguments in order; default-rate new/reset fail only through the rate decision or a dedicated validate.",
        note="Not decided (arithmetic): that the predicates equal the README staircase, that every configuration inside round-trips, and the converse 'decision high => HighRate supports' for the default rate.",
        design="§4 C08"),
    'C03': dict(
        technique="sibling cross-check of typed-HIR normal forms of the butterfly schedule functions across engines (x86_64 and a type-checked aarch64 build for Neon), MIR pointer-provenance tracing with layout sizes for every vector load/store, unsafe census, forwarding recognition for eval_poly",
        text="Decides the structural clauses: the FFT/IFFT schedules (loop nest, skew-table indexes, GF_MODULUS branches, kernel called per arm) are identical across NoSimd/Ssse3/Avx2 and NoSimd/Neon; every one of the 124 vector loads/stores stays inside the 64-byte block or 16-byte table entry its pointer came from; unsafe code is confined to target_feature calls, intrinsics and constant pointer offsets; every engine's eval_poly is the one shared body. The Neon engine is never executed by any x86 test; here it is analysed as a real compiled program.",
        note="Not decided: that the SIMD nibble-shuffle kernels equal the Mul16 kernel, that Naive's one-layer schedule equals the two-layer one, index ranges passed to dist4_mut (arithmetic). A one-sided refactoring of a schedule is reported even if harmless (light arithmetic normalisation only).",
        design="§4 C03"),
    'C04': dict(
        technique="static must-call-once / ordering analysis over MIR (un-encode exactly once, last, not on the idle path), canonical-expression agreement between writer and reader ranges and between Shards::insert and its inverse, pairing rules over typed HIR for blocks and lanes",
        text="Decides the slicing/un-encode discipline for every shard size at once: results cut to shard_bytes; the final-block re-packing runs exactly once after all transforms over exactly the range the accessor exposes, in all four codec functions; insert and undo agree on the half-block split and tail/2; Shards::resize rewrites every field; zips over blocks pair identically sliced operands; scalar kernels index blocks only by i / i+32. Tests exercise odd sizes only at (3,2), i.e. one rate.",
        note="Not decided: lane independence inside the SIMD nibble-shuffle kernels and the resulting bytes (bit-level arithmetic).",
        design="§4 C04"),
    'C11': dict(
        technique="static write-set analysis of the add paths (MIR mutation summaries + linear normal forms of positions), who-may-read rule for the decoders, typed-HIR decision atoms for accessor and shortcut",
        text="Decides the bookkeeping clause: each add writes exactly {shard at pos, bit pos, counter+1} with pos = base + index and no per-round state flowing into positions or stored bytes, so the state a decode sees is a function of the SET of added shards (all permutations coincide); decoders read only decode_begin's (store, counts, bitmap); given originals are never exposed; a complete set of originals returns the untouched (empty) result.",
        note="Not decided: that a superset of shards reconstructs the same bytes (locator-polynomial algebra, C01 not applicable). Shape rules fail closed on a restructured add path.",
        design="§4 C11"),
    'C05': dict(
        technique="static reset-completeness (MIR mutation summaries x dominance), typed-HIR event-order analysis with linear normal forms for the zero-before-truncated-IFFT contract and decoder buffer tiling, must-pass-through for constructor hand-over, reachability of hidden inputs over the call graph",
        text="Decides the structural prerequisites of history independence on every path: explicit reset rewrites every field (new fields reported by name); Drop => implicit reset clears all per-round fields; each of the 5 truncated IFFTs is preceded by zeroing of exactly its tail on the same buffer; the decoder's region operations tile the whole work buffer before the first transform; constructors pass taken-over working space through reset; no static/thread-local/clock input is reachable. Fresh (zero) buffers hide every one of these omissions from the tests.",
        note="Not decided: numerical sufficiency of the zeroed regions in the multi-chunk high-rate encoder and lane-level leakage in a partial last block (arithmetic). Trusted: the documented Engine::ifft contract.",
        design="§4 C05"),
    'C12': dict(
        technique="typed-HIR path-condition (decision-atom) extraction for the accessors, protocol recognition for the two iterators, must-call dominance for Drop and reset-completeness over MIR mutation summaries, check-before-use taint for the index, compile-fail witnesses",
        text="Decides the accessor/iterator/drop structure for all indexes and all histories: Some exactly under `index < count` (and received bit clear), slice = shards[pos][..shard_bytes]; iterators: ended only set true, ended => None, ascending, items are the accessor's; Drop calls the implicit reset on every path and that reset clears every field add_* writes; index checked before arithmetic (defect F3 repaired by fix: b5b55b1); adding while a result is alive does not type-check.",
        note="Shape recognisers fail closed on an unrecognised iterator idiom (reported as such). The exposed bytes themselves are C01/C02 (not applicable).",
        design="§4 C12"),
    'C09': dict(
        technique="static abstract evaluation of the rate-decision function over the finite ordering domain (MIR path walk), control-dependence (edge dominance) of every high/low codec use on the decision value, forwarding-wrapper recognition for all API layers",
        text="Decides the structure that makes the default codec equal to the selected dedicated codec: the decision depends only on ord(npo2(o),npo2(r)) and ord(o,r) and matches the rule on all 5 feasible points; supports/new/reset of encoder AND decoder use that one decision on (o,r) in order and every high/low codec use is governed by its value; all other methods of DefaultRate* and ReedSolomon* are pure forwarding. Tiny-configuration tests cannot see a decoder choosing the other rate because the rates coincide within one chunk.",
        note="Trusted: monotonicity of next_power_of_two. What the dedicated codecs compute is C01/C02 (not applicable).",
        design="§4 C09"),
    'C16': dict(
        technique="static ownership/effect analysis: lazy-init dependency graph acyclicity over the call graph, census of shared-mutable-state constructs (statics, field/local types, unsafe impls), absence of thread/lock calls, plus universally quantified Send/Sync type-level witnesses checked by rustc",
        text="Decides the property from ownership: the only shared objects are the LazyLock tables, whose initialisation graph is a DAG free of blocking calls; no other static, field or local has interior mutability; no manual Send/Sync; for every engine type E rustc proves all codec/work/result types Send (E: Send) and Sync (E: Sync). No schedule is enumerated because no shared mutable state exists to race on.",
        note="Trusted: std::sync::LazyLock, rustc auto traits and borrow checker. Bit-equality with sequential use follows from absence of sharing and is not separately executed.",
        design="§4 C16"),
    'C17': dict(
        technique="static effect analysis over the resolved call graph (CHA over all in-crate engines): reachability of may-allocate callees from round / reset entry points, dominance of the grow guard, data-flow of the work object, field-type check of result types",
        text="Decides for every path: per-round entry points (all rates, wrappers, accessors, iterators, result Drop) reach no allocating callee; reset/new reach exactly Vec::resize on the shard store and FixedBitSet::grow behind `len < needed`; constructors and the rate switch keep the supplied working space; results borrow instead of copying. A counting allocator samples histories; this rule covers every call path.",
        note="Trusted: std/fixedbitset contracts (Vec::resize within capacity, grow), the allowlist of non-allocating alloc functions; user-written engines are outside. LazyLock table initialisation is the stated one-time exception.",
        design="§4 C17"),
    'C10': dict(
        technique="static must-pass-through (edge dominance) + value-flow analysis over the MIR of encode()/decode(): Ok exits dominated by the streaming calls' Ok edges, caller iterators consumed only by next(), every yielded item reaches the matching add call under Option-test pruning",
        text="Decides that the one-shot functions ARE the streaming sequence on every path: no Ok exit bypasses ReedSolomon{En,De}coder::new/encode/decode, every item of the caller's iterators reaches the matching add_*_shard before any Ok exit, the size is inferred from a first item, the returned collection is filled only from the streaming result. Found defect F4 on the pinned tree (repaired by fix: dbbf1ef).",
        note="Trusted: `?`, Iterator::next / for desugaring, collect / HashMap::insert semantics. Truthfulness of locally built errors is C06.b.",
        design="§4 C10"),
    'C06': dict(
        technique="static check-before-use taint analysis over rustc MIR (interprocedural, summaries of validators computed, sinks = Assert terminators / range-sensitive calls / governed panics) + typed-HIR path-condition matching of every Error construction against a per-variant truth table",
        text="Decides two clauses for all argument values and all paths: (a) no caller-supplied integer of the public codec API reaches an overflow/bounds/division check, a range-sensitive std call or a governed panic before an upper-bounding comparison (or a validator whose own summary shows it bounds the value on success); (b) each of the 18 Error constructions is governed by exactly the documented violated precondition and its fields are the operands of that condition; (c) callee errors are passed through unchanged. Found defects F2/F3 on the pinned tree (repaired by fix: b5b55b1).",
        note="Discipline rule, not a proof that guarded arithmetic cannot overflow; 'valid use never fails' and panics deep inside the transforms (arithmetic over validated counts) are not decided. Taint does not flow through memory.",
        design="§4 C06"),
    'C07': dict(
        technique="static failure-atomicity analysis over rustc MIR: interprocedural mutation summaries through &mut parameters x reachability of Err exits, with same-pure-predicate discharge under condition-pruned dominance",
        text="Decides, for all paths of every function that takes a &mut codec/work object and returns Result, that no write to the object can be followed by an Err return (two exact exceptions: the failing call is itself an in-scope callee; or the failure is the Err edge of a pure validation already known true with the same arguments). 'Behaves as if the call had not been made' follows from 'wrote nothing'. Found defect F1 on the pinned tree (repaired by fix: c681adf).",
        note="Trusted: the explicit table of external mutators/derivers (unknown externals are treated as writers); purity => same result for same arguments. Later panics for other reasons belong to C06.",
        design="§4 C07"),
    'C14': dict(
        technique="static effect + dominance analysis over rustc MIR (target-feature need propagation, detection-edge dominance, sibling agreement), x86_64/aarch64/i686/+avx2 builds",
        text="Decides the property's structure for all paths and all CPU feature subsets at once: every construction of a SIMD engine and every static call of SIMD code outside the engine is dominated by the true edge of runtime detection covering the features that code is compiled for; weaker choices are reachable only through false edges of stronger detections; both selections (new, eval_poly) agree. Not a run: no feature mask is needed because the rule quantifies over CFG paths.",
        note="Trusted: rustc's target-feature metadata and implied-feature table, std_detect. Equality of results across engines is C03/N-A, not claimed here.",
        design="§4 C14"),
}


def main():
    props = [json.loads(l)['id'] for l in open(os.path.join(VERIF, 'properties.jsonl'))]
    checks = []
    na = []
    for p in props:
        c = CLAIMS.get(p)
        if c and os.path.exists(os.path.join(VERIF, 'engine', 'rules', p.lower() + '.py')):
            checks.append({
                'property_id': p,
                'quick_cmd': './check %s --tier quick' % p,
                'thorough_cmd': './check %s --tier thorough' % p,
                'evidence_file': '/verif/evidence/%s.json' % p,
                'replay_cmd_template': './check %s --replay {path}' % p,
                'engine': 'rsfacts+rules',
                'level_claimed': {'category': 'other', 'text': (c['text'] + (' ' + ADDED[p] if ADDED.get(p) else '')).strip(), 'design_ref': c['design'] + ', §12'},
                'level_note': c['note'],
                'technique': c['technique'],
            })
        elif p in NA_FIXED:
            na.append({'property_id': p, 'reason': NA_FIXED[p]})
        else:
            na.append({'property_id': p, 'reason': 'static check designed (DESIGN.md §4) but not built yet in this tree; not claimed until it is'})
    m = {
        'version': 1,
        'setup_cmd': 'cd /verif/engine/rsfacts && CARGO_NET_OFFLINE=true cargo build --release --offline',
        'hooks': {
            'guard': 'reed_solomon_simd_verif',
            'enable': 'none: the checks read the unmodified source through a rustc driver; no hook exists in /repo',
            'baseline_off_cmd': 'cd /repo && cargo test --workspace --no-fail-fast --offline',
            'source_commits': [],
            'add_only': True,
        },
        'engines': [
            {'name': 'rsfacts', 'path': 'engine/rsfacts', 'serves_properties': [c['property_id'] for c in checks],
             'kind_free_text': 'rustc_private driver: items, MIR with resolved callees, typed HIR, instance-level call graph, layouts, per target configuration'},
            {'name': 'rules', 'path': 'engine/rules', 'serves_properties': [c['property_id'] for c in checks],
             'kind_free_text': 'python3 rule engine: CFG, dominators, call graph (CHA), canonical expressions, one module per property'},
        ],
        'checks': checks,
        'not_applicable': na,
        'notes': 'Technique family: static analysis only. See DESIGN.md. Every check rebuilds its facts from /repo\'s current working tree (cache keyed by a hash of the tree).',
    }
    json.dump(m, open(os.path.join(VERIF, 'MANIFEST.json'), 'w'), indent=1)
    print('checks:', [c['property_id'] for c in checks], 'n/a:', [x['property_id'] for x in na])


if __name__ == '__main__':
    main()
