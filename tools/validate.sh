#!/bin/bash
# validates MANIFEST.json and evidence/*.json against the schemas
python3-vt - <<'PY'
import json,jsonschema,glob
jsonschema.validate(json.load(open('/verif/MANIFEST.json')),json.load(open('/root/.vp/MANIFEST.schema.json')))
es=json.load(open('/root/.vp/EVIDENCE.schema.json'))
for p in sorted(glob.glob('/verif/evidence/*.json')):
    jsonschema.validate(json.load(open(p)),es)
    print('ok',p)
print('manifest ok')
PY
