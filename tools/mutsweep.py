#!/usr/bin/env python3
"""Mechanical mutation sweep: simple operators on non-test code; a mutant that compiles and passes the whole suite is given
to the 13 checks.  Output: /tmp/mutsweep/results.jsonl"""
import json, os, random, re, subprocess, sys, threading, queue, shutil

FILES = ['src/rate/rate_high.rs', 'src/rate/rate_low.rs', 'src/rate/rate_default.rs', 'src/rate/encoder_work.rs', 'src/rate/decoder_work.rs',
         'src/rate.rs', 'src/engine/shards.rs', 'src/lib.rs', 'src/reed_solomon.rs', 'src/encoder_result.rs', 'src/decoder_result.rs',
         'src/engine/engine_default.rs', 'src/engine/utils.rs', 'src/engine/engine_nosimd.rs', 'src/engine/engine_avx2.rs', 'src/engine/engine_ssse3.rs',
         'src/engine.rs']
ALL = ['C03', 'C04', 'C05', 'C06', 'C07', 'C08', 'C09', 'C10', 'C11', 'C12', 'C14', 'C16', 'C17']
REL = [(' < ', ' <= '), (' <= ', ' < '), (' > ', ' >= '), (' >= ', ' > '), (' == ', ' != '), (' != ', ' == ')]
OUT = os.environ.get('SWEEP_OUT', '/tmp/mutsweep')
os.makedirs(OUT, exist_ok=True)


def gen():
    muts = []
    for f in FILES:
        lines = open('/repo/' + f).read().split('\n')
        in_tests = False
        for i, ln in enumerate(lines):
            if re.match(r'\s*mod tests\b', ln) or '#[cfg(test)]' in ln and i + 1 < len(lines) and 'mod ' in lines[i + 1]:
                in_tests = True
            if in_tests:
                break
            s = ln.strip()
            if not s or s.startswith('//') or s.startswith('#[') or s.startswith('use ') or 'debug_assert' in s or s.startswith('assert'):
                continue
            code = ln.split('//')[0]
            for a, b in REL:
                for m in re.finditer(re.escape(a), code):
                    if a in (' < ', ' > ') and re.search(r'<[A-Za-z_:&\'\[]|[A-Za-z_\]\)]>|->|=>|impl|fn |Vec<|Option<|Result<', code):
                        continue
                    muts.append((f, i, 'rel', code[:m.start()] + b + code[m.end():]))
            for m in re.finditer(r' \+ 1\b| - 1\b', code):
                muts.append((f, i, 'off1', code[:m.start()] + code[m.end():]))
            if re.match(r'^\s+[a-z_\.\[\]\*&]+(\.[a-z_0-9]+)*\(.*\);\s*$', code) and not s.startswith(('let ', 'return')):
                muts.append((f, i, 'delcall', ''))
            if re.match(r'^\s+(self\.)?[a-z_\.]+(\[[^\]]*\])? (\+|-)?= .*;\s*$', code) and not s.startswith('let '):
                muts.append((f, i, 'delassign', ''))
            for a, b in (('true', 'false'), ('false', 'true')):
                for m in re.finditer(r'\b%s\b' % a, code):
                    muts.append((f, i, 'bool', code[:m.start()] + b + code[m.end():]))
            for a, b in (('original_', 'recovery_'), ('recovery_', 'original_')):
                ms = list(re.finditer(a, code))
                if len(ms) == 1 and 'fn ' not in code:
                    m = ms[0]
                    muts.append((f, i, 'swap', code[:m.start()] + b + code[m.end():]))
            if os.environ.get('SWEEP_SET') == '2':
                if '"' in code:
                    continue
                for m in re.finditer(r'(?<![\w.])(\d+)(?![\w.])', code):
                    v = int(m.group(1))
                    if v in (0, 1) or 'const ' in code or code.strip().startswith('#'):
                        continue
                    for nv in (v - 1, v + 1, v * 2):
                        muts.append((f, i, 'lit', code[:m.start()] + str(nv) + code[m.end():]))
                for a, b in ((' && ', ' || '), (' || ', ' && '), ('::min(', '::max('), ('::max(', '::min('), ('.min(', '.max('), ('.max(', '.min('),
                             ('.next_power_of_two()', ''), (' / 2', ' / 4'), (' * 2', ' * 4'), (' << 2', ' << 1'), (' >> 8', ' >> 4'), (' + ', ' - '), (' - ', ' + ')):
                    for m in re.finditer(re.escape(a), code):
                        muts.append((f, i, 'op2', code[:m.start()] + b + code[m.end():]))
    return muts


def lane(slot, q, lock, outf):
    W = '/tmp/seedconfirm%d' % slot
    T = '/tmp/seedconfirm%d-target' % slot
    subprocess.run('cd %s && git checkout -q -- . && git clean -fdq' % W, shell=True)
    while True:
        try:
            k, (f, i, op, newline) = q.get_nowait()
        except queue.Empty:
            return
        p = W + '/' + f
        orig = open(p).read()
        lines = orig.split('\n')
        old = lines[i]
        lines[i] = newline
        open(p, 'w').write('\n'.join(lines))
        rec = {'id': k, 'file': f, 'line': i + 1, 'op': op, 'old': old.strip(), 'new': newline.strip()}
        try:
            r = subprocess.run('cd %s && CARGO_TARGET_DIR=%s CARGO_NET_OFFLINE=true timeout 600 cargo test --workspace --no-fail-fast --offline 2>&1' % (W, T),
                               shell=True, capture_output=True, text=True)
            out = r.stdout
            if 'could not compile' in out or 'error[' in out or 'error: ' in out and 'test result' not in out:
                rec['status'] = 'build_fail'
            elif r.returncode != 0:
                rec['status'] = 'killed'
            else:
                rec['status'] = 'survived'
                rec['warnings'] = len(re.findall(r'^warning: unused', out, re.M))
                al = {}
                for c in ALL:
                    rr = subprocess.run(['/verif/check', c, '--no-evidence'], capture_output=True, text=True, env=dict(os.environ, VERIF_REPO=W, VERIF_MUTANT='1'))
                    ks = re.findall(r'VIOLATION-KEY (.*)', rr.stdout)
                    if rr.returncode not in (0, 1):
                        ks.append('INFRA rc=%d' % rr.returncode)
                    if ks:
                        al[c] = ks
                rec['alarms'] = al
        finally:
            open(p, 'w').write(orig)
        with lock:
            outf.write(json.dumps(rec) + '\n')
            outf.flush()


if __name__ == '__main__':
    n = int(sys.argv[1]) if len(sys.argv) > 1 else 200
    muts = gen()
    if os.environ.get('SWEEP_SET') == '2':
        muts = [m for m in muts if m[2] in ('lit', 'op2')]
    random.Random(7).shuffle(muts)
    print('generated', len(muts), 'taking', n)
    off = int(sys.argv[2]) if len(sys.argv) > 2 else 0
    muts = muts[off:off + n]
    q = queue.Queue()
    for k, m in enumerate(muts):
        q.put((k + off, m))
    lock = threading.Lock()
    outf = open(OUT + '/results.jsonl', 'a')
    ts = [threading.Thread(target=lane, args=(s, q, lock, outf)) for s in (0, 1, 2, 3)]
    for t in ts:
        t.start()
    for t in ts:
        t.join()
    print('done')
