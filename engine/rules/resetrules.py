"""Reset discipline shared by C05 (a,b) and C12 (c): per-round state is cleared by the implicit
reset (Drop of the result types) and every field is rewritten by the explicit reset."""
import re
from . import core, summ, roles as roles_mod
from .core import op_place

WORKS = {'rate::encoder_work::EncoderWork': ('encoder_result::EncoderResult', 'rate::RateEncoder'),
         'rate::decoder_work::DecoderWork': ('decoder_result::DecoderResult', 'rate::RateDecoder')}


def field_of_self(body, c):
    """canonical place rooted at (*self).f...  -> f"""
    while isinstance(c, tuple) and c and c[0] in ('ref',):
        c = c[1]
    chain = []
    while isinstance(c, tuple) and c and c[0] in ('field', 'index', 'down'):
        if c[0] == 'field':
            chain.append(c[2])
        c = c[1]
    if c in (('deref', ('param', 'self')), ('param', 'self')) and chain:
        return chain[-1]
    return None


def write_sites(facts, fnpath, _depth=0, may=False):
    """[(field, kind, detail, bb, idx, line)] writes through self in fn: kind in assign/call"""
    S = summ.summaries(facts)
    fn = facts.fns[fnpath]
    body = fn.body
    out = []
    key = S.identity_key(fn)
    for m in S.mutation_sites(key):
        if m['idx'] == 'term':
            t = body.term(m['bb'])
            if t['k'] == 'call':
                for a in t['args']:
                    fld = field_of_self(body, body.canon_op(a))
                    if fld:
                        out.append((fld, 'call', t['callee'].get('path') or t['callee'].get('key'), m['bb'], 'term', t['line'], t))
                        break
                else:
                    c0 = body.canon_op(t['args'][0]) if t['args'] else None
                    if c0 in (('param', 'self'), ('deref', ('param', 'self'))):
                        q = t['callee'].get('path')
                        g = facts.fns.get(q)
                        if g is not None and g.impl_self_adt == fn.impl_self_adt and q != fnpath and _depth < 3:
                            # a helper of the same object called on self: its writes (on ITS every path) count here
                            for w in write_sites(facts, q, _depth + 1, may):
                                if w[0] and w[0] != '*' and (may or on_every_path(g.body, w[3])):
                                    out.append((w[0], w[1], w[2], m['bb'], 'term', t['line'], w[6]))
                        else:
                            out.append(('*', 'call', q or t['callee'].get('key'), m['bb'], 'term', t['line'], t))
        else:
            st = body.blocks[m['bb']]['stmts'][m['idx']]
            if st['k'] == 'assign':
                l = st['lhs']
                fld = None
                for pr in l['p']:
                    if isinstance(pr, dict) and 'f' in pr:
                        fld = pr['f']
                        break
                if fld and l['l'] != 1 and l['p'] and l['p'][0] == '*':
                    # a write through a borrow of a flattened sub-object (`let r = &mut self.received; r.count = 0;`, or an
                    # inlined method of the sub-object): the field is `received.count`
                    try:
                        base = field_of_self(body, body.canon_local(l['l']))
                    except Exception:
                        base = None
                    if base and base != fld and not fld.startswith(base + '.'):
                        fld = base + '.' + fld
                out.append((fld, 'assign', body.canon_rv(st['rv']), m['bb'], m['idx'], st['line'], st))
    return out


def on_every_path(body, bb):
    """block bb lies on every path from entry to every SUCCESSFUL exit (Ok exits of a Result-returning
    fn — a failing reset must leave the object alone, C07 — otherwise every return)"""
    if body.local_ty(0).startswith('std::result::Result<'):
        errs, oks = core.result_exits(body)
        exits = [b for (b, k, d) in oks]
    else:
        exits = body.exits()
    return bool(exits) and all(body.dominates(bb, x) for x in exits)


def per_round_fields(facts, work_adt):
    """fields of the work type written by its add_* methods"""  # and begin
    out = {}
    R = roles_mod.roles(facts)
    side = 'enc' if work_adt == roles_mod.ENC_WORK else 'dec'
    # ... and by the begin-of-encode/decode method (state derived there lives until the round ends, like what the adds record)
    for role in ('%s.add_original' % side, '%s.add_recovery' % side, '%s.begin' % side, '%s.undo' % side):
        p = R.fn.get(role)
        if p:
            for w in write_sites(facts, p, 0, True):       # what an add MAY write is per-round state (a helper that returns early too)
                if w[0]:
                    out.setdefault(w[0], []).append((p, w[5]))
    return out


def find_callee_on_work(facts, fnpath, work_adt):
    """crate callees of fn whose first parameter is &mut <work_adt>"""
    fn = facts.fns[fnpath]
    out = []
    for b, t in fn.body.calls():
        q = t['callee'].get('path')
        g = facts.fns.get(q)
        if g is not None and g.impl_self_adt == work_adt and g.inputs and g.inputs[0].startswith('&mut '):
            out.append((b, q, t))
    return out


def check_reset_discipline(ctx, facts, cfg, R_drop, R_recv, R_full):
    for work_adt, (result_adt, tr) in sorted(WORKS.items()):
        adt = facts.adts.get(work_adt)
        if adt is None:
            ctx.violation(R_full, 'anchor-missing', 'anchor missing: %s' % work_adt, fn=work_adt, cfg=cfg)
            continue
        fields = [fl['name'] for v in adt['variants'] for fl in v['fields']]
        ftypes = {fl['name']: fl['ty'] for v in adt['variants'] for fl in v['fields']}
        pr = per_round_fields(facts, work_adt)
        RL = roles_mod.roles(facts)
        side = 'enc' if work_adt == roles_mod.ENC_WORK else 'dec'
        rname = lambda f: RL.fields.get(side, {}).get(f, f)
        store = [f for f in pr if ftypes.get(f, '') == RL.store_adt]
        if not pr:
            ctx.violation(R_recv, 'no-per-round-fields', 'unrecognised idiom: cannot find the work methods behind add_*_shard of %s (%s)' % (work_adt, RL.problems[:1]), fn=work_adt, cfg=cfg)
        # ---- Drop of the result type calls the implicit reset on every path
        dp = None
        for p, f in facts.fns.items():
            if f.impl_trait == 'std::ops::Drop' and f.impl_self_adt == result_adt:
                dp = p
        if dp is None:
            ctx.violation(R_drop, 'no-drop', 'no `impl Drop for %s`: dropping the result no longer starts a new round' % result_adt, fn=result_adt, cfg=cfg)
            continue
        cals = find_callee_on_work(facts, dp, work_adt)
        body = facts.fns[dp].body
        good = [(b, q, t) for (b, q, t) in cals if on_every_path(body, b)]
        if len(good) != 1:
            ctx.violation(R_drop, 'drop-does-not-reset', 'Drop of %s does not call exactly one reset method of %s on every path (found %s)' % (result_adt, work_adt, [q for _, q, _ in cals]),
                          site=facts.fns[dp].span, fn=dp, cfg=cfg)
            continue
        recv_fn = good[0][1]
        # receiver must be the borrowed work of this result
        rc = body.canon_op(good[0][2]['args'][0])
        if field_of_self(body, rc) != 'work':
            ctx.violation(R_drop, 'drop-resets-other', 'Drop of %s resets %s, not its own borrowed work' % (result_adt, core.show(rc)), site=good[0][2]['line'], fn=dp, cfg=cfg)
        else:
            ctx.ok(R_drop, '%s->%s@%s' % (dp, core.short(recv_fn), cfg), {'site': good[0][2]['line']})
        # ---- implicit reset clears every per-round field except the shard store, on every path
        ws = write_sites(facts, recv_fn)
        rb = facts.fns[recv_fn].body
        for fld in sorted(pr):
            if fld in store:
                continue
            hits = [w for w in ws if w[0] == fld and on_every_path(rb, w[3]) and is_clearing(w, ftypes.get(fld, ''))]
            if hits:
                ctx.ok(R_recv, '%s:%s@%s' % (core.short(recv_fn), fld, cfg), {'cleared_at': hits[0][5], 'written_by': pr[fld][0][0]})
            else:
                some = [w for w in ws if w[0] == fld]
                why = 'is not written at all' if not some else ('is written (%s at %s) but not by a full clearing write on every path' % (describe(some[0]), some[0][5]))
                ctx.violation(R_recv, 'not-cleared:%s' % rname(fld),
                              'per-round field %s.%s (written by %s) %s in %s, which is all that runs when a result is dropped: the next round starts from stale state'
                              % (core.short(work_adt), fld, core.short(pr[fld][0][0]), why, core.short(recv_fn)),
                              site=facts.fns[recv_fn].span, fn=recv_fn, cfg=cfg)
        # ---- explicit reset: the work method called from <X as Rate*coder>::reset (through helpers)
        full = RL.fn.get('%s.reset' % side)
        if full is None:
            ctx.violation(R_full, 'no-full-reset', 'cannot find the explicit reset method of %s reached from %s::reset' % (work_adt, tr), fn=work_adt, cfg=cfg)
            continue
        # phases of the reset extracted into private helpers of the same object are analysed in place
        full_fn = core.inlined_fn(facts, full, core.self_helper(work_adt))
        ws = write_sites(facts, full_fn.path)
        fb = full_fn.body
        pnames = full_fn.param_names()
        # the explicit reset may be written as two calls, `work.configure(..); work.reset_received();`: the per-round fields the
        # first leaves alone are then the business of the implicit reset, which has to run next to it at every call site
        unwritten = [fld for fld in fields if not covered(fb, ws, fld, lambda w: True, RL.store_adt if ftypes[fld] == RL.store_adt else None)]
        companion = {}
        if unwritten and all(fld in pr and fld not in store for fld in unwritten):
            companion = companion_sites(facts, full, recv_fn)
        for fld in fields:
            ty = ftypes[fld]
            verdict = None
            any_w = covered(fb, ws, fld, lambda w: True, RL.store_adt if ty == RL.store_adt else None)
            if not any_w and fld in unwritten and companion:
                bad = sorted(q for q, okc in companion.items() if not okc)
                for q in bad:
                    ctx.violation(R_full, 'field-not-reset:%s' % rname(fld),
                                  'field %s.%s is left alone by %s and %s does not run %s on the same object next to it: this explicit reset (or handover to a new codec) keeps per-round state of the previous round'
                                  % (core.short(work_adt), fld, core.short(full), q, core.short(recv_fn)), site=facts.fns[q].span, fn=q, cfg=cfg)
                if not bad:
                    ctx.ok(R_full, '%s:%s@%s' % (core.short(full), fld, cfg), {'cleared_by': '%s, called next to %s at all %d call sites' % (core.short(recv_fn), core.short(full), len(companion))})
                continue
            if not any_w:
                verdict = 'is not rewritten on every path'
            elif fld in pr and fld not in store:
                if not covered(fb, ws, fld, lambda w: is_clearing(w, ty), None):
                    verdict = 'is written but not cleared on every path (%s)' % describe(any_w[0])
            elif fld in store:
                if not covered(fb, ws, fld, lambda w: w[1] == 'call' and (w[2] == RL.fn.get('store.resize') or re.search(r'Vec::<.*>::resize$', w[2] or '')), RL.store_adt):
                    verdict = 'shard store is not resized on every path'
            else:
                def from_params(w):
                    if w[1] != 'assign':
                        return False
                    names = set()
                    collect_params(w[2], names)
                    return bool(names) and names <= set(pnames)
                if not covered(fb, ws, fld, from_params, None):
                    verdict = 'is not assigned from the reset parameters on every path'
            if verdict:
                ctx.violation(R_full, 'field-not-reset:%s' % rname(fld),
                              'field %s.%s %s in %s: an explicit reset (or a work object handed to a new codec) keeps state from the previous configuration'
                              % (core.short(work_adt), fld, verdict, core.short(full)), site=facts.fns[full].span, fn=full, cfg=cfg)
            else:
                ctx.ok(R_full, '%s:%s@%s' % (core.short(full), fld, cfg), {'at': any_w[0][5]})
        ctx.floor(R_full, 5, len(fields), 'fields of %s' % work_adt, cfg=cfg)


def companion_sites(facts, full, recv_fn):
    """{caller: bool}: at every call of `full` (the configuring half of a split explicit reset) in the crate, is `recv_fn` (the
    implicit reset) called on the same object, either before it on every path or after it on every path to a successful exit?"""
    out = {}
    for q, g in facts.fns.items():
        gb = g.body
        for b, t in gb.calls():
            if t['callee'].get('path') != full or gb.blocks[b]['cleanup']:
                continue
            obj = core.strip_var_ids(gb.canon_op(t['args'][0])) if t['args'] else None
            mates = [b2 for b2, t2 in gb.calls() if t2['callee'].get('path') == recv_fn and t2['args']
                     and core.strip_var_ids(gb.canon_op(t2['args'][0])) == obj]
            okc = any(b2 != b and gb.dominates(b2, b) for b2 in mates)
            if not okc and mates:
                reach = gb.reachable_from(b, stop=frozenset(mates))
                okc = not [x for x in success_exits(gb) if x in reach and x not in mates]
            out[q] = out.get(q, True) and okc
    return out


def success_exits(body):
    if body.local_ty(0).startswith('std::result::Result<'):
        errs, oks = core.result_exits(body)
        return [b for (b, k, d) in oks]
    return body.exits()


def covered(body, ws, fld, pred, store_adt):
    """Every path to a successful exit passes (a) a write of the field that satisfies `pred`, or (b) the true
    edge of an equality test showing that the field already holds the value that would be assigned
    (`self.f == p`; for the shard store: a getter of the store compared with a parameter).
    Returns the qualifying writes if so, else []."""
    writes = [w for w in ws if w[0] == fld and pred(w)]
    if not writes:
        return []
    assigns = [w for w in ws if w[0] == fld and w[1] == 'assign']
    vals = {repr(core.strip_var_ids(w[2])) for w in assigns}
    SELF = ('deref', ('param', 'self'))
    eq_true = set()
    for sb in range(body.n):
        t = body.term(sb)
        if t['k'] != 'switch' or body.blocks[sb]['cleanup']:
            continue
        c = body.canon_op(t['discr'])
        neg = False
        while c[0] == 'un' and c[1] == 'Not':
            neg, c = (not neg), c[2]
        if c[0] == 'bin' and c[1] in ('Eq', 'Ne'):
            a, b2 = core.strip_var_ids(c[2]), core.strip_var_ids(c[3])
            good = False
            for x, other in ((a, b2), (b2, a)):
                if x == ('field', SELF, fld) and repr(other) in vals:
                    good = True
                if store_adt and x[0] == 'call' and x[2] and strip_ref(x[2][0]) == ('field', SELF, fld):
                    names = set()
                    collect_params(other, names)
                    if names:
                        good = True
            if not good:
                continue
            zero = [tgt for v, tgt in t['targets'] if v == 0]
            if len(zero) != 1:
                continue
            is_eq = (c[1] == 'Eq') != neg
            eq_true.add((sb, t['otherwise']) if is_eq else (sb, zero[0]))
    stop = frozenset(w[3] for w in writes)
    reach = body.reachable_from(0, removed_edges=eq_true, stop=stop)
    bad = [x for x in success_exits(body) if x in reach and x not in stop]
    return [] if bad else writes


def strip_ref(c):
    while isinstance(c, tuple) and c and c[0] == 'ref':
        c = c[1]
    return core.strip_var_ids(c)


def collect_params(c, out):
    if isinstance(c, tuple):
        if c and c[0] == 'param':
            out.add(c[1])
        else:
            for x in c[1:]:
                collect_params(x, out)


def is_clearing(w, ty):
    fld, kind, detail = w[0], w[1], w[2]
    if kind == 'assign':
        # zero, or the constant "nothing yet" state of a private field-less enum (`LastChunk::Encoded`)
        return detail == ('const', 0) or (isinstance(detail, tuple) and len(detail) == 4 and detail[0] == 'adt' and not detail[3])
    if kind == 'call':
        return bool(re.search(r'^fixedbitset::FixedBitSet::clear$|^std::vec::Vec::<.*>::clear$', detail or ''))
    return False


def describe(w):
    if w[1] == 'assign':
        return 'assignment of %s' % core.show(w[2])[:60]
    return 'call %s' % core.short(w[2] or '?')
