"""Runner: fact extraction with caching, rule context, evidence, known findings."""
import sys, os, json, time, hashlib, subprocess, fcntl, re, importlib, traceback, shutil

VERIF = os.path.dirname(os.path.dirname(os.path.dirname(os.path.abspath(__file__))))
REPO = os.environ.get('VERIF_REPO', '/repo')
CACHE = os.path.join(VERIF, '.cache')
DRIVER = os.path.join(VERIF, 'engine', 'rsfacts', 'target', 'release', 'rsfacts')
EXTRACT = os.path.join(VERIF, 'engine', 'extract.sh')
KNOWN = os.path.join(VERIF, 'KNOWN_FINDINGS.txt')

from . import core

ALL_IDS = ['C03', 'C04', 'C05', 'C06', 'C07', 'C08', 'C09', 'C10', 'C11', 'C12', 'C14', 'C16', 'C17']


class Infra(Exception):
    pass


def tree_hash(root):
    h = hashlib.sha256()
    files = []
    for d, dirs, fs in os.walk(root):
        dirs[:] = sorted(x for x in dirs if x not in ('.git', 'target'))
        for f in sorted(fs):
            files.append(os.path.join(d, f))
    for p in files:
        h.update(os.path.relpath(p, root).encode())
        h.update(b'\0')
        try:
            with open(p, 'rb') as fh:
                h.update(hashlib.sha256(fh.read()).digest())
        except OSError:
            pass
    return h.hexdigest(), len(files)


def driver_id():
    if not os.path.exists(DRIVER):
        raise Infra('driver not built: run MANIFEST.setup_cmd (%s missing)' % DRIVER)
    with open(DRIVER, 'rb') as fh:
        return hashlib.sha256(fh.read()).hexdigest()[:16]


def extract(src, cfg, crate='reed_solomon_simd'):
    """Returns path of the facts JSON for (src tree, cfg); extracts if not cached."""
    th, nfiles = tree_hash(src)
    key = hashlib.sha256(('%s|%s|%s|%s' % (th, driver_id(), cfg, crate)).encode()).hexdigest()[:24]
    os.makedirs(CACHE, exist_ok=True)
    out = os.path.join(CACHE, 'facts-%s-%s.json' % (cfg.replace('+', '_'), key))
    if os.environ.get('VERIF_NO_CACHE') == '1' and os.path.exists(out):
        os.unlink(out)
    lock = open(os.path.join(CACHE, 'lock-%s' % cfg.replace('+', '_')), 'w')
    fcntl.flock(lock, fcntl.LOCK_EX)
    try:
        if not os.path.exists(out):
            tmp = out + '.tmp.%d' % os.getpid()
            t0 = time.time()
            r = subprocess.run([EXTRACT, src, tmp, cfg, crate], capture_output=True, text=True)
            if r.returncode != 0 or not os.path.exists(tmp):
                raise Infra('fact extraction failed for cfg %s (does %s compile?):\n%s'
                            % (cfg, src, (r.stderr or '')[-3000:]))
            os.rename(tmp, out)
            sys.stderr.write('[extract %s: %.1fs]\n' % (cfg, time.time() - t0))
            # keep the cache small: drop older fact files of this cfg
            pre = 'facts-%s-' % cfg.replace('+', '_')
            olds = sorted((f for f in os.listdir(CACHE) if f.startswith(pre) and f.endswith('.json')),
                          key=lambda f: os.path.getmtime(os.path.join(CACHE, f)))
            # (the self-test analyses a dozen variants at once, each with several checks: a small cache thrashes)
            for f in olds[:-48]:
                try:
                    os.unlink(os.path.join(CACHE, f))
                except OSError:
                    pass
            for f in os.listdir(CACHE):       # leftovers of interrupted runs
                if '.json.tmp.' in f:
                    try:
                        if time.time() - os.path.getmtime(os.path.join(CACHE, f)) > 3600:
                            os.unlink(os.path.join(CACHE, f))
                    except OSError:
                        pass
    finally:
        fcntl.flock(lock, fcntl.LOCK_UN)
        lock.close()
    return out


class Rule:
    def __init__(self, rid, template):
        self.id = rid
        self.template = template
        self.instances = []   # (key, ok, detail)
        self.floor = None
        self.exceptions = []


class Ctx:
    """What a rule module sees."""

    def __init__(self, pid, tier, repo):
        self.pid = pid
        self.tier = tier
        self.repo = repo
        self._facts = {}
        self.rules = {}
        self.violations = {}   # key -> dict
        self.samples = []
        self.notes = []
        self.cfgs_used = []
        self._alias = None     # while a clause of another property is evaluated: {foreign rule id -> own rule id}

    def facts(self, cfg):
        if cfg not in self._facts:
            p = extract(self.repo, cfg)
            self._facts[cfg] = core.Facts(p, cfg)
            self.cfgs_used.append(cfg)
        return self._facts[cfg]

    def shared(self, mapping, fn, *args):
        """Evaluate a clause that another property's module implements (fn reports under that module's rule ids) as a
        clause of THIS property: ids in `mapping` are renamed, everything else fn reports is dropped.  A structural
        condition that is necessary for two properties is decided once and reported by both."""
        old, old_only = self._alias, getattr(self, '_only', None)
        self._alias = dict(mapping)
        self._only = None
        if args and isinstance(args[-1], dict) and set(args[-1]) == {'only'}:
            # last argument {'only': predicate on the violation key}: this property states the clause for part of the sites
            self._only = args[-1]['only']
            args = args[:-1]
        try:
            return fn(*args)
        finally:
            self._alias = old
            self._only = old_only

    def _rid(self, rid):
        if self._alias is None:
            return rid
        return self._alias.get(rid)

    def rule(self, rid, template):
        if self._alias is not None and rid not in self.rules:
            rid = self._rid(rid)
            if rid is None:
                return None
        if rid not in self.rules:
            self.rules[rid] = Rule(rid, template)
        return self.rules[rid]

    def ok(self, rid, key, detail=None, nontrivial=True):
        rid = self._rid(rid)
        if rid is None:
            return
        self.rules[rid].instances.append((key, True, detail, nontrivial))
        if detail is not None and len(self.samples) < 400:
            self.samples.append({'rule': rid, 'instance': key, 'verdict': 'holds', 'detail': detail})

    def violation(self, rid, key, msg, site=None, fn=None, cfg=None, detail=None):
        """key: discriminator WITHOUT line numbers; full key = rid:fn:key"""
        rid = self._rid(rid)
        if rid is None:
            return None
        if self._alias is not None and getattr(self, '_only', None) is not None and not self._only(key):
            return None
        full = '%s:%s:%s' % (rid, fn or '-', key)
        self.rules[rid].instances.append((full, False, msg, True))
        v = self.violations.get(full)
        if v is None:
            v = {'property': self.pid, 'rule': rid, 'key': full, 'function': fn, 'message': msg,
                 'site': site, 'cfgs': [], 'detail': detail,
                 'template': self.rules[rid].template}
            self.violations[full] = v
        if cfg and cfg not in v['cfgs']:
            v['cfgs'].append(cfg)
        return full

    def floor(self, rid, expected, got, what, cfg=None):
        rid0, rid = rid, self._rid(rid)
        if rid is None:
            return
        if self._alias is not None:
            # report through violation() with the already renamed id
            old, self._alias = self._alias, None
            try:
                return self.floor(rid, expected, got, what, cfg)
            finally:
                self._alias = old
        r = self.rules[rid]
        r.floor = (expected, got)
        if got < expected:
            self.violation(rid, 'floor:%s' % what,
                           'expected instance missing: rule %s matched %d %s, confirmed floor is %d'
                           % (rid, got, what, expected), cfg=cfg)

    def anchor(self, facts, path, rid=None):
        f = facts.fn(path)
        if f is None:
            rid = rid or 'anchor'
            self.rule(rid, 'public anchor must exist')
            self.violation(rid, 'anchor-missing', 'anchor missing: %s (cfg %s)' % (path, facts.cfg),
                           fn=path, cfg=facts.cfg)
        return f

    def note(self, s):
        self.notes.append(s)

    def guard(self, rid, fn, *args):
        """Run one sub-rule; if the rule's recogniser cannot cope with the shape of the code
        (exception), fail closed with an explicit 'unanalysable' violation instead of crashing."""
        try:
            return fn(*args)
        except Infra:
            raise
        except Exception as e:
            tb = traceback.format_exc().strip().splitlines()
            where = [l.strip() for l in tb if l.strip().startswith('File')][-1:] or ['?']
            if rid not in self.rules:
                self.rule(rid, 'sub-rule must be able to analyse the anchored code')
            self.violation(rid, 'unanalysable:%s' % fn.__name__,
                           'unrecognised idiom: sub-rule %s could not analyse the current shape of the code (%s: %s at %s); '
                           'the clause it decides is therefore NOT established on this tree'
                           % (fn.__name__, type(e).__name__, e, where[0]), fn=fn.__name__)
            return None


def load_known(pid):
    known = {}
    fixed = []
    if os.path.exists(KNOWN):
        for line in open(KNOWN):
            line = line.strip()
            if not line or line.startswith('#'):
                continue
            m = re.match(r'known:\s+property=(\S+)\s+key=(\S+)\s+(.*)$', line)
            if m and m.group(1) == pid:
                known[m.group(2)] = m.group(3)
            m = re.match(r'fixed:\s+property=(\S+)\s+(\S+)\s+(.*)$', line)
            if m and m.group(1) == pid:
                fixed.append((m.group(2), m.group(3)))
    return known, fixed


def safe_name(key):
    return re.sub(r'[^A-Za-z0-9_.-]+', '_', key)[:150] + '-' + hashlib.sha256(key.encode()).hexdigest()[:8]


def run_property(pid, tier, replay=None, quiet=False, no_evidence=False):
    t0 = time.time()
    mod = importlib.import_module('rules.%s' % pid.lower())
    ctx = Ctx(pid, tier, REPO)
    infra = None
    try:
        mod.run(ctx)
    except Infra as e:
        infra = str(e)
    except Exception:
        infra = 'rule engine crashed:\n' + traceback.format_exc()
    if infra:
        print('INFRA-ERROR property=%s %s' % (pid, infra.splitlines()[0]))
        sys.stderr.write(infra + '\n')
        if not no_evidence:
            write_evidence(pid, tier, ctx, mod, time.time() - t0, [], [], infra=infra)
        return 2

    known, fixed = load_known(pid)
    rep_dir = os.path.join(VERIF, 'reports', pid)
    if no_evidence:
        rep_dir = os.path.join('/tmp', 'rsverif_reports_%d' % os.getpid(), pid)
    if os.path.isdir(rep_dir):
        shutil.rmtree(rep_dir, ignore_errors=True)
    os.makedirs(rep_dir, exist_ok=True)
    new, listed = [], []
    for key, v in sorted(ctx.violations.items()):
        path = os.path.join(rep_dir, safe_name(key) + '.json')
        with open(path, 'w') as fh:
            json.dump(v, fh, indent=1)
        v['report'] = path
        if key in known:
            listed.append(v)
        else:
            new.append(v)

    if replay:
        try:
            want = json.load(open(replay))['key']
        except Exception as e:
            print('cannot read replay file %s: %s' % (replay, e))
            return 2
        hit = ctx.violations.get(want)
        if hit:
            print('REPLAY property=%s key=%s still violated on the current tree' % (pid, want))
            print('  %s' % hit['message'])
            if hit.get('site'):
                print('  at %s' % hit['site'])
            print('VIOLATION property=%s replay=%s' % (pid, hit['report']))
            return 1
        print('REPLAY property=%s key=%s no longer violated' % (pid, want))
        return 0

    for v in listed:
        print('KNOWN-FINDING: property=%s %s [%s]' % (pid, known[v['key']], v['key']))
    for v in new:
        print('VIOLATION property=%s replay=%s' % (pid, v['report']))
        print('VIOLATION-KEY %s' % v['key'])
        print('  rule %s: %s' % (v['rule'], v['message']))
        if v.get('site'):
            print('  at %s   (fn %s; cfgs %s)' % (v['site'], v.get('function'), ','.join(v['cfgs'])))
    canaries, dead = ([], None)
    if not no_evidence and os.environ.get('VERIF_NO_SELFCHECK') != '1':
        canaries, dead = selfcheck(pid, tier, mod)
        if tier == 'thorough' and os.environ.get('VERIF_MUTANT') != '1':
            # full two-way self-test of this property's rules (mutants, seeded changes, benign edits);
            # recorded in the evidence, never changes the verdict on /repo
            try:
                r = subprocess.run([sys.executable, os.path.join(VERIF, 'selftest', 'run_mutants.py'), '--prop', pid, '--jobs', '12'],
                                   capture_output=True, text=True, timeout=3000)
                st = {'caught': re.findall(r'^caught\s+(\S+)', r.stdout, re.M), 'silent_on_benign': re.findall(r'^silent\s+(\S+)', r.stdout, re.M),
                      'missed': re.findall(r'^(?:MISSED|infra)\s+(\S+)', r.stdout, re.M), 'skipped': re.findall(r'^skipped\s+(\S+)', r.stdout, re.M)}
                canaries = canaries + [{'selftest': st}]
                print('self-test %s: %d broken variants reported, %d benign silent, %d missed, %d skipped'
                      % (pid, len(st['caught']), len(st['silent_on_benign']), len(st['missed']), len(st['skipped'])))
                for mname in st['missed']:
                    print('NOTE self-test: variant %s was not reported by the %s rules' % (mname, pid))
            except Exception as e:
                print('NOTE self-test could not run: %s' % e)
    if not no_evidence:
        write_evidence(pid, tier, ctx, mod, time.time() - t0, new, listed, canaries=canaries)
    else:
        shutil.rmtree(os.path.dirname(rep_dir), ignore_errors=True)
    for c in canaries:
        if c.get('note') and c.get('applied'):
            print('NOTE canary %s: %s' % (c.get('id'), c['note']))
    if dead:
        print('INFRA-ERROR property=%s rule cannot fire: canary %s (a deliberate violation injected into a scratch copy) was not reported' % (pid, dead))
        return 2
    if not quiet:
        nin = sum(len(r.instances) for r in ctx.rules.values())
        nc = sum(1 for c in canaries if c.get('fired'))
        canaries_only = [c for c in canaries if 'id' in c]
        print('%s: %d rules, %d instances examined, %d violations (%d known) over cfgs %s; canaries fired %d/%d  [%.1fs]'
              % (pid, len(ctx.rules), nin, len(new) + len(listed), len(listed),
                 ','.join(ctx.cfgs_used), nc, sum(1 for c in canaries_only if c.get('applied')), time.time() - t0))
    return 1 if new else 0


def apply_edits(root, m):
    """apply one mutant (search/replace edits or a patch) to the tree at root; False if it does not apply"""
    if 'patch' in m:
        r = subprocess.run(['patch', '-p1', '-s', '-d', root, '-i', os.path.join(VERIF, m['patch'])], capture_output=True, text=True)
        return r.returncode == 0
    staged = {}
    for ed in m['edits']:
        fp = os.path.join(root, ed['file'])
        try:
            src = staged.get(fp) or open(fp).read()
        except OSError:
            return False
        idx = -1
        for _ in range(ed.get('nth', 0) + 1):
            idx = src.find(ed['find'], idx + 1)
            if idx < 0:
                return False
        staged[fp] = src[:idx] + ed['replace'] + src[idx + len(ed['find']):]
    for fp, src in staged.items():
        open(fp, 'w').write(src)
    return True


def selfcheck(pid, tier, mod):
    """Canaries: the property's rules are run once more on a scratch copy of /repo with a few
    deliberate violations injected (selftest/mutants/*.json entries marked `canary`).  Every canary
    that applies must be reported, otherwise the rule 'cannot fire' (infrastructure error)."""
    import glob, tempfile
    cans = []
    for p in sorted(glob.glob(os.path.join(VERIF, 'selftest', 'mutants', '*.json'))):
        for m in json.load(open(p)):
            props = m['property'] if isinstance(m['property'], list) else [m['property']]
            if m.get('canary') and props[0] == pid:
                cans.append(m)
    if not cans:
        return [], None
    tmp = tempfile.mkdtemp(prefix='rscanary_', dir='/tmp')
    try:
        subprocess.run('cd %s && tar --exclude=.git --exclude=target -cf - . | tar -C %s -xf -' % (REPO, tmp), shell=True, check=True)
        applied = []
        for m in cans:
            if apply_edits(tmp, m):
                applied.append(m)
        ctx2 = Ctx(pid, tier, tmp)
        try:
            mod.run(ctx2)
        except Infra as e:
            # the canary tree does not compile with this /repo: report, do not fail the check
            return [{'id': m['id'], 'applied': m in applied, 'fired': None, 'note': 'canary tree not analysable: %s' % str(e).splitlines()[0][:120]} for m in cans], None
        keys = list(ctx2.violations.keys())
        res = []
        dead = None
        for m in cans:
            if m not in applied:
                res.append({'id': m['id'], 'applied': False, 'fired': None, 'note': 'edit does not apply to the current /repo tree (skipped)'})
                continue
            fired = any(re.search(m['expect'], k) for k in keys)
            res.append({'id': m['id'], 'applied': True, 'fired': fired})
            if not fired:
                dead = m['id']
        return res, dead
    finally:
        shutil.rmtree(tmp, ignore_errors=True)


def write_evidence(pid, tier, ctx, mod, wall, new, listed, infra=None, canaries=None):
    rules = []
    total = 0
    nontrivial = set()
    discharged = 0
    for r in ctx.rules.values():
        n_ok = sum(1 for i in r.instances if i[1])
        total += len(r.instances)
        discharged += n_ok
        for i in r.instances:
            if i[3]:
                nontrivial.add((r.id, i[0]))
        rules.append({'rule': r.id, 'template': r.template, 'instances': len(r.instances),
                      'holding': n_ok, 'floor': r.floor, 'exceptions': r.exceptions})
    stats = [f.stats() for f in ctx._facts.values()]
    samples = ctx.samples[:12]
    if not samples:
        samples = [{'note': 'no instance recorded'}]
    ev = {
        'property_id': pid,
        'tier': tier,
        'seed': int(os.environ.get('VERIF_SEED', '0') or 0),
        'level': 'other',
        'coverage': {
            'explanation': getattr(mod, 'EXPLANATION', ''),
            'evaluations': total,
            'distinct_nontrivial': len(nontrivial),
            'rule': 'an evaluation is one rule instance (call site, path pair, function, obligation) '
                    'found in the type-checked program and decided; distinct = distinct (rule, instance key); '
                    'non-trivial = the instance carried an obligation that an edit of /repo can falsify',
            'obligations': total,
            'discharged': discharged,
            'samples': samples,
            'rules': rules,
            'configurations': stats,
            'checker_cmd': './check %s --tier %s' % (pid, tier),
            'trusted_base': getattr(mod, 'TRUSTED', []) + [
                'rustc nightly type checker, MIR construction and Instance::try_resolve',
                'engine/rsfacts fact extractor and engine/rules (this repository)'],
            'decided_clauses': getattr(mod, 'DECIDES', ''),
            'not_decided': getattr(mod, 'NOT_DECIDED', ''),
            'notes': ctx.notes,
            'known_findings_reported': [v['key'] for v in listed],
            'violation_keys': [v['key'] for v in new],
            'canaries': canaries or [],
        },
        'assumptions': getattr(mod, 'ASSUMPTIONS', []),
        'wall_s': round(wall, 2),
        'violations': len(new),
    }
    if infra:
        ev['coverage']['infrastructure_error'] = infra[:2000]
    os.makedirs(os.path.join(VERIF, 'evidence'), exist_ok=True)
    with open(os.path.join(VERIF, 'evidence', '%s.json' % pid), 'w') as fh:
        json.dump(ev, fh, indent=1)


def main(argv):
    tier = os.environ.get('VERIF_TIER') or 'quick'
    replay = None
    no_ev = False
    ids = []
    i = 0
    while i < len(argv):
        a = argv[i]
        if a == '--tier':
            tier = argv[i + 1]
            i += 1
        elif a == '--replay':
            replay = argv[i + 1]
            i += 1
        elif a == '--no-evidence':
            no_ev = True
        elif a == '--all':
            ids = list(ALL_IDS)
        else:
            ids.append(a)
        i += 1
    if tier not in ('quick', 'thorough'):
        tier = 'quick'
    if not ids:
        print(__doc__)
        return 2
    rc = 0
    for pid in ids:
        try:
            r = run_property(pid, tier, replay, no_evidence=no_ev)
        except ModuleNotFoundError as e:
            print('no rule module for %s: %s' % (pid, e))
            r = 2
        rc = max(rc, r)
    return rc
