"""C09 — the default codec is the rate fixed by the selection rule; API layers agree."""
import re
from . import core, summ
from .core import op_place

EXPLANATION = (
    "(a) The rate-decision function (the crate fn returning Result<bool,Error> that DefaultRate::supports and "
    "DefaultRate{En,De}coder::{new,reset} all call) is evaluated abstractly over the finite domain "
    "ord(next_power_of_two(o), next_power_of_two(r)) x ord(o, r): every switch at which two successors can "
    "still reach an Ok exit must test an atom of that domain (a comparison or Ord::cmp of o,r or of their "
    "next_power_of_two), otherwise 'the choice depends on something else'; the five feasible points are then "
    "walked through the CFG and the boolean reached is compared with the statement's table. "
    "(b) In DefaultRate{En,De}coder::{new,reset} every use of the high-rate codec (new/reset/validate) is "
    "dominated by the non-zero edge of a switch on that decision value computed from (original_count, "
    "recovery_count) in order, every use of the low-rate codec by the zero edge; encoder and decoder alike. "
    "(c) Every other DefaultRate{En,De}coder method only forwards to the same method of the inner High/Low "
    "codec with its own arguments in order; every ReedSolomon{En,De}coder method forwards to the same method of "
    "DefaultRate{En,De}coder<DefaultEngine>; new passes (o, r, shard_bytes, DefaultEngine::new(), None). "
    "Byte-for-byte equality with the dedicated codec holds because the default codec IS that codec.")
DECIDES = "selection rule (as a function of the two orderings only), agreement of encoder/decoder/supports on one decision, pure delegation of all layers."
NOT_DECIDED = "nothing numerical is needed; what the dedicated codecs compute is C01/C02 (not applicable)."
TRUSTED = ["monotonicity of usize::next_power_of_two (used to enumerate the feasible points of the domain)"]
ASSUMPTIONS = []

EXPECT = {('<', '<'): False, ('=', '<'): True, ('=', '='): True, ('=', '>'): False, ('>', '>'): True}
DR = 'rate::rate_default::'


def run(ctx):
    cfgs = ['x86_64'] if ctx.tier == 'quick' else ['x86_64', 'aarch64', 'i686']
    ctx.rule('C09.a-decision-domain', 'every decisive branch of the rate decision tests an ordering of (o,r) or of their next_power_of_two')
    ctx.rule('C09.a-decision-table', 'abstract evaluation of the decision over the 5 feasible ordering points equals the documented rule')
    ctx.rule('C09.b-single-source', 'supports/new/reset of encoder and decoder all use the one decision fn on (original_count, recovery_count); high/low codec uses are governed by its value')
    ctx.rule('C09.c-delegation', 'DefaultRate* methods forward to the inner codec; ReedSolomon* methods forward to DefaultRate*<DefaultEngine>')
    ctx.rule('C09.e-handover-reset-complete', 'the work object a rate switch hands to the other dedicated codec is completely reconfigured by the explicit reset, so that the default codec equals a fresh dedicated one (clause shared with C05.a)')
    from . import resetrules
    ctx.guard('C09.analysable', ctx.shared, {'X.full': 'C09.e-handover-reset-complete'}, resetrules.check_reset_discipline, ctx, ctx.facts(cfgs[0]), cfgs[0], 'X.drop', 'X.recv', 'X.full')
    ctx.rule('C09.g-reused-space-like-fresh', 'after a rate switch the dedicated codec runs on a used working space: every truncated transform is preceded by zeroing of its tail, as on a fresh codec (clause shared with C05.c)')
    from . import c05 as c05_
    ctx.guard('C09.analysable', ctx.shared, {'C05.c-truncated-ifft-zeroed': 'C09.g-reused-space-like-fresh'}, c05_.ifft_rule, ctx, ctx.facts(cfgs[0]), cfgs[0])
    ctx.guard('C09.analysable', ctx.shared, {'C05.k-insert-always-stores': 'C09.g-reused-space-like-fresh'}, c05_.insert_always_stores, ctx, ctx.facts(cfgs[0]), cfgs[0])
    ctx.rule('C09.i-one-shot-runs-the-streaming-sequence', 'the one-shot functions return what the wrapper codec returns for the same shards: their result comes from that codec\'s encode / decode on every path (clause shared with C10.a)')
    ctx.rule('C09.j-no-history-lengths', 'a codec reached through reset (rate switch or not) reads no length of a grow-only container: it behaves like the dedicated codec created fresh (clause shared with C05.h)')
    from . import c10 as c10_, c05 as c05__
    ctx.guard('C09.analysable', ctx.shared, {'C10.a-must-pass': 'C09.i-one-shot-runs-the-streaming-sequence', 'C10.a-result-source': 'C09.i-one-shot-runs-the-streaming-sequence', 'C10.l-inputs-drained': 'C09.i-one-shot-runs-the-streaming-sequence'}, c10_.both, ctx, ctx.facts(cfgs[0]), cfgs[0])
    ctx.guard('C09.analysable', ctx.shared, {'C05.h-grow-only-lengths': 'C09.j-no-history-lengths'}, c05__.grow_only_lengths, ctx, ctx.facts(cfgs[0]), cfgs[0])
    ctx.rule('C09.h-store-geometry-rewritten', 'the shard store a dedicated codec inherits at a rate switch (or keeps over a reset) is completely re-described by its resize: no stride, byte or tail length of the previous configuration survives (clause shared with C04.d)')
    from . import c04 as c04_
    ctx.guard('C09.analysable', c04_.store_resize_complete, ctx, ctx.facts(cfgs[0]), cfgs[0], 'C09.h-store-geometry-rewritten')
    ctx.rule('C09.f-any-engine', 'the wrappers and one-shot functions (default engine) give the bytes of the default-rate codec with any engine: the selectable engines are siblings (clauses shared with C03.a / C03.e)')
    from . import c03
    ctx.guard('C09.analysable', ctx.shared, {'C03.e-kernel-siblings': 'C09.f-any-engine'}, c03.kernel_siblings, ctx, {c: ctx.facts(c) for c in ('x86_64', 'aarch64')})
    for c in ('x86_64', 'aarch64'):
        ctx.guard('C09.analysable', ctx.shared, {'C03.a-schedule-siblings': 'C09.f-any-engine'}, c03.schedules, ctx, ctx.facts(c), c)
        ctx.guard('C09.analysable', ctx.shared, {'C03.i-byte-order-fixed': 'C09.f-any-engine'}, c03.byte_order, ctx, ctx.facts(c), c)
    for cfg in cfgs:
        facts = ctx.facts(cfg)
        ctx.guard('C09.analysable', check, ctx, facts, cfg)


def decision_fails_exactly_on(facts, dec, preds):
    """the private predicate P among `preds` such that decision fn `dec` branches once on P(its own two parameters, in order), every Err
    exit lies behind the false edge of that branch and no Ok exit does: dec(o, r).is_ok() == P(o, r).  None when there is none."""
    db = facts.fns[dec].body
    pn = facts.fns[dec].param_names()
    errs, oks = core.result_exits(db)
    for s_ in range(db.n):
        t = db.term(s_)
        if t['k'] != 'switch' or db.blocks[s_]['cleanup'] or len(t['targets']) != 1 or t['targets'][0][0] != 0:
            continue
        cc = db.canon_op(t['discr'])
        neg = False
        while cc[0] == 'un' and cc[1] == 'Not':
            neg, cc = (not neg), cc[2]
        if not (cc[0] == 'call' and cc[1] in preds and len(cc[2]) == 2 and list(cc[2]) == [('param', n_) for n_ in pn]):
            continue
        f_edge = (s_, t['otherwise'] if neg else t['targets'][0][1])
        t_edge = (s_, t['targets'][0][1] if neg else t['otherwise'])
        if errs and all(db.edge_dominates(f_edge, b) for (b, k, d) in errs) and f_edge[1] not in db.reachable_from(t_edge[1]) \
                and not any(b2 in db.reachable_from(f_edge[1]) for (b2, k2, d2) in oks):
            return cc[1]
    return None


VIA_PRED = {}


def find_decision(ctx, facts, cfg):
    consumers = ['<rate::rate_default::DefaultRate<E> as rate::Rate<E>>::supports',
                 '<rate::rate_default::DefaultRateEncoder<E> as rate::RateEncoder<E>>::new',
                 '<rate::rate_default::DefaultRateEncoder<E> as rate::RateEncoder<E>>::reset',
                 '<rate::rate_default::DefaultRateDecoder<E> as rate::RateDecoder<E>>::new',
                 '<rate::rate_default::DefaultRateDecoder<E> as rate::RateDecoder<E>>::reset']
    cands = None
    pred_calls = {}
    for c in consumers:
        f = ctx.anchor(facts, c, 'C09.b-single-source')
        if f is None:
            return None, consumers
        called = set()
        fin = core.inlined_fn(facts, c, lambda g, t, f0=f: (not g.reachable and not g.impl_trait and not g.in_trait and g.kind != 'Closure' and g.file == f0.file
                                                          and not (g.output or '').startswith('std::result::Result<bool, Error>') and g.output != 'bool'), tag='c09d')
        preds = set()
        for b, t in fin.body.calls():
            p = t['callee'].get('path')
            g = facts.fns.get(p)
            if g is not None and (g.output or '').startswith('std::result::Result<bool, Error>'):
                called.add(p)
            if g is not None and g.output == 'bool' and not g.reachable and len(t['args']) == 2:
                preds.add(p)
        if c.endswith('::supports'):
            pred_calls[c] = (called, preds)
            continue        # supports selects no rate: it must agree with the decision, see below
        cands = called if cands is None else (cands & called)
    if not cands or len(cands) != 1:
        ctx.violation('C09.b-single-source', 'no-single-decision', 'new/reset of the default rate do not share exactly one decision fn returning Result<bool,Error> (found %s)' % sorted(cands or []),
                      fn='rate::rate_default', cfg=cfg)
        return None, consumers
    dec = sorted(cands)[0]
    for c, (called, preds) in pred_calls.items():
        if dec in called:
            continue
        # supports answers from a private predicate P(original_count, recovery_count): the decision must fail exactly when P is false
        P_ = decision_fails_exactly_on(facts, dec, preds)
        ok = P_ is not None
        if ok:
            VIA_PRED[(id(facts), c)] = P_
        if not ok:
            ctx.violation('C09.b-single-source', 'no-single-decision', '%s neither calls the decision fn %s nor a predicate that %s fails exactly on (found predicates %s)' % (c, dec, dec, sorted(preds)),
                          fn='rate::rate_default', cfg=cfg)
            return None, consumers
    return dec, consumers


def atom_of(body, c, o, r):
    """classify canonical condition: returns ('cmp3', level, flipped) for Ord::cmp discriminant,
    ('rel', op, level, flipped) for a binary comparison, or None.  level: 'id' or 'npo2'."""
    def side(x):
        x = strip(x)
        if x == ('param', o):
            return ('id', 'o')
        if x == ('param', r):
            return ('id', 'r')
        if x[0] == 'call' and x[1].endswith('next_power_of_two') and len(x[2]) == 1:
            y = strip(x[2][0])
            if y == ('param', o):
                return ('npo2', 'o')
            if y == ('param', r):
                return ('npo2', 'r')
        return None

    def strip(x):
        while isinstance(x, tuple) and x and x[0] in ('ref', 'deref'):
            x = x[1]
        if isinstance(x, tuple) and x and x[0] == 'var':
            return ('var', x[1])
        return x
    c0 = c
    if c[0] == 'discr':
        c = c[1]
    if c[0] == 'call' and re.search(r'(Ord.*::cmp|PartialOrd.*::partial_cmp)$', c[1]) and len(c[2]) == 2:
        a, b = side(c[2][0]), side(c[2][1])
        if a and b and a[0] == b[0] and {a[1], b[1]} == {'o', 'r'}:
            return ('cmp3', a[0], a[1] == 'r')
        return None
    if c[0] == 'bin' and c[1] in ('Lt', 'Le', 'Eq', 'Ne'):
        a, b = side(c[2]), side(c[3])
        if a and b and a[0] == b[0] and {a[1], b[1]} == {'o', 'r'}:
            return ('rel', c[1], a[0], a[1] == 'r')
    return None


def eval_rel(op, ordv):
    # ordv: ordering of (left, right)
    return {'Lt': ordv == '<', 'Le': ordv in ('<', '='), 'Eq': ordv == '=', 'Ne': ordv != '='}[op]


FLIP = {'<': '>', '>': '<', '=': '='}


def check(ctx, facts, cfg):
    dec, consumers = find_decision(ctx, facts, cfg)
    if dec is None:
        return
    f = facts.fns[dec]
    body = f.body
    pn = f.param_names()
    if len(pn) != 2:
        ctx.violation('C09.a-decision-domain', 'arity', 'the decision fn %s takes %d parameters, expected (original_count, recovery_count): the choice depends on something else' % (dec, len(pn)),
                      site=f.span, fn=dec, cfg=cfg)
        return
    o, r = pn
    # resolve named temporaries (original_count_pow2 etc.) through their single definition
    errs, oks = core.result_exits(body)
    ok_val = {}
    for (b, kind, d) in oks:
        if kind == 'ctor':
            st = body.blocks[b]['stmts'][d]
            c = body.canon_rv(st['rv'])
            try:
                v = c[3][0][1]
                if v[0] == 'const':
                    ok_val[b] = bool(v[1])
                else:
                    neg = False
                    while v[0] == 'un' and v[1] == 'Not':
                        neg, v = (not neg), v[2]
                    a = atom_of(body, v, o, r)
                    ok_val[b] = ('atom', a, neg) if (a is not None and a[0] == 'rel') else None
            except Exception:
                ok_val[b] = None
    if not ok_val:
        ctx.violation('C09.a-decision-table', 'no-ok', 'decision fn has no Ok(bool) exit', site=f.span, fn=dec, cfg=cfg)
        return
    reach_ok = {b for b in range(body.n) if any(x in ok_val for x in body.reachable_from(b))}
    decisive = {}
    for s in range(body.n):
        t = body.term(s)
        if t['k'] != 'switch' or body.blocks[s]['cleanup'] or s not in body.reachable_from(0):
            continue
        succ_ok = sorted({x for x in body.succs(s) if x in reach_ok})
        if len(succ_ok) < 2:
            continue
        c = body.canon_op(t['discr'])
        neg = False
        while c[0] == 'un' and c[1] == 'Not':
            neg, c = (not neg), c[2]
        a = atom_of(body, c, o, r)
        if a is None:
            ctx.violation('C09.a-decision-domain', 'foreign-atom:%s' % re.sub(r'\W+', '_', core.show(c))[:50],
                          'the rate decision branches on `%s`, which is not an ordering of (%s, %s) or of their next_power_of_two: the choice depends on something else'
                          % (core.show(c)[:160], o, r), site=t['line'], fn=dec, cfg=cfg)
            continue
        decisive[s] = (a, neg)
        ctx.ok('C09.a-decision-domain', '%s:bb-atom:%s@%s' % (dec, '/'.join(map(str, a)), cfg), {'atom': core.show(c)[:120], 'site': t['line']})
    n_atoms = len(decisive) + sum(1 for v in ok_val.values() if isinstance(v, tuple))     # a branch, or a comparison returned as the result
    ctx.floor('C09.a-decision-domain', 2, n_atoms, 'decisive comparisons in %s' % dec, cfg=cfg)
    if any(v is None for v in ok_val.values()):
        ctx.violation('C09.a-decision-table', 'non-constant-ok', 'decision returns a computed boolean, not a constant per path', site=f.span, fn=dec, cfg=cfg)
        return
    # walk each feasible point
    for (np, idr), want in sorted(EXPECT.items()):
        b = 0
        steps = 0
        got = None
        while steps < 500:
            steps += 1
            if b in ok_val:
                got = ok_val[b]
                if isinstance(got, tuple):
                    _, a, neg = got
                    ordv = np if a[2] == 'npo2' else idr
                    if a[3]:
                        ordv = FLIP[ordv]
                    got = eval_rel(a[1], ordv) != neg
                break
            t = body.term(b)
            if t['k'] == 'switch':
                if b in decisive:
                    (a, neg) = decisive[b]
                    if a[0] == 'cmp3':
                        ordv = np if a[1] == 'npo2' else idr
                        if a[2]:
                            ordv = FLIP[ordv]
                        val = {'<': 255, '=': 0, '>': 1}[ordv]
                        nxt = None
                        for v, tgt in t['targets']:
                            if v == val:
                                nxt = tgt
                        if nxt is None:
                            nxt = t['otherwise']
                    else:
                        ordv = np if a[2] == 'npo2' else idr
                        if a[3]:
                            ordv = FLIP[ordv]
                        # canonical form: bin(op, left, right) with flipped => left is r
                        truth = eval_rel(a[1], ordv)
                        if neg:
                            truth = not truth
                        zero = [tgt for v, tgt in t['targets'] if v == 0]
                        nxt = t['otherwise'] if truth else (zero[0] if zero else t['otherwise'])
                    b = nxt
                else:
                    cand = [x for x in body.succs(b) if x in reach_ok]
                    if len(cand) != 1:
                        break
                    b = cand[0]
            else:
                nx = [x for x in body.succs(b) if x in reach_ok]
                if len(nx) != 1:
                    break
                b = nx[0]
        pt = 'npo2(o)%snpo2(r),o%sr' % (np, idr)
        if got is None:
            ctx.violation('C09.a-decision-table', 'stuck:%s' % pt, 'abstract evaluation of the decision got stuck for %s (unrecognised idiom)' % pt, site=f.span, fn=dec, cfg=cfg)
        elif got != want:
            ctx.violation('C09.a-decision-table', 'wrong:%s' % pt, 'for %s the decision returns high=%s but the rule says high=%s' % (pt, got, want), site=f.span, fn=dec, cfg=cfg)
        else:
            ctx.ok('C09.a-decision-table', '%s@%s' % (pt, cfg), {'high_rate': got})

    # ---------------- (b)
    def mentions_decision(c, depth=0):
        if not isinstance(c, tuple) or depth > 30:
            return False
        if c and c[0] == 'call' and c[1] == dec:
            args = [strip_refs_c(a) for a in c[2]]
            return args == [('param', 'original_count'), ('param', 'recovery_count')]
        return any(mentions_decision(x, depth + 1) for x in c[1:] if isinstance(x, tuple)) or \
            (c and c[0] == 'call' and any(mentions_decision(x, depth + 1) for x in c[2]))

    def strip_refs_c(x):
        while isinstance(x, tuple) and x and x[0] in ('ref',):
            x = x[1]
        return x

    def mentions_call(c, path, args, depth=0):
        if not isinstance(c, tuple) or depth > 30:
            return False
        if c and c[0] == 'call' and c[1] == path:
            return tuple(strip_refs_c(a) for a in c[2]) == tuple(args)
        return any(mentions_call(x, path, args, depth + 1) for x in c[1:] if isinstance(x, tuple)) or \
            (c and c[0] == 'call' and any(mentions_call(x, path, args, depth + 1) for x in c[2]))

    # decision wrappers: private fns of the same file with the decision's parameters whose Ok exits are fieldless enum variants,
    # each governed by one outcome of the decision
    wrappers = {}
    decf = facts.fns[dec]
    for gp, g in sorted(facts.fns.items()):
        if g.reachable or g.impl_trait or g.file != decf.file or gp == dec or not (g.output or '').startswith('std::result::Result<'):
            continue
        gb = g.body
        if [gb.canon_op(a) for b_, t_ in gb.calls() if t_['callee'].get('path') == dec for a in t_['args']] != [('param', n) for n in g.param_names()] or len(g.param_names()) != 2:
            continue
        sw = []
        for s_ in range(gb.n):
            t_ = gb.term(s_)
            if t_['k'] == 'switch' and not gb.blocks[s_]['cleanup']:
                c_ = gb.canon_op(t_['discr'])
                if c_[0] != 'discr' and mentions_call(c_, dec, tuple(('param', n) for n in g.param_names())):
                    zero = [tg for v, tg in t_['targets'] if v == 0]
                    if len(zero) == 1:
                        sw.append(((s_, t_['otherwise']), (s_, zero[0])))
        if len(sw) != 1:
            continue
        te, fe = sw[0]
        vmap = {}
        errs_, oks_ = core.result_exits(gb)
        okp = True
        for (b_, kind_, d_) in oks_:
            if kind_ != 'ctor':
                okp = False
                break
            st_ = gb.blocks[b_]['stmts'][d_]
            pl_ = op_place(st_['rv']['ops'][0]) if st_['rv']['ops'] else None
            vi = None
            if pl_ is not None and not pl_['p']:
                for dd in gb.defs().get(pl_['l'], []):
                    if dd[0] == 'stmt':
                        rv_ = gb.blocks[dd[1]]['stmts'][dd[2]]['rv']
                        if rv_['k'] == 'agg' and rv_.get('agg') == 'adt' and not rv_.get('ops'):
                            vi = rv_.get('vi')
            if vi is None:
                okp = False
                break
            if gb.edge_dominates(te, b_):
                vmap[vi] = True
            elif gb.edge_dominates(fe, b_):
                vmap[vi] = False
            else:
                okp = False
                break
        if okp and sorted(vmap.values()) == [False, True]:
            wrappers[gp] = vmap
            ctx.ok('C09.b-single-source', 'decision-wrapper:%s@%s' % (gp, cfg), {'variant_for_high': [v for v, o_ in vmap.items() if o_], 'variant_for_low': [v for v, o_ in vmap.items() if not o_]})

    for cp in consumers:
        # private helpers of the same file (constructing / reconfiguring the inner codec) are analysed in place
        via = VIA_PRED.get((id(facts), cp))       # supports answering from the predicate the decision fails on
        cf = core.inlined_fn(facts, cp, lambda g, t, f0=facts.fns[cp], via=via: (not g.reachable and not g.impl_trait and not g.in_trait and g.kind != 'Closure'
                                                                                 and g.file == f0.file and g.path != dec and g.path != via and g.path not in wrappers), tag='c09w')
        cb = cf.body
        dcalls = [(b, t) for b, t in cb.calls() if t['callee'].get('path') == (via or dec) or (not via and t['callee'].get('path') in wrappers)]
        okargs = dcalls and all([cb.canon_op(a) for a in t['args']] == [('param', 'original_count'), ('param', 'recovery_count')] for b, t in dcalls)
        if not okargs:
            ctx.violation('C09.b-single-source', 'decision-args', '%s does not call the decision with (original_count, recovery_count) in order' % cp,
                          site=cf.span, fn=cp, cfg=cfg)
            continue
        if cp.endswith('::supports'):
            ctx.ok('C09.b-single-source', '%s@%s' % (cp, cfg), None)
            continue
        # switches on the decision value
        dsw = []
        for s in range(cb.n):
            t = cb.term(s)
            if t['k'] == 'switch' and not cb.blocks[s]['cleanup']:
                c = cb.canon_op(t['discr'])
                if c[0] != 'discr' and mentions_decision(c):
                    zero = [tgt for v, tgt in t['targets'] if v == 0]
                    if len(zero) == 1:
                        dsw.append((s, (s, t['otherwise']), (s, zero[0])))
        # a private wrapper that turns the decision into a two-variant enum (`RateKind::select(o, r)?`): a switch on the
        # discriminant of its result is a switch on the decision
        for g in wrappers:
            for s in range(cb.n):
                t = cb.term(s)
                if t['k'] != 'switch' or cb.blocks[s]['cleanup']:
                    continue
                c = cb.canon_op(t['discr'])
                payload = c[0] == 'discr' and isinstance(c[1], tuple) and c[1][0] == 'field' and isinstance(c[1][1], tuple) and c[1][1][0] == 'down' and c[1][1][2] == 'Continue'
                if payload and mentions_call(c, g, (('param', 'original_count'), ('param', 'recovery_count'))):
                    vmap = wrappers[g]
                    tgt_of = {v: tg for v, tg in t['targets']}
                    rest = [v for v in vmap if v not in tgt_of]
                    for v in rest:
                        tgt_of[v] = t['otherwise']
                    te = [(s, tgt_of[v]) for v, o_ in vmap.items() if o_ and v in tgt_of]
                    fe = [(s, tgt_of[v]) for v, o_ in vmap.items() if not o_ and v in tgt_of]
                    if len(te) == 1 and len(fe) == 1:
                        dsw.append((s, te[0], fe[0]))
        n_uses = 0
        live0 = cb.reachable_from(0, removed_edges=cb.const_pruned_edges())     # M1: a helper inlined with a literal flag
        for b, t in cb.calls():
            k = t['callee'].get('key') or ''
            m = re.match(r'<rate::rate_(high|low)::(High|Low)Rate(En|De)coder<E> as rate::Rate(En|De)coder<E>>::(new|reset|validate)$', k) \
                or re.match(r'<rate::rate_(high|low)::(High|Low)Rate()()<E> as rate::Rate<E>>::(validate|encoder|decoder)$', k)
            if not m or b not in live0:
                continue
            n_uses += 1
            high = m.group(1) == 'high'
            gov = any(cb.edge_dominates(te if high else fe, b) for (s, te, fe) in dsw)
            wrong = any(cb.edge_dominates(fe if high else te, b) for (s, te, fe) in dsw)
            ident = '%s:%s::%s' % (cp, m.group(2) + 'Rate', m.group(5))
            if gov and not wrong:
                ctx.ok('C09.b-single-source', ident + '@' + cfg + '#%d' % n_uses, {'site': t['line'], 'governed_by': 'decision == %s' % ('high' if high else 'low')})
            else:
                ctx.violation('C09.b-single-source', 'ungoverned:%s::%s' % (m.group(2) + 'Rate', m.group(5)),
                              '%s uses the %s-rate codec (%s) on a path not governed by the decision for (original_count, recovery_count) being %s%s'
                              % (cp, m.group(1), m.group(5), 'high' if high else 'low', ' (it is reached under the OPPOSITE outcome)' if wrong else ''),
                              site=t['line'], fn=cp, cfg=cfg)
        ctx.floor('C09.b-single-source', 2, n_uses, 'dedicated-codec uses in %s' % cp, cfg=cfg)

    # ---------------- (c) delegation
    deleg = {'rate::RateEncoder': ('add_original_shard', 'encode', 'into_parts'),
             'rate::RateDecoder': ('add_original_shard', 'add_recovery_shard', 'decode', 'into_parts')}
    nd = 0
    for p, fn in sorted(facts.fns.items()):
        if not ((fn.impl_self_adt or '').startswith(DR + 'DefaultRate') and fn.impl_trait in deleg and fn.name in deleg[fn.impl_trait]):
            continue
        nd += 1
        # the dispatch may live in a private method of the inner enum that the trait method forwards to
        b = core.inlined_fn(facts, p, lambda g, t, f0=fn: (not g.reachable and not g.impl_trait and not g.in_trait and g.kind != 'Closure' and g.file == f0.file), tag='c09c').body
        params = fn.param_names()
        crate_calls = [(bb, t) for bb, t in b.calls() if t['callee'].get('local')]
        kinds = set()
        bad = None
        for bb, t in crate_calls:
            k = t['callee'].get('key') or ''
            m = re.match(r'<rate::rate_(high|low)::(High|Low)Rate(En|De)coder<E> as (rate::Rate(En|De)coder)<E>>::(\w+)', k)
            if not m or m.group(6) != fn.name or m.group(4) != fn.impl_trait:
                bad = 'calls %s' % (k or t['callee'].get('path'))
                break
            recv = core.show(b.canon_op(t['args'][0]))
            if 'self' not in recv or ('as High' if m.group(1) == 'high' else 'as Low') not in recv:
                bad = 'receiver of %s is %s, not the inner %s codec' % (core.short(k), recv[:80], m.group(2))
                break
            rest = [b.canon_op(a) for a in t['args'][1:]]
            if rest != [('param', n) for n in params[1:]]:
                bad = 'arguments of %s are %s, not the own parameters in order' % (core.short(k), [core.show(x) for x in rest])
                break
            if not (t['dest']['l'] == 0 and not t['dest']['p']):
                bad = 'result of %s is post-processed instead of returned' % core.short(k)
                break
            kinds.add(m.group(1))
        if bad is None and kinds != {'high', 'low'}:
            bad = 'does not forward to both inner codecs (found %s)' % sorted(kinds)
        # no other effects: no assignments through self
        if bad is None:
            for bb in range(b.n):
                for st in b.blocks[bb]['stmts']:
                    if st['k'] == 'assign' and st['lhs']['l'] == 1 and '*' in st['lhs']['p']:
                        bad = 'writes to self at %s' % st['line']
        if bad:
            ctx.violation('C09.c-delegation', 'default-not-forwarding', '%s is not a pure forwarding match: %s' % (p, bad), site=fn.span, fn=p, cfg=cfg)
        else:
            ctx.ok('C09.c-delegation', '%s@%s' % (p, cfg), None)
    ctx.floor('C09.c-delegation', 7, nd, 'DefaultRate forwarding methods', cfg=cfg)

    nw = 0
    for side, inner_tr in (('Encoder', 'rate::RateEncoder'), ('Decoder', 'rate::RateDecoder')):
        adt = 'reed_solomon::ReedSolomon' + side
        a = facts.adts.get(adt)
        if a is None:
            ctx.violation('C09.c-delegation', 'anchor-missing', 'anchor missing: %s' % adt, fn=adt, cfg=cfg)
            continue
        flds = [(fl['name'], fl['ty']) for v in a['variants'] for fl in v['fields']]
        inner_field = flds[0][0] if len(flds) == 1 else None
        if [t for _, t in flds] != ['rate::rate_default::DefaultRate%s<engine::engine_default::DefaultEngine>' % side]:
            ctx.violation('C09.c-delegation', 'wrapper-state', '%s holds %s: it must be exactly a DefaultRate%s<DefaultEngine> (extra state can make the layers disagree)' % (adt, flds, side),
                          site=a['span'], fn=adt, cfg=cfg)
        else:
            ctx.ok('C09.c-delegation', 'adt:%s@%s' % (adt, cfg), {'fields': flds})
        for p, fn in sorted(facts.fns.items()):
            if fn.impl_self_adt != adt or fn.impl_trait:
                continue
            nw += 1
            b = fn.body
            params = fn.param_names()
            crate_calls = [(bb, t) for bb, t in b.calls() if t['callee'].get('local')]
            bad = None
            want_prefix = '<rate::rate_default::DefaultRate%s<engine::engine_default::DefaultEngine> as %s<engine::engine_default::DefaultEngine>>::' % (side, inner_tr)
            if fn.name == 'supports':
                want = '<rate::rate_default::DefaultRate<engine::engine_default::DefaultEngine> as rate::Rate<engine::engine_default::DefaultEngine>>::supports'
                ks = [t['callee'].get('key') for bb, t in crate_calls]
                if ks != [want]:
                    bad = 'calls %s' % ks
                elif [b.canon_op(x) for x in crate_calls[0][1]['args']] != [('param', n) for n in params]:
                    bad = 'arguments not passed in order'
            elif fn.name == 'new':
                SM = summ.summaries(facts)
                ks = [SM.through_forwarders(t['callee'].get('key')) for bb, t in crate_calls]
                want = want_prefix + 'new'
                if sorted(ks) != sorted([want, 'engine::engine_default::DefaultEngine::new']):
                    bad = 'calls %s' % ks
                else:
                    t = [t for bb, t in crate_calls if SM.through_forwarders(t['callee'].get('key')) == want][0]
                    args = [b.canon_op(x) for x in t['args']]
                    exp3 = [('param', n) for n in params]
                    if args[:3] != exp3:
                        bad = 'counts / shard size not passed in order'
                    elif not (args[3][0] == 'call' and args[3][1] == 'engine::engine_default::DefaultEngine::new'):
                        bad = 'engine argument is %s' % core.show(args[3])
                    elif not (args[4][0] == 'adt' and args[4][2] == 'None'):
                        bad = 'work argument is %s, expected None' % core.show(args[4])[:60]
            else:
                ks = [t['callee'].get('key') or '' for bb, t in crate_calls]
                if len(ks) != 1 or not ks[0].startswith(want_prefix + fn.name):
                    bad = 'calls %s instead of exactly %s%s' % (ks, want_prefix, fn.name)
                else:
                    t = crate_calls[0][1]
                    recv = core.show(b.canon_op(t['args'][0]))
                    rest = [b.canon_op(x) for x in t['args'][1:]]
                    if 'self' not in recv or ('.%s' % inner_field) not in recv:
                        bad = 'receiver is %s' % recv
                    elif rest != [('param', n) for n in params[1:]]:
                        bad = 'arguments are not the own parameters in order'
                    elif not (t['dest']['l'] == 0 and not t['dest']['p']):
                        bad = 'result is post-processed'
            if bad is None:
                for bb in range(b.n):
                    for st in b.blocks[bb]['stmts']:
                        if st['k'] == 'assign' and st['lhs']['l'] == 1 and '*' in st['lhs']['p'] and fn.name != 'new':
                            bad = 'writes to self at %s' % st['line']
            if bad:
                ctx.violation('C09.c-delegation', 'wrapper-not-forwarding', '%s is not a forwarding wrapper: %s' % (p, bad), site=fn.span, fn=p, cfg=cfg)
            else:
                ctx.ok('C09.c-delegation', '%s@%s' % (p, cfg), None)
    ctx.floor('C09.c-delegation', 11, nw, 'ReedSolomon wrapper methods', cfg=cfg)
