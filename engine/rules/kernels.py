"""Lane-wise value numbering of the SIMD kernels (C03.e).

The multiply / butterfly kernels of the SIMD engines are straight-line code over 16-byte
lanes.  A single forward pass over the MIR (calls to crate helpers inlined, no path
enumeration, no solver) gives every vector value as an expression DAG over
    ld(block, 16-byte slot)  tbl(lo|hi, i)  xor  shuf(table, index)  niblo(x)  nibhi(x)
with 256-bit values as pairs of lanes.  The final contents of the written 16-byte slots are then
compared across sibling engines: SSSE3 (x86_64 build) is the reference for AVX2 (same build)
and for Neon (aarch64 build).  Intrinsics are mapped through an explicit table; anything else
stays opaque and therefore shows up as a difference."""
import re
from . import core
from .core import op_place

INTRIN = {
    # loads / stores
    '_mm_loadu_si128': ('load', 1), '_mm_load_si128': ('load', 1), '_mm256_loadu_si256': ('load', 2), 'vld1q_u8': ('load', 1),
    '_mm_storeu_si128': ('store', 1), '_mm256_storeu_si256': ('store', 2), 'vst1q_u8': ('store', 1),
    '_mm_store_si128': ('store', 1), '_mm256_store_si256': ('store', 2), '_mm256_load_si256': ('load', 2),   # alignment is C03.b's business
    # lane-wise logic
    '_mm_xor_si128': ('xor',), '_mm256_xor_si256': ('xor',), 'veorq_u8': ('xor',),
    '_mm_and_si128': ('and',), '_mm256_and_si256': ('and',), 'vandq_u8': ('and',),
    '_mm_shuffle_epi8': ('shuf',), '_mm256_shuffle_epi8': ('shuf',), 'vqtbl1q_u8': ('shuf',),
    '_mm_set1_epi8': ('splat', 1), '_mm256_set1_epi8': ('splat', 2), 'vdupq_n_u8': ('splat', 1),
    '_mm_srli_epi64': ('srl64',), '_mm256_srli_epi64': ('srl64',), 'vshrq_n_u8': ('shr8',),
    '_mm256_broadcastsi128_si256': ('bcast',),
}


class Opaque(Exception):
    pass


def lane_norm(e):
    """rewrite rules on lane expressions"""
    if not isinstance(e, tuple):
        return e
    k = e[0]
    if k == 'and':
        a, b = e[1], e[2]
        for x, y in ((a, b), (b, a)):
            if y == ('splat', 15):
                if isinstance(x, tuple) and x[0] == 'srl64' and x[2] == 4:
                    return ('nibhi', x[1])
                return ('niblo', x)
        return ('and',) + tuple(sorted((a, b), key=repr))
    if k == 'shr8' and e[2] == 4:
        return ('nibhi', e[1])
    if k == 'xor':
        # flatten and sort (xor is associative/commutative); cancel nothing (not needed)
        terms = []
        for x in e[1:]:
            if isinstance(x, tuple) and x[0] == 'xor':
                terms.extend(x[1:])
            else:
                terms.append(x)
        return ('xor',) + tuple(sorted(terms, key=repr))
    return e


class Eval:
    def __init__(self, facts, engine_adt):
        self.facts = facts
        self.adt = engine_adt
        self.mem = {}        # (base, off16) -> lane expr
        self.nblk = 0
        self.steps = 0

    # ---- values
    def vec(self, lanes):
        return ('vec', tuple(lanes))

    def load(self, ptr, nl):
        if not (isinstance(ptr, tuple) and ptr[0] == 'ptr'):
            raise Opaque('load through %r' % (ptr,))
        base, off = ptr[1], ptr[2]
        if off % 16:
            raise Opaque('unaligned slot offset %d' % off)
        lanes = []
        for i in range(nl):
            key = (base, off // 16 + i)
            lanes.append(self.mem.get(key, ('ld',) + key))
        return self.vec(lanes)

    def store(self, ptr, val):
        if not (isinstance(ptr, tuple) and ptr[0] == 'ptr') or not (isinstance(val, tuple) and val[0] == 'vec'):
            raise Opaque('store %r <- %r' % (ptr, val))
        base, off = ptr[1], ptr[2]
        for i, l in enumerate(val[1]):
            self.mem[(base, off // 16 + i)] = l

    # ---- MIR evaluation
    def call_fn(self, path, args):
        fn = self.facts.fns[path]
        body = fn.body
        env = {}
        for i, a in enumerate(args):
            env[i + 1] = a
        return self.run(body, env)

    def place_val(self, body, env, pl):
        if pl['l'] not in env:
            raise Opaque('read of unset local _%d (%s)' % (pl['l'], body.local_name(pl['l'])))
        v = env[pl['l']]
        for pr in pl['p']:
            v = self.project(v, pr, env, body)
        return v

    def project(self, v, pr, env, body):
        if pr == '*':
            if isinstance(v, tuple) and v[0] == 'ref':
                return v[1]
            if isinstance(v, tuple) and v[0] in ('blk', 'lut', 'self', 'tblarr', 'tbl', 'opaqueref', 'selffield', 'slice'):
                return v
            return ('deref', v)
        if 'f' in pr:
            name = pr['f']
            if isinstance(v, tuple) and v[0] == 'agg':
                d = dict(v[1])
                if name in d:
                    return d[name]
            if isinstance(v, tuple) and v[0] == 'tuple' and name.isdigit() and int(name) < len(v[1]):
                return v[1][int(name)]
            if isinstance(v, tuple) and v[0] == 'lut' and name in ('lo', 'hi'):
                return ('tblarr', name)
            if isinstance(v, tuple) and v[0] == 'self':
                return ('selffield', name)
            if isinstance(v, tuple) and v[0] == 'some':
                return v[1]
            return ('field', v, name)
        if 'cidx' in pr:
            if isinstance(v, tuple) and v[0] == 'tblarr':
                return ('tbl', v[1], pr['cidx'])
            if isinstance(v, tuple) and v[0] == 'tuple' and pr['cidx'] < len(v[1]):
                return v[1][pr['cidx']]        # element of an array aggregate
            return ('index', v, pr['cidx'])
        if 'idx' in pr:
            iv = env.get(pr['idx'])
            if isinstance(v, tuple) and v[0] == 'tblarr' and isinstance(iv, tuple) and iv[0] == 'const':
                return ('tbl', v[1], iv[1])
            if isinstance(v, tuple) and v[0] == 'tuple' and isinstance(iv, tuple) and iv[0] == 'const' and iv[1] < len(v[1]):
                return v[1][iv[1]]
            if isinstance(v, tuple) and v[0] == 'selffield':
                return ('lut',)
            return ('index', v, iv)
        if 'down' in pr:
            if isinstance(v, tuple) and v[0] == 'some':
                return v
            return ('down', v, pr['down'])
        return ('proj', v)

    def operand(self, body, env, op):
        c = op.get('const')
        if c is not None:
            if 'val' in c:
                return ('const', c['val'])
            if 'fn' in c:
                return ('fnref', c['fn'])
            return ('sym', c.get('sym'))
        return self.place_val(body, env, op_place(op))

    def assign(self, body, env, lhs, val):
        if not lhs['p']:
            env[lhs['l']] = val
            return
        # projected write into an aggregate held in a local (tuple element etc.)
        base = env.get(lhs['l'])
        pr = lhs['p'][0]
        if len(lhs['p']) == 1 and isinstance(pr, dict) and 'f' in pr:
            if isinstance(base, tuple) and base[0] == 'tuple':
                items = list(base[1])
                i = int(pr['f'])
                while len(items) <= i:
                    items.append(None)
                items[i] = val
                env[lhs['l']] = ('tuple', tuple(items))
                return
            if base is None and pr['f'].isdigit():
                items = [None] * (int(pr['f']) + 1)
                items[int(pr['f'])] = val
                env[lhs['l']] = ('tuple', tuple(items))
                return
            if isinstance(base, tuple) and base[0] == 'agg':
                d = dict(base[1])
                d[pr['f']] = val
                env[lhs['l']] = ('agg', tuple(sorted(d.items())))
                return
        raise Opaque('write to projected place %s' % lhs)

    def rvalue(self, body, env, rv):
        k = rv['k']
        if k == 'use':
            return self.operand(body, env, rv['op'])
        if k in ('ref', 'rawptr'):
            v = self.place_val(body, env, rv['place'])
            if isinstance(v, tuple) and v[0] in ('blk', 'tbl', 'lut', 'self', 'tblarr', 'vec', 'agg', 'tuple', 'iter'):
                return ('ref', v)
            return ('ref', v)
        if k == 'cast':
            v = self.operand(body, env, rv['op'])
            return v      # pointer / unsize / int casts keep the abstract value
        if k == 'agg':
            ops = [self.operand(body, env, o) for o in rv['ops']]
            if rv['agg'] == 'tuple':
                return ('tuple', tuple(ops))
            if rv['agg'] == 'adt':
                return ('agg', tuple(sorted(zip(rv['fields'], ops))))
            return ('tuple', tuple(ops))
        if k == 'bin':
            a, b = self.operand(body, env, rv['a']), self.operand(body, env, rv['b'])
            op = rv['op']
            if a[0] == 'const' and b[0] == 'const':
                base = op.replace('WithOverflow', '').replace('Unchecked', '')
                try:
                    v = {'Add': a[1] + b[1], 'Mul': a[1] * b[1], 'Sub': a[1] - b[1], 'Lt': int(a[1] < b[1]), 'Eq': int(a[1] == b[1]),
                         'BitAnd': a[1] & b[1], 'Shl': a[1] << b[1], 'Shr': a[1] >> b[1]}[base]
                except KeyError:
                    return ('scalar',)
                if op.endswith('WithOverflow'):
                    return ('tuple', (('const', v), ('const', 0)))
                return ('const', v)
            if op.endswith('WithOverflow'):
                return ('tuple', (('scalar',), ('const', 0)))
            return ('scalar',)
        if k == 'un':
            return ('scalar',)
        if k == 'discr':
            v = self.place_val(body, env, rv['place'])
            if isinstance(v, tuple) and v[0] == 'some':
                return ('const', 1)
            return ('scalar',)
        if k == 'repeat':
            return ('scalar',)
        return ('scalar',)

    def run(self, body, env):
        b = 0
        visited = set()
        while True:
            self.steps += 1
            if self.steps > 20000:
                raise Opaque('evaluation budget exceeded')
            if b in visited:
                return None          # loop back edge: one iteration analysed
            visited.add(b)
            blk = body.blocks[b]
            for st in blk['stmts']:
                if st['k'] == 'assign':
                    self.assign(body, env, st['lhs'], self.rvalue(body, env, st['rv']))
            t = blk['term']
            k = t['k']
            if k == 'goto':
                b = t['target']
            elif k == 'assert' or k == 'drop':
                b = t['target']
            elif k == 'return':
                return env.get(0)
            elif k == 'switch':
                d = self.operand(body, env, t['discr'])
                if isinstance(d, tuple) and d[0] == 'const':
                    nxt = None
                    for v, tgt in t['targets']:
                        if v == d[1]:
                            nxt = tgt
                    b = nxt if nxt is not None else t['otherwise']
                else:
                    raise Opaque('data-dependent branch in kernel at %s' % t['line'])
            elif k == 'call':
                args = [self.operand(body, env, a) for a in t['args']]
                val = self.do_call(t, args)
                self.assign(body, env, t['dest'], val)
                if t['target'] is None:
                    raise Opaque('diverging call')
                b = t['target']
            else:
                raise Opaque('terminator %s' % k)

    def do_call(self, t, args):
        cal = t['callee']
        p = cal.get('path') or ''
        name = p.split('::')[-1]
        if name in INTRIN and re.match(r'^(core|std)::(core_arch|arch)::', p):
            op = INTRIN[name]
            if op[0] == 'load':
                return self.load(args[0], op[1])
            if op[0] == 'store':
                self.store(args[0], args[1])
                return ('unit',)
            if op[0] == 'splat':
                c = args[0]
                if c[0] != 'const':
                    raise Opaque('splat of non-constant')
                return self.vec([('splat', c[1] & 0xff)] * op[1])
            if op[0] == 'bcast':
                return self.vec([args[0][1][0], args[0][1][0]])
            if op[0] in ('xor', 'and', 'shuf'):
                a, b2 = args[0], args[1]
                if a[0] != 'vec' or b2[0] != 'vec' or len(a[1]) != len(b2[1]):
                    raise Opaque('%s of %r, %r' % (op[0], a, b2))
                return self.vec([lane_norm((op[0], x, y)) for x, y in zip(a[1], b2[1])])
            if op[0] in ('srl64', 'shr8'):
                a = args[0]
                if len(args) > 1:
                    c = args[1]
                else:
                    ca = cal.get('const_args') or []
                    c = ('const', int(ca[0])) if ca and re.match(r'^-?\d+', ca[0]) else ('?',)
                    if c[0] == 'const':
                        c = ('const', int(re.match(r'^-?\d+', ca[0]).group(0)))
                if c[0] != 'const':
                    raise Opaque('shift by non-constant')
                return self.vec([lane_norm((op[0], x, c[1])) for x in a[1]])
        # pointer plumbing
        if re.search(r'(<impl \[T; N\]>|<impl \[T\]>)::split_at(_mut)?$', p):
            v = args[0]
            if isinstance(v, tuple) and v[0] == 'ref':
                v = v[1]
            if args[1][0] != 'const' or not (isinstance(v, tuple) and v[0] == 'blk'):
                raise Opaque('split_at of %r at %r' % (v, args[1]))
            return ('tuple', (('ref', ('part', v, 0)), ('ref', ('part', v, args[1][1]))))
        if re.search(r'(<impl \[T; N\]>|<impl \[T\]>)::as_(mut_)?ptr$', p):
            v = args[0]
            if isinstance(v, tuple) and v[0] == 'ref':
                v = v[1]
            if isinstance(v, tuple) and v[0] == 'part':
                return ('ptr', v[1], v[2])
            return ('ptr', v, 0)
        if re.search(r'^std::ptr::from_(ref|mut)$', p):
            v = args[0]
            if isinstance(v, tuple) and v[0] == 'ref':
                v = v[1]
            return ('ptr', v, 0)
        if re.search(r'<impl \*(mut|const) T>::cast(_mut|_const)?$', p):
            return args[0]
        if re.search(r'<impl \*(mut|const) T>::add$', p):
            T = (cal.get('args') or [None])[0]
            sz = self.sizeof(T)
            if args[1][0] != 'const' or sz is None or args[0][0] != 'ptr':
                raise Opaque('pointer add %r' % (args,))
            return ('ptr', args[0][1], args[0][2] + args[1][1] * sz)
        # iteration plumbing: one abstract element per loop
        if p.endswith('::iter_mut') or p.endswith('::iter'):
            return ('iter', self.fresh_blk(args[0]))
        targs = cal.get('decl_args') or cal.get('args') or []

        def as_iter(v, ty):
            # `for c in x` / `zip(x, y)` over a slice or array reference is `x.iter()` / `x.iter_mut()`
            if not (isinstance(v, tuple) and v[0] == 'iter') and isinstance(ty, str) and re.match(r"^&('\w+ )?(mut )?\[", ty):
                return ('iter', self.fresh_blk(v))
            return v
        if p.endswith('iter::zip'):
            a0 = as_iter(args[0], targs[0] if len(targs) > 0 else None)
            a1 = as_iter(args[1], targs[1] if len(targs) > 1 else None)
            return ('iter', ('tuple', (self.elem(a0), self.elem(a1))))
        if cal.get('decl') == 'std::iter::IntoIterator::into_iter':
            return as_iter(args[0], targs[0] if targs else None)
        if cal.get('decl') == 'std::iter::Iterator::next':
            it = args[0]
            if isinstance(it, tuple) and it[0] == 'ref':
                it = it[1]
            if isinstance(it, tuple) and it[0] == 'iter':
                return ('some', it[1])
            raise Opaque('next() on %r' % (it,))
        if p.endswith('convert::From<&engine::tables::Multiply128lutT>>::from') or (cal.get('local') and p in self.facts.fns):
            if cal.get('local') and p in self.facts.fns:
                return self.call_fn(p, args)
        if cal.get('decl') in ('std::ops::Index::index', 'std::ops::IndexMut::index_mut'):
            return ('ref', ('lut',)) if self.is_table(args[0]) else ('ref', ('index', args[0], args[1]))
        if cal.get('decl') == 'std::clone::Clone::clone' or cal.get('decl') == 'std::convert::From::from':
            v = args[0]
            return v[1] if isinstance(v, tuple) and v[0] == 'ref' else v
        return ('opaque', core.short(p))

    def is_table(self, v):
        while isinstance(v, tuple) and v[0] in ('ref', 'deref'):
            v = v[1]
        return isinstance(v, tuple) and v[0] == 'selffield'

    def elem(self, it):
        if isinstance(it, tuple) and it[0] == 'iter':
            return it[1]
        return ('opaque', 'iter')

    def fresh_blk(self, src):
        self.nblk += 1
        # name the element block after the parameter it iterates
        v = src
        while isinstance(v, tuple) and v[0] in ('ref', 'deref'):
            v = v[1]
        return ('ref', ('blk', v[1] if isinstance(v, tuple) and v[0] == 'slice' else self.nblk))

    def sizeof(self, ty):
        if ty is None:
            return None
        v = self.facts.layouts.get(ty)
        if v is not None:
            return v
        return {'u8': 1}.get(ty)


def summarise(facts, engine_adt, fnpath, arg_shape):
    """evaluate kernel fn with abstract arguments; returns sorted memory effects"""
    ev = Eval(facts, engine_adt)
    fn = facts.fns[fnpath]
    args = []
    for nm, ty in zip(fn.param_names(), fn.inputs):
        if nm == 'self':
            args.append(('ref', ('self',)))
        elif re.match(r'^&(mut )?\[\[u8; 64\]\]$', ty):
            args.append(('ref', ('slice', nm)))
        elif re.match(r'^&(mut )?\[u8; 64\]$', ty):
            args.append(('ref', ('blk', nm)))
        elif 'Multiply128lutT' in ty:
            args.append(('ref', ('lut',)))
        else:
            args.append(('scalar',))
    ret = ev.call_fn(fnpath, args)
    return ev.mem, ret


def rename_blocks(mem, names):
    """positional renaming of abstract blocks so that differently named parameters compare equal"""
    order = []

    def base_name(b):
        if isinstance(b, tuple) and b[0] == 'blk':
            return b
        return b
    for (base, slot) in sorted(mem, key=repr):
        if base not in order:
            order.append(base)
    return order
