"""C03 — all engines are bit-identical (structural part: schedules, bounded SIMD access, unsafe census)."""
import re, json
from . import core
from .core import callgraph, op_place

EXPLANATION = (
    "(a) sibling schedule agreement: for each optimised engine of the configuration (x86: NoSimd, Ssse3, Avx2; "
    "aarch64: NoSimd, Neon) the schedule functions (reached from <X as Engine>::fft / ::ifft after unwrapping "
    "forwarding wrappers, i.e. the functions that take the ShardsRefMut: fft_private, ifft_private and the "
    "two-layer butterflies) are put into a typed-HIR normal form — locals numbered by first use, the engine's own "
    "helper methods numbered by first appearance, types and spans dropped — and must be identical across the "
    "siblings: same loop nest, same skew-table index expressions, same `== GF_MODULUS` branches and what each arm "
    "calls, same argument expressions. (b) bounded SIMD memory access: the pointer operand of every vector "
    "load/store intrinsic is traced in MIR to <[u8;64]>::as_mut_ptr()/as_ptr() or ptr::from_ref(&table entry) "
    "through casts and constant .add(k); offset + access size must not exceed the size of the base object "
    "(layout_of); a non-constant offset or unknown base is a violation — a kernel handed one 64-byte block cannot "
    "touch its neighbour. (c) unsafe census: every unsafe operation is a call of a #[target_feature] fn of the same "
    "engine, a core::arch intrinsic, or pointer add/cast feeding one; no transmute, raw deref, static mut, union, "
    "asm, unsafe impl. Everything else is safe Rust, so a kernel given (&mut x, &mut y) can only write x and y. "
    "(d) every Engine::eval_poly reaches utils::eval_poly(erasures, truncated_size) unchanged. "
    "(e) kernel siblings: one forward value-numbering pass over the MIR of mul_*, fft_butterfly_partial and "
    "ifft_butterfly_partial of each SIMD engine (crate helpers inlined, 256-bit values as two 16-byte lanes, "
    "intrinsics mapped through an explicit table: load/store/xor/and/shuffle/splat/shift/broadcast) yields the "
    "final content of every written 16-byte slot as an expression DAG over ld(block,slot), tbl(lo|hi,i), xor, "
    "shuf, niblo, nibhi; Avx2 (same build) and Neon (aarch64 build) must produce exactly the DAG of Ssse3.")
DECIDES = "structural identity of the butterfly schedules across optimised engines and lane-wise identity of the SIMD kernels Ssse3 = Avx2 = Neon (Neon included, as a type-checked aarch64 build), byte-bounded SIMD accesses, confinement of unsafe code, one shared eval_poly."
NOT_DECIDED = "that the SIMD nibble-shuffle kernels compute the same product as the scalar Mul16 kernel of NoSimd (relation between the Mul128 and Mul16 table contents); that Naive's one-layer schedule equals the two-layer one; that indexes passed to dist4_mut stay inside [pos, pos+size) (all arithmetic)."
TRUSTED = ["intrinsic translation table in engine/rules/kernels.py (pshufb and tbl agree for indexes 0..15; vshrq_n_u8(x,4) == (x >> 4) & 0x0f per byte)", "rustc layout_of for __m128i/__m256i/uint8x16_t/[u8;64]/u128", "borrow checker: safe code writes only through the &mut it was given"]
ASSUMPTIONS = ["a one-sided refactoring of a schedule function is reported even if behaviour-preserving: siblings are meant to be edited together"]

IGNORE_KEYS = {'ty', 'line', 'exp', 'recv_ty', 'base_ty', 'in_unsafe', 'id', 'self_ty', 'local', 'def_kind', 'callee_features',
               'unsafe_callee', 'scrut_ty', 'unsafe', 'mode', 'to', 'from', 'trait', 'of', 'fnptr'}


def kernel_siblings(ctx, facts_by_cfg):
    """C03.e: lane-wise value numbering of the SIMD kernels; SSSE3 is the reference."""
    from . import kernels
    R = 'C03.e-kernel-siblings'
    engines = [('ssse3', 'x86_64', 'engine::engine_ssse3::Ssse3'), ('avx2', 'x86_64', 'engine::engine_avx2::Avx2'),
               ('neon', 'aarch64', 'engine::engine_neon::Neon')]
    if 'i686' in facts_by_cfg:
        engines += [('ssse3@i686', 'i686', 'engine::engine_ssse3::Ssse3'), ('avx2@i686', 'i686', 'engine::engine_avx2::Avx2')]
    kerns = [('fft-butterfly', 8), ('ifft-butterfly', 8), ('mul', 4)]
    for kern, nslots in kerns:
        dags = {}
        for eng, cfg, adt in engines:
            facts = facts_by_cfg.get(cfg)
            if facts is None:
                continue
            fnp = find_kernel(facts, adt, kern)
            name = kern
            if fnp is None:
                ctx.violation(R, 'anchor-missing:%s:%s' % (eng, kern), 'unrecognised idiom: cannot find the %s kernel of %s behind <%s as Engine>' % (kern, adt, adt), fn=adt, cfg=cfg)
                continue
            try:
                mem, _ = kernels.summarise(facts, adt, fnp, None)
                dags[eng] = (mem, fnp, cfg)
            except kernels.Opaque as e:
                ctx.violation(R, 'opaque:%s:%s' % (eng, name), 'kernel %s is not straight-line lane-wise code this rule can number (%s): sibling identity NOT established' % (fnp, e),
                              site=facts.fns[fnp].span, fn=fnp, cfg=cfg)
        if 'ssse3' not in dags:
            continue
        ref = dags['ssse3'][0]
        if len(ref) != nslots:
            ctx.violation(R, 'slots:%s' % kern, 'reference kernel %s writes %d 16-byte slots, expected %d' % (dags['ssse3'][1], len(ref), nslots), fn=dags['ssse3'][1], cfg='x86_64')
        for eng, (mem, fnp, cfg) in sorted(dags.items()):
            if eng == 'ssse3':
                ctx.ok(R, 'ssse3:%s' % kern, {'slots_written': len(mem), 'sample': repr(sorted(mem.items(), key=repr)[:1])[:400]})
                continue
            if mem == ref:
                ctx.ok(R, '%s~ssse3:%s' % (eng, kern), {'slots_compared': len(mem)})
            else:
                diff = [k for k in sorted(set(mem) | set(ref), key=repr) if mem.get(k) != ref.get(k)]
                k0 = diff[0]
                ctx.violation(R, '%s:%s' % (eng, kern),
                              'kernel %s computes a different lane expression than its SSSE3 sibling for bytes %d..%d of block %s: %s has %s, ssse3 has %s'
                              % (fnp, k0[1] * 16, k0[1] * 16 + 16, k0[0], eng, brief(repr(mem.get(k0))), brief(repr(ref.get(k0)))),
                              site=facts_by_cfg[cfg].fns[fnp].span, fn=fnp, cfg=cfg)


def private_trait(facts, tr):
    """a crate trait none of whose methods (provided or implemented) can be named from outside the crate"""
    ms = [f for f in facts.fns.values() if (f.impl_trait == tr or f.in_trait == tr) and not f.x.get('mono_of')]
    return tr in facts.traits and bool(ms) and not any(f.reachable for f in ms)


def find_kernel(facts, adt, kind):
    """private kernel functions found by structure from the public Engine gates:
    mul            = end of the forwarding chain behind <T as Engine>::mul
    fft-butterfly  = the method of T with signature (&self, &mut [[u8;64]], &mut [[u8;64]], u16) reachable from the
                     fft schedule (ifft-butterfly: from the ifft schedule), i.e. the per-pair butterfly kernel"""
    ms = engine_adts(facts).get(adt, {})
    if kind == 'mul':
        f = ms.get('mul')
        hops = 0
        while f is not None and hops < 5:
            nxt = is_forwarding(f)
            if nxt is None or facts.fns[nxt].impl_self_adt != adt:
                break
            f = facts.fns[nxt]
            hops += 1
        return f.path if f is not None else None
    gate = ms.get('fft' if kind == 'fft-butterfly' else 'ifft')
    if gate is None:
        return None
    cg = callgraph(facts)
    seen, _ = cg.reachable([gate.path], stop=lambda p: facts.fns.get(p) is not None and facts.fns[p].impl_self_adt != adt)
    # an inherent method, or the engine's implementation of a crate-private trait the shared schedule is written against
    c = [p for p in seen if facts.fns[p].impl_self_adt == adt and (not facts.fns[p].impl_trait or private_trait(facts, facts.fns[p].impl_trait))
         and not facts.fns[p].x.get('mono_of') and len(facts.fns[p].inputs) == 4 and facts.fns[p].inputs[1:] == ['&mut [[u8; 64]]', '&mut [[u8; 64]]', 'u16']]
    return sorted(c)[0] if len(c) == 1 else None


def run(ctx):
    cfgs = ['x86_64', 'aarch64'] if ctx.tier == 'quick' else ['x86_64', 'aarch64', 'i686']
    ctx.rule('C03.a-schedule-siblings', 'the schedule functions of all optimised engines have the same normal form')
    ctx.rule('C03.b-bounded-simd-access', 'every vector load/store stays inside the object its pointer was derived from')
    ctx.rule('C03.c-unsafe-census', 'unsafe code consists only of target_feature calls, core::arch intrinsics and pointer add/cast feeding them')
    ctx.rule('C03.d-one-eval-poly', 'every Engine::eval_poly reaches utils::eval_poly with its own arguments in order')
    ctx.rule('C03.e-kernel-siblings', 'the multiply and butterfly kernels of Ssse3, Avx2 and Neon compute the same lane-wise expression DAG (value numbering over MIR, intrinsics mapped by table)')
    ctx.rule('C03.g-truncated-input-zeroed', 'every truncated transform is given a buffer whose tail beyond truncated_size is zeroed: Naive and the optimised engines skip different dead butterflies, so they agree only under that precondition (clause shared with C05.c)')
    from . import c05
    ctx.guard('C03.analysable', ctx.shared, {'C05.c-truncated-ifft-zeroed': 'C03.g-truncated-input-zeroed'}, c05.ifft_rule, ctx, ctx.facts('x86_64'), 'x86_64')
    ctx.rule('C03.h-split-borrow-consistency', 'where a function splits a buffer in two to borrow two ranges at once and does so differently in the two arms of an ordering test, both arms touch the same absolute positions (an index into the upper half counts from the split point)')
    ctx.guard('C03.analysable', split_borrow_consistency, ctx, ctx.facts('x86_64'), 'x86_64')
    ctx.rule('C03.i-byte-order-fixed', 'the crate splits and joins 16-bit field elements by arithmetic or by the little-endian conversions only: no native- or big-endian byte conversion (to/from_ne_bytes, to/from_be_bytes, to_be, from_be, swap_bytes) and no integer <-> byte-array transmute is reachable in non-test code, so the portable engines give the same bytes as the SIMD ones on every target')
    for cfg in cfgs:
        ctx.guard('C03.analysable', byte_order, ctx, ctx.facts(cfg), cfg)
    ctx.guard('C03.analysable', kernel_siblings, ctx, {c: ctx.facts(c) for c in cfgs})
    for cfg in cfgs:
        facts = ctx.facts(cfg)
        ctx.guard('C03.analysable', schedules, ctx, facts, cfg)
        ctx.guard('C03.analysable', bounded_access, ctx, facts, cfg)
        ctx.guard('C03.analysable', unsafe_census, ctx, facts, cfg)
        ctx.guard('C03.analysable', eval_poly, ctx, facts, cfg)


# ------------------------------------------------------------------ (i)

BYTE_ORDER_RE = re.compile(r'::(to_ne_bytes|from_ne_bytes|to_be_bytes|from_be_bytes|to_be|from_be|swap_bytes)$')


def byte_order(ctx, facts, cfg):
    R = 'C03.i-byte-order-fixed'
    n = 0
    for p, fn in sorted(facts.fns.items()):
        for b, t in fn.body.calls():
            q = t['callee'].get('path') or t['callee'].get('decl') or ''
            n += 1
            if t.get('exp_fmt'):
                continue
            m = BYTE_ORDER_RE.search(q)
            if m and re.search(r'core::num::|std::num::|<impl (u|i)(8|16|32|64|128|size)>|^(u|i)(16|32|64|128|size)::', q):
                ctx.violation(R, 'native-order:%s' % m.group(1), '%s calls %s: the bytes it produces or consumes depend on the byte order of the target, '
                              'the SIMD engines and the stored layout (low bytes in the first half of a 64-byte block) do not' % (p, core.short(q)),
                              site=t['line'], fn=p, cfg=cfg)
        # integer <-> byte array transmutes
        for bi in range(fn.body.n):
            for st in fn.body.blocks[bi]['stmts']:
                rv = st.get('rv') if st['k'] == 'assign' else None
                if rv and rv.get('k') == 'cast' and 'ransmute' in str(rv.get('cast') or rv.get('kind') or '') and not st.get('exp'):
                    src_ty = fn.body.local_ty(core.op_place(rv['op'])['l']) if core.op_place(rv.get('op', {})) and not core.op_place(rv['op'])['p'] else ''
                    dst_ty = rv.get('ty') or rv.get('to') or ''
                    tys = (str(src_ty), str(dst_ty))
                    if any(re.match(r'^(u|i)(16|32|64|128|size)$', x) for x in tys) and any(re.match(r'^\[u8; \d+\]$', x) for x in tys):
                        ctx.violation(R, 'transmute', '%s transmutes between %s and %s: the result depends on the byte order of the target' % (p, tys[0], tys[1]),
                                      site=st.get('line'), fn=p, cfg=cfg)
    ctx.ok(R, 'calls-scanned@%s' % cfg, {'call_sites': n})
    ctx.floor(R, 300, n, 'call sites scanned for byte-order conversions', cfg=cfg)


# ------------------------------------------------------------------ (a)

def crate_calls(fn):
    return [(b, t) for b, t in fn.body.calls() if t['callee'].get('local') and t['callee'].get('path') in fn.facts.fns]


def is_forwarding(fn):
    """exactly one crate call whose arguments are the own parameters in order -> callee path"""
    cc = crate_calls(fn)
    if len(cc) != 1:
        return None
    t = cc[0][1]
    params = fn.param_names()
    args = [fn.body.canon_op(a) for a in t['args']]
    if args == [('param', n) for n in params]:
        return t['callee']['path']
    return None


def takes_shards(fn):
    return any('ShardsRefMut' in t for t in fn.inputs)


class NF:
    def __init__(self, facts, engine_adt):
        self.facts = facts
        self.adt = engine_adt
        self.methods = {}     # fn path -> number
        self.order = []

    def method_no(self, path):
        if path not in self.methods:
            self.methods[path] = len(self.methods)
            self.order.append(path)
        return self.methods[path]

    def own(self, path):
        f = self.facts.fns.get(path)
        return f is not None and f.impl_self_adt == self.adt

    def nf_fn(self, fn):
        self.locals = {}
        return self.node(fn.hir)

    def loc(self, ident):
        if ident not in self.locals:
            self.locals[ident] = len(self.locals)
        return ('L', self.locals[ident])

    def node(self, n):
        if isinstance(n, list):
            return tuple(self.node(x) for x in n)
        if not isinstance(n, dict):
            return n
        k = n.get('k')
        if k == 'path':
            if n.get('res') == 'local':
                return self.loc(n['id'])
            p = n.get('path')
            if p and self.own(p):
                return ('M', self.method_no(p))
            return ('D', p)
        if k == 'bind':
            r = ('bind', self.loc(n['id']))
            if 'sub' in n:
                r = r + (self.node(n['sub']),)
            return r
        if k == 'mcall':
            p = n.get('path')
            callee = ('M', self.method_no(p)) if (p and self.own(p)) else ('D', p or n.get('name'))
            return ('mcall', callee, self.node(n['recv']), self.node(n['args']))
        if k == 'addrof':
            return ('addrof', n.get('mut'), self.node(n['x']))
        if k == 'bin' and not n.get('overloaded'):
            return self.arith(n['op'], self.node(n['l']), self.node(n['r']))
        if k == 'lit' and 'int' in n:
            return ('int', n['int'])
        out = [k]
        for key in sorted(n):
            if key in IGNORE_KEYS or key == 'k':
                continue
            v = n[key]
            if isinstance(v, (dict, list)):
                out.append((key, self.node(v)))
            else:
                if key == 'name' and k in ('path',):
                    continue
                out.append((key, v))
        return tuple(out)


def _arith(self, op, a, b):
    """light algebraic normalisation so that behaviour-preserving rewrites of index arithmetic
    (x * 1, x + 0, constant folding, operand order of + and *) do not count as differences"""
    ia = a[1] if isinstance(a, tuple) and a and a[0] == 'int' else None
    ib = b[1] if isinstance(b, tuple) and b and b[0] == 'int' else None
    if ia is not None and ib is not None and op in ('+', '*', '-', '<<', '>>'):
        try:
            return ('int', {'+': ia + ib, '*': ia * ib, '-': ia - ib, '<<': ia << ib, '>>': ia >> ib}[op])
        except Exception:
            pass
    if op == '*' and ib == 1:
        return a
    if op == '*' and ia == 1:
        return b
    if op in ('+', '-', '<<', '>>') and ib == 0:
        return a
    if op == '+' and ia == 0:
        return b
    if op == '<<' and ib is not None:
        return _arith(self, '*', a, ('int', 1 << ib))
    if op in ('+', '*', '==', '!=', '&', '|', '^') and repr(b) < repr(a):
        a, b = b, a
    if op in ('>', '>='):
        return ('bin', {'>': '<', '>=': '<='}[op], b, a)
    return ('bin', op, a, b)


NF.arith = _arith


def first_diff(a, b, path=''):
    if type(a) != type(b):
        return path, a, b
    if isinstance(a, tuple):
        if len(a) != len(b):
            # find first differing element
            for i, (x, y) in enumerate(zip(a, b)):
                d = first_diff(x, y, path + '/%d' % i)
                if d:
                    return d
            return path + '/len', len(a), len(b)
        for i, (x, y) in enumerate(zip(a, b)):
            d = first_diff(x, y, path + '/%d' % i)
            if d:
                return d
        return None
    if a != b:
        return path, a, b
    return None


# ---- inlined normal form: own schedule-level helpers expanded in place, blocks flattened -------------------
# Used only as a second opinion: when the per-function comparison of two siblings differs (for instance because
# one engine's schedule was split into helpers and the other's was not), the siblings still agree if their fully
# inlined forms are equal.

def _has(node, kinds):
    if isinstance(node, list):
        return any(_has(x, kinds) for x in node)
    if not isinstance(node, dict):
        return False
    if node.get('k') in kinds:
        return True
    return any(_has(v, kinds) for v in node.values() if isinstance(v, (dict, list)))


def _pure_arg(n):
    """argument expressions that may be substituted for an immutable parameter: built from locals, literals,
    field reads, arithmetic, casts and (re)borrows only"""
    if not isinstance(n, dict):
        return True
    k = n.get('k')
    if k in ('path', 'lit'):
        return True
    if k == 'bin' and not n.get('overloaded'):
        return _pure_arg(n['l']) and _pure_arg(n['r'])
    if k in ('un', 'cast', 'addrof', 'field'):
        return all(_pure_arg(v) for v in n.values() if isinstance(v, dict))
    return False


def _shared_field_read(n):
    n = core.strip_refs(n)
    while n.get('k') == 'field':
        n = core.strip_refs(n['x'])
    return n.get('k') == 'path' and n.get('res') == 'local' and not (n.get('ty') or '').startswith('&mut')


class Expander:
    def __init__(self, facts, adt):
        self.facts = facts
        self.adt = adt
        self.count = 0
        self.inlined = []

    def getter(self, path, args):
        """`fn skew(&self) -> &Skew { self.skew }` of the engine (inherent or of a crate-private trait): the field it reads"""
        g = self.facts.fns.get(path) if path else None
        if g is None or g.impl_self_adt != self.adt or not g.hir or len(args) != 1 or (g.impl_trait and not private_trait(self.facts, g.impl_trait)):
            return None
        se = core.simple_expr_fn(g)
        if se is None or len(se[0]) != 1:
            return None
        v = core.strip_refs(se[1])
        if v.get('k') == 'field' and core.strip_refs(v.get('x', {})).get('k') == 'path' and core.strip_refs(v['x']).get('id') == se[0][0]:
            return v
        return None

    def inlinable(self, path, args):
        g = self.facts.fns.get(path) if path else None
        if g is None or g.impl_self_adt != self.adt or (g.impl_trait and not g.x.get('mono_of')) or not g.hir or not takes_shards(g):
            return None
        params = g.hir.get('params', [])
        if len(params) != len(args):
            return None
        for pt, a in zip(params, args):
            if pt.get('k') != 'bind' or not pt.get('mode', '').endswith('Not)') or not _pure_arg(a):
                return None
        if _has(g.hir['value'], ('ret', 'closure')):
            return None
        return g

    def expr(self, n, depth):
        """rewrite a subtree: own schedule helpers replaced by their (recursively expanded) bodies"""
        if isinstance(n, list):
            return [self.expr(x, depth) for x in n]
        if not isinstance(n, dict):
            return n
        callp = cargs = None
        if n.get('k') == 'mcall':
            callp, cargs = n.get('path'), [n['recv']] + list(n['args'])
        elif n.get('k') == 'call' and isinstance(n.get('f'), dict) and n['f'].get('k') == 'path' and n['f'].get('res') != 'local':
            callp, cargs = n['f'].get('path'), list(n['args'])      # a free (generic) function instantiated for this engine
        if callp and depth < 6:
            args = cargs
            fld = self.getter(callp, args)
            if fld is not None:
                out = dict(fld)
                out['x'] = self.expr(args[0], depth)
                return out
            g = self.inlinable(callp, args)
            if g is not None:
                from .c05 import subst_hir
                self.count += 1
                self.inlined.append(g.path)
                args = [self.expr(a, depth) for a in args]
                mapping = {pt['id']: a for pt, a in zip(g.hir['params'], args)}
                body = subst_hir(g.hir['value'], mapping, 1000000 * self.count)
                return self.expr(body, depth + 1)
        out = {}
        for k, v in n.items():
            out[k] = self.expr(v, depth) if isinstance(v, (dict, list)) else v
        if out.get('k') == 'block':
            out = self.flatten(out)
        return out

    def flatten(self, b):
        """`{ ..; { s1; s2; t }; .. }` -> `{ ..; s1; s2; t; .. }` and `let x = { s1; t };` -> `s1; let x = t;` (locals are
        identified by id, so hoisting cannot capture), then immutable aliases `let a = b` of a local are renamed away"""
        stmts = []

        def push_block(x):
            for s in x.get('stmts', []):
                stmts.append(s)
            return x.get('tail')
        for s in b.get('stmts', []):
            if s['k'] == 'let' and isinstance(s.get('init'), dict) and s['init'].get('k') == 'block' and 'else' not in s and not s['init'].get('unsafe'):
                t = push_block(s['init'])
                s = dict(s)
                if t is None:
                    t = {'k': 'tup', 'xs': []}
                s['init'] = t
                stmts.append(s)
            elif s['k'] == 'expr' and isinstance(s.get('e'), dict) and s['e'].get('k') == 'block' and not s['e'].get('unsafe'):
                t = push_block(s['e'])
                if t is not None:
                    stmts.append({'k': 'expr', 'e': t})
            else:
                stmts.append(s)
        tail = b.get('tail')
        if isinstance(tail, dict) and tail.get('k') == 'block' and not tail.get('unsafe'):
            tail = push_block(tail)
        out = dict(b)
        out['stmts'] = stmts
        out['tail'] = tail
        # alias elimination
        ren = {}
        keep = []
        for s in stmts:
            if s['k'] == 'let' and 'else' not in s and s.get('pat', {}).get('k') == 'bind' and s['pat'].get('mode', '').endswith('Not)') \
                    and isinstance(s.get('init'), dict) and s['init'].get('k') == 'path' and s['init'].get('res') == 'local' \
                    and s['init']['id'] >= 1000000 and s['pat'].get('ty') in ('usize', 'u16', 'u32', 'u64', 'bool', 'u8'):
                ren[s['pat']['id']] = s['init']
                continue
            if s['k'] == 'let' and 'else' not in s and s.get('pat', {}).get('k') == 'bind' and s['pat'].get('mode', '').endswith('Not)') \
                    and isinstance(s.get('init'), dict) and (s['pat'].get('ty') or '').startswith('&') and not (s['pat'].get('ty') or '').startswith('&mut') \
                    and _shared_field_read(s['init']):
                ren[s['pat']['id']] = s['init']     # `let skew = engine.skew;`: a shared reference read through a shared borrow cannot change
                continue
            keep.append(s)
        if ren:
            out['stmts'] = keep
            out = _rename(out, ren)
        # a tail expression in statement position and a trailing expression statement are the same thing for ()-valued code
        return out

    def expand_fn(self, fn):
        return self.expr(fn.hir['value'], 0)


def _rename(n, ren):
    if isinstance(n, list):
        return [_rename(x, ren) for x in n]
    if not isinstance(n, dict):
        return n
    if n.get('k') == 'path' and n.get('res') == 'local' and n.get('id') in ren:
        return _rename(ren[n['id']], ren)
    return {k: (_rename(v, ren) if isinstance(v, (dict, list)) else v) for k, v in n.items()}


def _unit_tail(n):
    """normalise `{ s; t }` where t is a ()-typed expression to `{ s; t; }` so that statement/tail position of the last
    loop or call does not matter"""
    if isinstance(n, list):
        return [_unit_tail(x) for x in n]
    if not isinstance(n, dict):
        return n
    out = {k: (_unit_tail(v) if isinstance(v, (dict, list)) else v) for k, v in n.items()}
    if out.get('k') == 'block' and isinstance(out.get('tail'), dict) and out['tail'].get('ty') == '()':
        out['stmts'] = list(out.get('stmts', [])) + [{'k': 'expr', 'e': out['tail']}]
        out['tail'] = None
    return out


def _assigns_local(n, lid):
    if isinstance(n, list):
        return any(_assigns_local(x, lid) for x in n)
    if not isinstance(n, dict):
        return False
    if n.get('k') in ('assign', 'assignop'):
        l = n.get('l')
        if isinstance(l, dict) and l.get('k') == 'path' and l.get('res') == 'local' and l.get('id') == lid:
            return True
    if n.get('k') == 'addrof' and n.get('mut') and isinstance(n.get('x'), dict) and n['x'].get('k') == 'path' and n['x'].get('id') == lid:
        return True
    return any(_assigns_local(v, lid) for v in n.values() if isinstance(v, (dict, list)))


def _jumps(n):
    """break / continue that would leave or restart THIS loop body (those inside nested loops belong to them)"""
    if isinstance(n, list):
        return any(_jumps(x) for x in n)
    if not isinstance(n, dict):
        return False
    if n.get('k') in ('break', 'continue', 'ret'):
        return True
    if n.get('k') in ('loop', 'steploop') or (n.get('k') == 'match' and n.get('source') == 'ForLoopDesugar'):
        return False
    return any(_jumps(v) for v in n.values() if isinstance(v, (dict, list)))


def _lit(i):
    return {'k': 'lit', 'int': i, 'ty': 'usize'}


def loopnorm(n):
    """counted loops in one shape: `let mut r = A; while r < B { BODY; r += S; }`, `for r in (A..B).step_by(S) { BODY }` and
    `for r in A..B { BODY }` all become steploop(var, A, B, S, BODY) (BODY must not assign r, `continue` or `break`)"""
    from .core import for_loop_parts, is_range_struct, strip_refs
    if isinstance(n, list):
        return [loopnorm(x) for x in n]
    if not isinstance(n, dict):
        return n
    fl = for_loop_parts(n)
    if fl:
        pat, it, body = fl
        it0 = strip_refs(it)
        step = _lit(1)
        rg = is_range_struct(it0)
        if rg is None and it0.get('k') == 'mcall' and it0.get('name') == 'step_by' and len(it0.get('args', [])) == 1:
            rg = is_range_struct(it0['recv'])
            step = it0['args'][0]
        if rg is not None and rg[0] is not None and rg[1] is not None and not rg[2] and pat.get('k') == 'bind' and not _jumps(body):
            return {'k': 'steploop', 'ty': '()', 'var': {'k': 'bind', 'id': pat['id']}, 'a': loopnorm(rg[0]), 'b': loopnorm(rg[1]), 's': loopnorm(step), 'body': loopnorm(body)}
    out = {k: (loopnorm(v) if isinstance(v, (dict, list)) else v) for k, v in n.items()}
    if out.get('k') == 'block':
        st = list(out.get('stmts', []))
        if isinstance(out.get('tail'), dict) and out['tail'].get('k') == 'loop' and out['tail'].get('source') == 'While':
            # a while loop in tail position is a statement like any other
            st.append({'k': 'expr', 'e': out['tail']})
            out['tail'] = None
        new = []
        i = 0
        while i < len(st):
            s0 = st[i]
            s1 = st[i + 1] if i + 1 < len(st) else None
            done = False
            if s0.get('k') == 'let' and s0.get('pat', {}).get('k') == 'bind' and 'init' in s0 and 'else' not in s0 and s1 is not None and s1.get('k') == 'expr':
                lp = s1['e']
                rid = s0['pat']['id']
                if isinstance(lp, dict) and lp.get('k') == 'loop' and lp.get('source') == 'While':
                    b = lp['body']
                    iff = b.get('tail') if not b.get('stmts') else None
                    if iff is None and len(b.get('stmts', [])) == 1 and b['stmts'][0].get('k') == 'expr':
                        iff = b['stmts'][0]['e']
                    if isinstance(iff, dict) and iff.get('k') == 'if':
                        c = iff['cond']
                        th = iff['then']
                        if c.get('k') == 'bin' and c.get('op') == '<' and c['l'].get('k') == 'path' and c['l'].get('id') == rid and th.get('k') == 'block':
                            bs = list(th.get('stmts', []))
                            if th.get('tail') is not None:
                                bs.append({'k': 'expr', 'e': th['tail']})
                            last = bs[-1]['e'] if bs and bs[-1].get('k') == 'expr' else None
                            if isinstance(last, dict) and last.get('k') == 'assignop' and last.get('op') == '+=' and last['l'].get('id') == rid:
                                body = {'k': 'block', 'stmts': bs[:-1], 'tail': None}
                                later = st[i + 2:] + ([out.get('tail')] if out.get('tail') is not None else [])
                                used_later = _has_local(later, rid)
                                if not _assigns_local(body, rid) and not _jumps(body) and not used_later and not _has_local(c['r'], rid):
                                    new.append({'k': 'expr', 'e': {'k': 'steploop', 'ty': '()', 'var': {'k': 'bind', 'id': rid}, 'a': s0['init'], 'b': c['r'], 's': last['r'], 'body': body}})
                                    i += 2
                                    done = True
            if not done:
                new.append(s0)
                i += 1
        out['stmts'] = new
    return out


def _has_local(n, lid):
    if isinstance(n, list):
        return any(_has_local(x, lid) for x in n)
    if not isinstance(n, dict):
        return False
    if n.get('k') == 'path' and n.get('res') == 'local' and n.get('id') == lid:
        return True
    return any(_has_local(v, lid) for v in n.values() if isinstance(v, (dict, list)))


def _drop_debug_asserts(n):
    """statements that come from a macro expansion and neither assign nor call a crate function (debug_assert!) say nothing
    about the schedule"""
    if isinstance(n, list):
        return [_drop_debug_asserts(x) for x in n]
    if not isinstance(n, dict):
        return n
    out = {k: (_drop_debug_asserts(v) if isinstance(v, (dict, list)) else v) for k, v in n.items()}
    if out.get('k') == 'block':
        keep = []
        for s_ in out.get('stmts', []):
            e = s_.get('e') if s_.get('k') == 'expr' else None
            if isinstance(e, dict) and e.get('k') == 'if' and isinstance(e.get('cond'), dict) and e['cond'].get('k') == 'lit' and 'bool' in json.dumps(e['cond'].get('ty', '')) \
                    and not _has(e, ('assign', 'assignop', 'mcall')):
                continue
            keep.append(s_)
        out['stmts'] = keep
    return out


def inlined_form(facts, adt, entries):
    nf = NF(facts, adt)
    ex = Expander(facts, adt)
    forms = []
    nf.locals = {}
    for name, f in entries:
        tree = _unit_tail(loopnorm(_drop_debug_asserts(ex.expand_fn(f))))
        nf.locals = {}
        forms.append((name, nf.node(tree)))
    return forms, ex.inlined


def engine_adts(facts):
    out = {}
    for f in facts.fns.values():
        if f.impl_trait == 'engine::Engine' and f.impl_self_adt:
            out.setdefault(f.impl_self_adt, {})[f.name] = f
    return out


def schedules(ctx, facts, cfg):
    R = 'C03.a-schedule-siblings'
    engs = engine_adts(facts)
    forms = {}
    entries_of = {}
    for adt, ms in sorted(engs.items()):
        if adt.endswith('::Naive') or adt.endswith('::DefaultEngine'):
            continue
        nf = NF(facts, adt)
        entries = []
        okk = True
        for name in ('fft', 'ifft'):
            f = ms.get(name)
            if f is None:
                ctx.violation(R, 'anchor-missing', 'anchor missing: <%s as Engine>::%s' % (adt, name), fn=adt, cfg=cfg)
                okk = False
                continue
            hops = 0
            while hops < 5:
                nxt = is_forwarding(f)
                if nxt is None or not facts.fns[nxt].impl_self_adt == adt:
                    break
                f = facts.fns[nxt]
                hops += 1
            if not takes_shards(f) or not f.hir:
                ctx.violation(R, 'no-schedule:%s' % name, 'cannot find the %s schedule function of %s behind its forwarding wrappers' % (name, adt), site=f.span, fn=f.path, cfg=cfg)
                okk = False
                continue
            entries.append((name, f))
        if not okk:
            continue
        # traverse: entries first (fft then ifft), then schedule-level callees in numbering order
        seq = []
        for name, f in entries:
            nf.method_no(f.path)
        i = 0
        fn_forms = []
        while i < len(nf.order):
            p = nf.order[i]
            f = facts.fns[p]
            if takes_shards(f):
                fn_forms.append((i, p, nf.nf_fn(f)))
            else:
                fn_forms.append((i, p, None))     # kernel level: legitimately differs, not compared
            i += 1
        forms[adt] = fn_forms
        entries_of[adt] = entries
    if len(forms) < 2:
        ctx.violation(R, 'too-few-engines', 'fewer than two optimised engines found in cfg %s' % cfg, cfg=cfg)
        return
    ref_adt = sorted(forms, key=lambda a: (not a.endswith('NoSimd'), a))[0]
    ref = forms[ref_adt]
    nsched = sum(1 for x in ref if x[2] is not None)
    ctx.floor(R, 4, nsched, 'schedule functions of %s (cfg %s)' % (ref_adt, cfg), cfg=cfg)
    ref_inl = None
    ref_deep = None
    for adt, ff in sorted(forms.items()):
        if adt == ref_adt:
            continue
        viol = []
        if [x[2] is None for x in ff] != [x[2] is None for x in ref]:
            viol.append(('shape:%s' % adt.split('::')[-1], 'helper structure of %s differs from %s: schedule/kernel roles by order of first use are %s vs %s'
                         % (adt, ref_adt, [(core.short(x[1]), 'sched' if x[2] is not None else 'kernel') for x in ff],
                            [(core.short(x[1]), 'sched' if x[2] is not None else 'kernel') for x in ref]), dict(fn=adt)))
        else:
            for (i, p, form), (_, rp, rform) in zip(ff, ref):
                if form is None:
                    continue
                d = first_diff(rform, form)
                name = p.split('::')[-1]
                if d is not None:
                    viol.append(('%s:%s' % (adt.split('::')[-1], name),
                                 'schedule function %s differs from its sibling %s at %s: %s has `%s`, %s has `%s`'
                                 % (p, rp, d[0], ref_adt.split('::')[-1], brief(d[1]), adt.split('::')[-1], brief(d[2])),
                                 dict(site=facts.fns[p].span, fn=p)))
        if viol:
            # second opinion: the fully inlined forms (helpers expanded in place) agree -> same schedule, differently factored
            if ref_inl is None:
                ref_inl = inlined_form(facts, ref_adt, entries_of[ref_adt])
            inl = inlined_form(facts, adt, entries_of[adt])
            if all(first_diff(a[1], b[1]) is None for a, b in zip(ref_inl[0], inl[0])) and len(ref_inl[0]) == len(inl[0]):
                ctx.ok(R, '%s~%s:inlined@%s' % (adt.split('::')[-1], ref_adt.split('::')[-1], cfg),
                       'per-function forms differ (%s) but the forms with the schedule helpers inlined (%d in %s, %d in %s) are identical'
                       % (viol[0][0], len(inl[1]), adt.split('::')[-1], len(ref_inl[1]), ref_adt.split('::')[-1]))
                continue
            # third opinion: deep normal forms (pure lets substituted, loops in count form, linear index arithmetic)
            try:
                from . import schednf
                if ref_deep is None:
                    ref_deep = schednf.deep_form(facts, ref_adt, entries_of[ref_adt])
                deep = schednf.deep_form(facts, adt, entries_of[adt])
                same = len(ref_deep[0]) == len(deep[0]) and all(first_diff(a[1], b[1]) is None for a, b in zip(ref_deep[0], deep[0]))
            except Exception as e:      # the third opinion can only add acceptances
                same = False
                ctx.note('deep schedule form of %s not available: %s: %s' % (adt, type(e).__name__, e))
            if same:
                ctx.ok(R, '%s~%s:deep@%s' % (adt.split('::')[-1], ref_adt.split('::')[-1], cfg),
                       'written differently (%s) but equal after expanding helpers, substituting pure lets, putting loops in count form and normalising index arithmetic linearly'
                       % viol[0][0])
                continue
            for key, msg, kw in viol:
                ctx.violation(R, key, msg, cfg=cfg, **kw)
            continue
        for (i, p, form), (_, rp, rform) in zip(ff, ref):
            if form is not None:
                ctx.ok(R, '%s~%s:%s@%s' % (adt.split('::')[-1], ref_adt.split('::')[-1], p.split('::')[-1], cfg), None)


def brief(x):
    s = json.dumps(x) if not isinstance(x, str) else x
    return s[:140]


# ------------------------------------------------------------------ (b)

LOADSTORE = re.compile(r'::(_mm256_loadu_si256|_mm256_storeu_si256|_mm_loadu_si128|_mm_storeu_si128|_mm256_load_si256|_mm256_store_si256|_mm_load_si128|_mm_store_si128|vld1q_u8|vst1q_u8|vld1q_u8_x[234]|vst1q_u8_x[234]|_mm256_lddqu_si256|_mm_lddqu_si128|vld1q_u16|vst1q_u16|_mm256_maskstore_epi\w+|_mm256_stream_si256)$')


def sizeof(facts, ty):
    ty = ty.strip()
    v = facts.layouts.get(ty)
    if v is not None:
        return v
    m = re.match(r'\[(.*); (\d+)\]$', ty)
    if m:
        s = sizeof(facts, m.group(1))
        return None if s is None else s * int(m.group(2))
    return {'u8': 1, 'i8': 1, 'u16': 2, 'u32': 4, 'u64': 8, 'u128': 16}.get(ty)


def pointee(ty):
    m = re.match(r'\*(const|mut) (.*)$', ty)
    return m.group(2) if m else None


def trace_ptr(facts, body, c, depth=0):
    """returns (base_size, byte_offset, descr) or (None, reason)"""
    if depth > 12:
        return (None, 'too deep')
    if c[0] == 'cast':
        return trace_ptr(facts, body, c[2], depth + 1)
    if c[0] == 'call':
        key = c[1]
        t = body.term(c[3]) if len(c) > 3 else None
        name = key.split('::')[-1].split('<')[0]
        if re.search(r'<impl \*(mut|const) T>::(add|offset|wrapping_add|byte_add)$', t['callee'].get('path') or '') if t else False:
            base = trace_ptr(facts, body, c[2][0], depth + 1)
            if base[0] is None:
                return base
            k = fold(c[2][1])
            if k[0] != 'const':
                return (None, 'non-constant pointer offset %s' % core.show(k))
            T = (t['callee'].get('args') or [None])[0]
            sz = 1 if (t['callee']['path'].endswith('byte_add')) else sizeof(facts, T or '')
            if sz is None:
                return (None, 'unknown pointee size of %s' % T)
            return (base[0], base[1] + k[1] * sz, base[2] + '.add(%d x %dB)' % (k[1], sz))
        if t and re.search(r'<impl \*(mut|const) T>::cast(_mut|_const)?$', t['callee'].get('path') or ''):
            return trace_ptr(facts, body, c[2][0], depth + 1)
        if t and re.search(r'(<impl \[T; N\]>|<impl \[T\]>)::as_(mut_)?ptr$', t['callee'].get('path') or ''):
            recv = c[2][0]
            # receiver is one half of `x.split_at(K)` / `split_at_mut(K)` of a sized array: K resp. N - K elements
            r0 = recv
            while isinstance(r0, tuple) and r0 and r0[0] in ('ref', 'deref', 'cast'):
                r0 = r0[2] if r0[0] == 'cast' else r0[1]
            if isinstance(r0, tuple) and r0 and r0[0] == 'field' and isinstance(r0[1], tuple) and r0[1] and r0[1][0] == 'call' \
                    and re.search(r'<impl \[[^\]]*\]>::split_at(_mut)?$', r0[1][1]) and r0[2] in ('0', '1') and len(r0[1]) > 3:
                st_ = body.term(r0[1][3])
                k = fold(r0[1][2][1])
                spl = op_place(st_['args'][0])
                sty = body.local_ty(spl['l']) if spl else ''
                if spl and re.match(r'^&(mut )?\[[^;\]]*\]$', sty):
                    for d in body.defs().get(spl['l'], []):
                        if d[0] == 'stmt':
                            st2 = body.blocks[d[1]]['stmts'][d[2]]
                            if st2['k'] == 'assign' and st2['rv']['k'] == 'cast' and 'Unsize' in st2['rv'].get('cast', ''):
                                sp2 = op_place(st2['rv']['op'])
                                if sp2 is not None:
                                    sty = body.local_ty(sp2['l'])
                sty = re.sub(r'^&(mut )?', '', sty)
                m2 = re.match(r'^\[(.*); (\d+)\]$', sty)
                if m2 and k[0] == 'const':
                    es = sizeof(facts, m2.group(1))
                    n_el = int(m2.group(2))
                    if es is not None and 0 <= k[1] <= n_el:
                        part = k[1] if r0[2] == '0' else n_el - k[1]
                        return (part * es, 0, '%s.split_at(%d).%s.as_ptr()' % (sty, k[1], r0[2]))
                return (None, 'as_ptr() on a half of split_at with unknown bounds (%s, %s)' % (sty, core.show(k)))
            # receiver type: the argument local type
            pl = op_place(t['args'][0])
            ty = body.local_ty(pl['l']) if pl else ''
            # receiver may be an unsizing coercion of &mut [u8; 64] to &mut [u8]: use the source type
            if pl and re.match(r'^&(mut )?\[[^;\]]*\]$', ty):
                for d in body.defs().get(pl['l'], []):
                    if d[0] == 'stmt':
                        st = body.blocks[d[1]]['stmts'][d[2]]
                        if st['k'] == 'assign' and st['rv']['k'] == 'cast' and 'Unsize' in st['rv'].get('cast', ''):
                            sp = op_place(st['rv']['op'])
                            if sp is not None:
                                ty = body.local_ty(sp['l'])
            ty = re.sub(r'^&(mut )?', '', ty)
            sz = sizeof(facts, ty) if not re.match(r'^\[[^;\]]*\]$', ty) else None
            if sz is None:
                return (None, 'as_ptr() on a value of unknown size (%s)' % ty)
            return (sz, 0, '%s.as_ptr()' % ty)
        if t and re.search(r'^std::ptr::from_(ref|mut)$', t['callee'].get('path') or ''):
            T = (t['callee'].get('args') or [None])[0]
            sz = sizeof(facts, T or '')
            if sz is None:
                return (None, 'from_ref of unknown size %s' % T)
            return (sz, 0, 'ptr::from_ref::<%s>' % T)
        return (None, 'pointer produced by %s' % core.short(key))
    if c[0] in ('var', 'param', 'tmp'):
        return (None, 'pointer held in a variable with several definitions (%s)' % core.show(c))
    return (None, 'unrecognised pointer expression %s' % core.show(c)[:80])


def fold(c):
    if isinstance(c, tuple) and c and c[0] == 'checked':
        return fold(c[1])
    if isinstance(c, tuple) and c and c[0] == 'bin':
        a, b = fold(c[2]), fold(c[3])
        if a[0] == 'const' and b[0] == 'const':
            try:
                v = {'Add': a[1] + b[1], 'Mul': a[1] * b[1], 'Sub': a[1] - b[1], 'Shl': a[1] << b[1]}.get(c[1])
            except Exception:
                v = None
            if v is not None:
                return ('const', v)
    return c


ALIGNED = {'_mm_load_si128': 16, '_mm_store_si128': 16, '_mm256_load_si256': 32, '_mm256_store_si256': 32, '_mm256_stream_si256': 32, '_mm_stream_si128': 16}
ALIGN_OF = {'u8': 1, 'i8': 1, 'u16': 2, 'i16': 2, 'u32': 4, 'i32': 4, 'u64': 8, 'i64': 8, 'u128': 16, 'i128': 16,
            'std::arch::x86_64::__m128i': 16, 'std::arch::x86_64::__m256i': 32, 'std::arch::x86::__m128i': 16, 'std::arch::x86::__m256i': 32}


def base_align(descr):
    """alignment of the object a traced pointer was derived from (the descr starts with its type)"""
    m = re.match(r'^ptr::from_ref::<(.*?)>', descr)
    ty = m.group(1) if m else descr.split('.as_ptr()')[0].split('.split_at(')[0]
    ty = ty.strip()
    while True:
        m = re.match(r'^\[(.*); \d+\]$', ty)
        if not m:
            break
        ty = m.group(1).strip()
    return ALIGN_OF.get(ty)


def bounded_access(ctx, facts, cfg):
    R = 'C03.b-bounded-simd-access'
    counts = {}
    for p, fn in sorted(facts.fns.items()):
        body = fn.body
        for b, t in body.calls():
            q = t['callee'].get('path') or ''
            m = LOADSTORE.search(q)
            if not m:
                continue
            intr = m.group(1)
            ext = facts.externs.get(q, {})
            is_store = 'store' in intr or intr.startswith('vst')
            if is_store:
                vt = (ext.get('inputs') or [None, None])[1] if len(ext.get('inputs') or []) > 1 else None
            else:
                vt = ext.get('output')
            acc = sizeof(facts, vt or '')
            eng = (fn.impl_self_adt or fn.path).split('::')[-1]
            # LutAvx2::from etc: attribute to module
            mod = re.search(r'engine_(\w+)', fn.path)
            eng = mod.group(1) if mod else eng
            counts.setdefault((eng, 'store' if is_store else 'load'), 0)
            counts[(eng, 'store' if is_store else 'load')] += 1
            c = body.canon_op(t['args'][0])
            res = trace_ptr(facts, body, c)
            ident = '%s:%s:bb%d' % (p, intr, counts[(eng, 'store' if is_store else 'load')])
            if acc is None:
                ctx.violation(R, 'unknown-access-size:%s' % intr, 'cannot determine the access size of %s (value type %s)' % (intr, vt), site=t['line'], fn=p, cfg=cfg)
                continue
            if res[0] is None:
                ctx.violation(R, 'unbounded:%s:%s' % (intr, re.sub(r'\W+', '_', res[1])[:40]),
                              'unbounded SIMD access: pointer operand of %s in %s cannot be bounded (%s)' % (intr, p, res[1]), site=t['line'], fn=p, cfg=cfg)
                continue
            base_sz, off, descr = res
            need = ALIGNED.get(intr)
            if need:
                ba = base_align(descr)
                if ba is None or ba < need or off % need:
                    ctx.violation(R, 'misaligned:%s' % intr, '%s in %s requires %d-byte alignment but its pointer is derived from %s (+%d), which is only %s-byte aligned: undefined behaviour / fault on memory that is not over-aligned by the allocator'
                                  % (intr, p, need, descr, off, ba if ba is not None else 'an unknown number of'), site=t['line'], fn=p, cfg=cfg)
                    continue
            if off + acc <= base_sz and off >= 0:
                ctx.ok(R, ident + '@' + cfg, {'ptr': descr, 'bytes': '%d..%d of %d' % (off, off + acc, base_sz)} if counts[(eng, 'store' if is_store else 'load')] <= 2 else None)
            else:
                ctx.violation(R, 'out-of-block:%s:+%d' % (intr, off),
                              '%s in %s accesses bytes %d..%d of a %d-byte object (%s): it reaches into the neighbouring block/table entry'
                              % (intr, p, off, off + acc, base_sz, descr), site=t['line'], fn=p, cfg=cfg)
    # what any implementation of an engine must contain: a load and a store of the low and of the high half of a block
    floors = {'x86_64': {('ssse3', 'load'): 2, ('ssse3', 'store'): 2, ('avx2', 'load'): 2, ('avx2', 'store'): 2},
              'i686': {('ssse3', 'load'): 2, ('ssse3', 'store'): 2, ('avx2', 'load'): 2, ('avx2', 'store'): 2},
              'aarch64': {('neon', 'load'): 2, ('neon', 'store'): 2}}.get(cfg, {})
    for k, want in floors.items():
        got = counts.get(k, 0)
        if got < want:
            ctx.violation(R, 'floor:%s-%s' % k, 'expected instance missing: %d vector %ss found in the %s engine, confirmed floor is %d (an access may have been rewritten in a form this rule does not see)'
                          % (got, k[1], k[0], want), cfg=cfg)
    ctx.note('vector load/store sites per engine (%s): %s' % (cfg, sorted(('%s-%s' % k, v) for k, v in counts.items())))


# ------------------------------------------------------------------ (c)

def home_module(fn):
    """the module an engine's code lives in: that of the type for its methods, that of the function for the free helpers beside it"""
    if fn.impl_self_adt:
        return fn.impl_self_adt.rsplit('::', 1)[0] if '::' in fn.impl_self_adt else None
    q = getattr(fn, 'defined_at', None) or fn.path
    if q.startswith('<'):
        return None
    return q.rsplit('::', 1)[0] if '::' in q else None


def unsafe_census(ctx, facts, cfg):
    R = 'C03.c-unsafe-census'
    n_ops = 0
    n_blocks = 0
    for p, fn in sorted(facts.fns.items()):
        if fn.unsafe:
            if not fn.target_features:
                ctx.violation(R, 'unsafe-fn-without-target-feature', 'unsafe fn %s is not a #[target_feature] entry point' % p, site=fn.span, fn=p, cfg=cfg)
            else:
                ctx.ok(R, 'unsafe-fn:%s@%s' % (p, cfg), None, nontrivial=False)

        def visit(n, parents):
            nonlocal n_ops, n_blocks
            k = n.get('k')
            if k == 'block' and n.get('unsafe'):
                n_blocks += 1
            if k == 'asm':
                ctx.violation(R, 'asm', 'inline asm', site=fn.span, fn=p, cfg=cfg)
            if n.get('raw_deref'):
                ctx.violation(R, 'raw-deref', 'raw pointer dereference', site=n.get('line') or fn.span, fn=p, cfg=cfg)
            if n.get('static_mut'):
                ctx.violation(R, 'static-mut', 'static mut access', site=fn.span, fn=p, cfg=cfg)
            if n.get('union_field'):
                ctx.violation(R, 'union', 'union field access', site=fn.span, fn=p, cfg=cfg)
            callee = None
            if k == 'mcall' and (n.get('unsafe_callee') or n.get('callee_features')):
                callee = n.get('path')
            if k == 'path' and n.get('def_kind') in ('Fn', 'AssocFn') and (n.get('unsafe_callee') or n.get('callee_features')):
                callee = n.get('path')
            if callee and n.get('exp') and re.match(r'^(std|core)::(fmt::|intrinsics::unreachable)', callee):
                callee = None     # compiler-generated (format_args!, derive) — not user unsafe code
            if callee:
                n_ops += 1
                g = facts.fns.get(callee)
                okc = False
                if g is not None:
                    okc = bool(g.target_features) and home_module(g) is not None and home_module(g) == home_module(fn)
                    why = 'unsafe call of crate fn %s which is not a #[target_feature] fn of the same engine' % callee
                else:
                    ext = facts.externs.get(callee, {})
                    if re.match(r'^(core|std)::(core_arch|arch)::', callee):
                        okc = True
                    elif re.search(r'<impl \*(mut|const) T>::(add|offset|sub)$', callee):
                        okc = True
                    why = 'unsafe operation %s is neither a core::arch intrinsic nor pointer arithmetic feeding one' % callee
                if okc:
                    pass
                else:
                    ctx.violation(R, 'foreign-unsafe:%s' % core.short(callee)[:50], '%s: %s' % (p, why), site=n.get('line') or fn.span, fn=p, cfg=cfg)
            if k == 'cast' and n.get('in_unsafe') and False:
                pass
        core.hir_walk(fn.hir, visit)
        # transmutes written by the user (not the compiler's debug pointer checks): HIR call of mem::transmute
        for (m, _) in core.hir_find(fn.hir, lambda m: m.get('k') == 'path' and (m.get('path') or '').endswith('::transmute')):
            ctx.violation(R, 'transmute', '%s uses transmute' % p, site=fn.span, fn=p, cfg=cfg)
        for (m, _) in core.hir_find(fn.hir, lambda m: m.get('k') in ('path', 'mcall') and re.search(r'from_raw_parts(_mut)?$|::read_unaligned$|::write_unaligned$|ptr::(read|write|copy)', m.get('path') or '')):
            ctx.violation(R, 'raw-memory:%s' % core.short(m.get('path'))[:40], '%s uses raw memory primitive %s' % (p, m.get('path')), site=fn.span, fn=p, cfg=cfg)
    for im in facts.impls:
        if im.get('unsafe') and im.get('trait') != 'std::clone::TrivialClone':   # emitted by #[derive(Clone)] on Copy types
            ctx.violation(R, 'unsafe-impl:%s' % im.get('trait'), 'unsafe impl %s for %s' % (im.get('trait'), im.get('self_ty')), site=im['span'], fn=im.get('self_ty'), cfg=cfg)
    ctx.ok(R, 'census@%s' % cfg, {'unsafe_blocks': n_blocks, 'unsafe_operations_classified': n_ops})
    ctx.floor(R, 12 if cfg != 'aarch64' else 6, n_blocks, 'unsafe blocks (cfg %s)' % cfg, cfg=cfg)


# ------------------------------------------------------------------ (d)

def eval_poly(ctx, facts, cfg):
    R = 'C03.d-one-eval-poly'
    up = 'engine::utils::eval_poly'
    if ctx.anchor(facts, up, R) is None:
        return
    n = 0
    cands = [f for f in facts.fns.values() if (f.impl_trait == 'engine::Engine' and f.name == 'eval_poly') or f.path == 'engine::Engine::eval_poly']
    for f in sorted(cands, key=lambda x: x.path):
        if (f.impl_self_adt or '').endswith('DefaultEngine'):
            # dispatcher (which one is chosen is C14's business): exactly one evaluation runs on every path
            b_ = f.body
            ev_blocks = [bb for bb, t_ in b_.calls() if (t_['callee'].get('decl') == 'engine::Engine::eval_poly' or (t_['callee'].get('path') or '').endswith('::eval_poly'))]
            bad_ = None
            for x_ in b_.exits():
                for e1 in ev_blocks:
                    for e2 in ev_blocks:
                        if e1 != e2 and e2 in b_.reachable_from(e1) and x_ in b_.reachable_from(e2):
                            bad_ = (e1, e2)
            reach_wo = b_.reachable_from(0, stop=frozenset(ev_blocks))
            if any(x_ in reach_wo for x_ in b_.exits()):
                ctx.violation(R, 'dispatcher-skips', '%s can return without evaluating the polynomial' % f.path, site=f.span, fn=f.path, cfg=cfg)
            elif bad_:
                ctx.violation(R, 'dispatcher-twice', '%s can run two evaluations in a row (%s then %s): the in-place transform would be applied twice'
                              % (f.path, b_.term(bad_[0])['line'], b_.term(bad_[1])['line']), site=f.span, fn=f.path, cfg=cfg)
            else:
                ctx.ok(R, '%s:exactly-one@%s' % (f.path, cfg), {'evaluations': len(ev_blocks)})
            continue
        n += 1
        g = f
        hops = 0
        okc = False
        while hops < 4:
            cc = crate_calls(g)
            if len(cc) != 1:
                break
            t = cc[0][1]
            args = [g.body.canon_op(a) for a in t['args']]
            if args != [('param', x) for x in g.param_names()]:
                break
            nxt = t['callee']['path']
            if nxt == up:
                okc = True
                break
            g = facts.fns[nxt]
            hops += 1
        if okc:
            ctx.ok(R, '%s@%s' % (f.path, cfg), {'hops': hops + 1})
        else:
            ctx.violation(R, 'not-shared', '%s does not reach utils::eval_poly(erasures, truncated_size) through forwarding calls with its own arguments in order' % f.path,
                          site=f.span, fn=f.path, cfg=cfg)
    ctx.floor(R, 3 if cfg != 'aarch64' else 2, n, 'Engine::eval_poly bodies', cfg=cfg)


# ------------------------------------------------------------------ (h)

def split_borrow_consistency(ctx, facts, cfg):
    """C03.h.  `if x < y { let (lo, hi) = d.split_at_mut(y); .. lo[x + i] .. hi[i] .. } else { let (lo, hi) = d.split_at_mut(x); .. }`:
    each arm is rewritten with absolute positions (lo[e] -> d@e, hi[e] -> d@(s + e), ranges likewise) and the two rewritten arms must
    be equal up to linear arithmetic.  No specification of the function is needed: the arms contradict each other or they do not."""
    from .core import hcanon, strip_refs, is_range_struct
    from .c05 import lin
    R = 'C03.h-split-borrow-consistency'
    n = 0

    def split_let(st):
        if st.get('k') != 'let' or 'init' not in st:
            return None
        pat, init = st['pat'], strip_refs(st['init'])
        if pat.get('k') != 'tuple' or len(pat.get('pats', [])) != 2 or not all(q.get('k') == 'bind' for q in pat['pats']):
            return None
        if init.get('k') == 'mcall' and init.get('name') == 'split_at_mut' and len(init['args']) == 1:
            return pat['pats'][0]['id'], pat['pats'][1]['id'], hcanon(init['recv']), hcanon(init['args'][0])
        return None

    def absolute(node, views):
        """canonical form of an arm with view-relative accesses made absolute"""
        if isinstance(node, list):
            return tuple(absolute(x, views) for x in node)
        if not isinstance(node, dict):
            return node
        node0 = strip_refs(node) if node.get('k') in ('addrof',) else node
        if node0 is not node:
            return absolute(node0, views)
        k = node.get('k')
        if k == 'index':
            b = strip_refs(node['base'])
            if b.get('k') == 'path' and b.get('res') == 'local' and b.get('id') in views:
                base, off = views[b['id']]
                rg = is_range_struct(node['idx'])
                if rg is not None:
                    lo = hcanon(rg[0]) if rg[0] is not None else ('const', 0)
                    hi = hcanon(rg[1]) if rg[1] is not None else ('end',)
                    return ('absrange', base, lin(('bin', 'Add', off, lo)), lin(('bin', 'Add', off, hi)) if hi != ('end',) else ('end',))
                return ('abs', base, lin(('bin', 'Add', off, hcanon(node['idx']))))
        if k == 'path' and node.get('res') == 'local':
            if node.get('id') in views:
                base, off = views[node['id']]
                return ('view', base, lin(off))
            return ('local', node.get('name'))
        if k == 'block':
            out = []
            for st in node.get('stmts', []):
                if split_let(st):
                    continue
                out.append(absolute(st, views))
            if node.get('tail') is not None:
                out.append(('tail', absolute(node['tail'], views)))
            return ('block', tuple(out))
        if k == 'bin' and not node.get('overloaded'):
            return ('lin', lin(hcanon(node)))
        out = [k]
        for key in sorted(node):
            if key in IGNORE_KEYS or key in ('k', 'name', 'mode') and k in ('bind',):
                continue
            if key in IGNORE_KEYS or key == 'k':
                continue
            v = node[key]
            out.append((key, absolute(v, views) if isinstance(v, (dict, list)) else v))
        return tuple(out)

    def arm_views(block):
        block = strip_refs(block)
        if block.get('k') != 'block':
            return None
        for st in block.get('stmts', []):
            sl = split_let(st)
            if sl:
                a, b, base, s_ = sl
                return {a: (base, ('const', 0)), b: (base, s_)}
        return None
    for p, fn in sorted(facts.fns.items()):
        if not fn.hir or not (p.startswith('engine::') or p.startswith('<engine::')):
            continue
        for node, _ in core.hir_find(fn.hir, lambda m: m.get('k') == 'if' and 'else' in m):
            va, vb = arm_views(node['then']), arm_views(node['else'])
            if va is None or vb is None:
                continue
            n += 1
            fa, fb = absolute(strip_refs(node['then']), va), absolute(strip_refs(node['else']), vb)
            d = first_diff(fa, fb)
            if d is None:
                ctx.ok(R, '%s@%s' % (p, cfg), {'test': core.hshow(hcanon(node['cond'])), 'arms': 'identical absolute accesses'})
            else:
                ctx.violation(R, 'arms-differ', 'the two arms of `if %s` in %s borrow the two halves of a split buffer but touch different absolute positions: one arm has %s where the other has %s'
                              % (core.hshow(hcanon(node['cond'])), p, brief(d[1]) + ' (at %s)' % d[0], brief(d[2])), site=node.get('line') or fn.span, fn=p, cfg=cfg)
    ctx.floor(R, 1, n, 'ordering tests with a split borrow in both arms', cfg=cfg)
