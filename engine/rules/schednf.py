"""Deep normal form of a transform schedule (third opinion for C03.a).

The per-function comparison and the helper-inlined comparison of c03.py treat two schedules as siblings only when they are
written the same way up to helper extraction and loop syntax.  This module normalises further, so that a one-sided
behaviour-preserving rewrite of one engine's schedule still compares equal to its siblings while a changed index does not:

  * own helpers are expanded in place: schedule-level ones (as before) and pure single-expression ones
    (`fn skew3(&self, base, dist) -> (..) { (self.skew[base], self.skew[base + dist], ..) }`), getters become field reads;
  * immutable `let`s of pure scalar expressions (locals, literals, arithmetic, casts, reads of the immutable tables, tuples of
    those) are substituted into their uses, tuple patterns component-wise, provided nothing the expression mentions is
    assigned in the rest of the block;
  * every counted loop `var in A..B step S` becomes count-form: `k in 0..div_ceil(B - A, S)` with `var := A + S * k`;
  * integer `+`, `-`, `*` by a literal and `<<` by a literal are kept as a sorted linear combination;
  * `(&t[d..])[i]` is `t[d + i]`.

Equal deep forms mean: the same calls on the same receivers with index expressions that are equal as polynomials of degree
one over the same atoms, in the same loop nest with the same trip counts.  (Trusted: index arithmetic on shard positions does
not wrap; reads of `&'static` tables are pure.)  Used only when the two cheaper comparisons differ; it never turns an
accepted pair into a rejected one."""
import copy
from . import core
from . import c03


def _ids(n, out=None):
    if out is None:
        out = set()
    if isinstance(n, list):
        for x in n:
            _ids(x, out)
    elif isinstance(n, dict):
        if n.get('k') == 'path' and n.get('res') == 'local':
            out.add(n.get('id'))
        for v in n.values():
            if isinstance(v, (dict, list)):
                _ids(v, out)
    return out


def _subst(n, m):
    """replace local paths by expressions; the replacement is not rewritten again"""
    if isinstance(n, list):
        return [_subst(x, m) for x in n]
    if not isinstance(n, dict):
        return n
    if n.get('k') == 'path' and n.get('res') == 'local' and n.get('id') in m:
        return copy.deepcopy(m[n['id']])
    return {k: (_subst(v, m) if isinstance(v, (dict, list)) else v) for k, v in n.items()}


INT = ('usize', 'u8', 'u16', 'u32', 'u64', 'isize', 'i32', 'i64', 'bool')
PURE_METHODS = ('div_ceil', 'min', 'max', 'next_power_of_two', 'trailing_zeros', 'leading_zeros', 'is_power_of_two', 'len')


def pure(n):
    """expression without effects whose value depends only on locals, literals and the immutable tables"""
    if not isinstance(n, dict):
        return True
    k = n.get('k')
    if k in ('path', 'lit'):
        return k == 'lit' or n.get('res') in ('local', 'def')
    if k == 'bin' and not n.get('overloaded'):
        return pure(n['l']) and pure(n['r'])
    if k in ('un', 'cast'):
        return all(pure(v) for v in n.values() if isinstance(v, dict))
    if k == 'addrof':
        return not n.get('mut') and pure(n.get('x'))
    if k == 'field':
        return pure(n.get('x'))
    if k == 'tup':
        return all(pure(x) for x in n.get('xs', []))
    if k == 'index':
        b = core.strip_refs(n['base'])
        # reads of a table held by shared reference (a field of the engine, or a local alias of one)
        if b.get('k') == 'index':
            okb = pure(b)
        else:
            okb = (b.get('k') == 'field' and pure(b)) or (b.get('k') == 'path' and b.get('res') == 'local' and (b.get('ty') or '').startswith('&') and not (b.get('ty') or '').startswith('&mut'))
        return okb and pure(n['idx'])
    if k == 'struct' and core.is_range_struct(n) is not None:
        return all(pure(f['e']) for f in n.get('fields', []))
    if k == 'mcall' and n.get('name') in PURE_METHODS and (n.get('path') or '').startswith(('core::num::', 'std::cmp::', 'core::slice::')):
        return pure(n['recv']) and all(pure(a) for a in n.get('args', []))
    return False


def _okty(t):
    t = t or ''
    return t in INT or (t.startswith('&') and not t.startswith('&mut')) or (t.startswith('(') and all(x.strip() in INT for x in t.strip('()').split(',') if x.strip()))


def subst_lets(n):
    if isinstance(n, list):
        return [subst_lets(x) for x in n]
    if not isinstance(n, dict):
        return n
    out = {k: (subst_lets(v) if isinstance(v, (dict, list)) else v) for k, v in n.items()}
    if out.get('k') != 'block':
        return out
    stmts = list(out.get('stmts', []))
    tail = out.get('tail')
    i = 0
    while i < len(stmts):
        s = stmts[i]
        done = False
        if s.get('k') == 'let' and 'else' not in s and isinstance(s.get('init'), dict) and isinstance(s.get('pat'), dict):
            pat, init = s['pat'], s['init']
            pairs = None
            if pat.get('k') == 'bind' and pat.get('mode', '').endswith('Not)') and 'sub' not in pat and _okty(pat.get('ty')):
                pairs = [(pat['id'], init)]
            elif pat.get('k') == 'tuple' and core.strip_refs(init).get('k') == 'tup':
                xs = core.strip_refs(init)['xs']
                ps = pat.get('pats', [])
                if len(xs) == len(ps) and all(p.get('k') == 'bind' and p.get('mode', '').endswith('Not)') and 'sub' not in p and _okty(p.get('ty')) for p in ps):
                    pairs = [(p['id'], x) for p, x in zip(ps, xs)]
            if pairs and all(pure(e) for _, e in pairs):
                rest = stmts[i + 1:] + ([tail] if tail is not None else [])
                deps = set()
                for _, e in pairs:
                    _ids(e, deps)
                if not any(c03._assigns_local(rest, d) for d in deps):
                    m = dict(pairs)
                    stmts = stmts[:i] + _subst(stmts[i + 1:], m)
                    if tail is not None:
                        tail = _subst(tail, m)
                    done = True
        if not done:
            i += 1
    out['stmts'] = stmts
    out['tail'] = tail
    return out


def maploops(n, facts):
    """`for x in (A..B).map(|p| E) { BODY }` (optionally `.step_by(S)` before the map) as the counted loop over p with
    `let x = E;` in front of BODY, when E is pure"""
    if isinstance(n, list):
        return [maploops(x, facts) for x in n]
    if not isinstance(n, dict):
        return n
    out = {k: (maploops(v, facts) if isinstance(v, (dict, list)) else v) for k, v in n.items()}
    fl = core.for_loop_parts(out)
    if fl:
        pat, it, body = fl
        it0 = core.strip_refs(it)
        if it0.get('k') == 'mcall' and it0.get('name') == 'map' and (it0.get('path') or '').endswith('Iterator::map') and len(it0.get('args', [])) == 1:
            cl = core.strip_refs(it0['args'][0])
            g = facts.fns.get(cl.get('def')) if cl.get('k') == 'closure' else None
            src = core.strip_refs(it0['recv'])
            step = c03._lit(1)
            rg = core.is_range_struct(src)
            if rg is None and src.get('k') == 'mcall' and src.get('name') == 'step_by' and len(src.get('args', [])) == 1:
                rg = core.is_range_struct(src['recv'])
                step = src['args'][0]
            if g is not None and g.hir and len(g.hir.get('params', [])) == 1 and g.hir['params'][0].get('k') == 'bind' and rg is not None \
                    and rg[0] is not None and rg[1] is not None and not rg[2] and not c03._jumps(body):
                e = core.strip_refs(g.hir['value'])
                while e.get('k') == 'block' and not e.get('stmts') and e.get('tail') is not None:
                    e = core.strip_refs(e['tail'])
                if pure(e):
                    b0 = core.strip_refs(body)
                    if b0.get('k') == 'block' and not b0.get('unsafe'):
                        inner = {'k': 'block', 'stmts': [{'k': 'let', 'pat': pat, 'init': e}] + list(b0.get('stmts', [])), 'tail': b0.get('tail'), 'ty': '()'}
                    else:
                        inner = {'k': 'block', 'stmts': [{'k': 'let', 'pat': pat, 'init': e}, {'k': 'expr', 'e': body}], 'tail': None, 'ty': '()'}
                    return {'k': 'steploop', 'ty': '()', 'var': {'k': 'bind', 'id': g.hir['params'][0]['id']}, 'a': rg[0], 'b': rg[1], 's': step, 'body': inner}
    return out


def deret(n):
    """`{ ..; if c { X; return; } REST }` in a ()-valued helper body is `{ ..; if c { X } else { REST } }`"""
    n0 = core.strip_refs(n)
    if n0.get('k') != 'block':
        return n
    stmts = list(n0.get('stmts', []))
    tail = n0.get('tail')
    for i, st in enumerate(stmts):
        e = st.get('e') if st.get('k') == 'expr' else None
        e = core.strip_refs(e) if isinstance(e, dict) else None
        if e is not None and e.get('k') == 'if' and 'else' not in e:
            th = core.strip_refs(e['then'])
            if th.get('k') == 'block':
                ts = list(th.get('stmts', []))
                last = th.get('tail') if th.get('tail') is not None else (ts[-1].get('e') if ts and ts[-1].get('k') == 'expr' else None)
                last = core.strip_refs(last) if isinstance(last, dict) else None
                if last is not None and last.get('k') == 'ret' and not last.get('e') and not last.get('x') and not last.get('value'):
                    body_then = dict(th)
                    if th.get('tail') is not None:
                        body_then['tail'] = None
                    else:
                        body_then['stmts'] = ts[:-1]
                    rest = deret({'k': 'block', 'stmts': stmts[i + 1:], 'tail': tail, 'ty': '()'})
                    e2 = dict(e)
                    e2['then'] = body_then
                    e2['else'] = rest
                    out = dict(n0)
                    out['stmts'] = stmts[:i] + [{'k': 'expr', 'e': e2}]
                    out['tail'] = None
                    return out
    return n


class DeepExpander(c03.Expander):
    def closures_capture_nothing(self, g):
        """closures in g (their bodies are separate items the parameter substitution does not reach) mention none of g's parameters"""
        pids = {b['id'] for pt in g.hir.get('params', []) for (b, _) in core.hir_find(pt, lambda m: m.get('k') == 'bind')}
        for (c, _) in core.hir_find(g.hir['value'], lambda m: m.get('k') == 'closure'):
            h = self.facts.fns.get(c.get('def'))
            if h is None or not h.hir or (_ids(h.hir['value']) & pids):
                return False
        return True

    def body_of(self, g):
        if g.output in ('()', None) and c03._has(g.hir['value'], ('ret',)):
            return deret(g.hir['value'])
        return g.hir['value']

    def expr(self, n, depth):
        if isinstance(n, dict):
            callp = cargs = None
            if n.get('k') == 'mcall':
                callp, cargs = n.get('path'), [n['recv']] + list(n['args'])
            elif n.get('k') == 'call' and isinstance(n.get('f'), dict) and n['f'].get('k') == 'path' and n['f'].get('res') != 'local':
                callp, cargs = n['f'].get('path'), list(n['args'])
            if callp and depth < 6 and self.getter(callp, cargs) is None:
                g = self.inlinable(callp, cargs)
                if g is not None and self.body_of(g) is not g.hir['value']:
                    from .c05 import subst_hir
                    self.count += 1
                    self.inlined.append(g.path)
                    args = [self.expr(a, depth) for a in cargs]
                    mapping = {pt['id']: a for pt, a in zip(g.hir['params'], args)}
                    return self.expr(subst_hir(self.body_of(g), mapping, 1000000 * self.count), depth + 1)
        return c03.Expander.expr(self, n, depth)

    def inlinable(self, path, args):
        g = c03.Expander.inlinable(self, path, args)
        if g is not None:
            return g
        g = self.facts.fns.get(path) if path else None
        # a schedule-level helper called with pure argument expressions (`truncated_size.div_ceil(2)`)
        if g is not None and g.impl_self_adt == self.adt and (not g.impl_trait or g.x.get('mono_of')) and g.hir and c03.takes_shards(g) \
                and len(g.hir.get('params', [])) == len(args) and not c03._has(self.body_of(g), ('ret',)) and self.closures_capture_nothing(g) \
                and all(pt.get('k') == 'bind' and pt.get('mode', '').endswith('Not)') and (c03._pure_arg(a) or pure(core.strip_refs(a))) for pt, a in zip(g.hir['params'], args)):
            return g
        if g is None or g.impl_self_adt != self.adt or not g.hir or (g.impl_trait and not g.x.get('mono_of') and not c03.private_trait(self.facts, g.impl_trait)):
            return None
        se = core.simple_expr_fn(g)
        if se is None or not pure(core.strip_refs(se[1])) or len(g.hir.get('params', [])) != len(args):
            return None
        for pt, a in zip(g.hir['params'], args):
            if pt.get('k') != 'bind' or not pt.get('mode', '').endswith('Not)') or not c03._pure_arg(a):
                return None
        return g


def _lin_add(a, b, sign=1):
    c = a[1] + sign * b[1]
    t = dict((k, (term, co)) for k, term, co in a[2])
    for k, term, co in b[2]:
        if k in t:
            t[k] = (term, t[k][1] + sign * co)
        else:
            t[k] = (term, sign * co)
    return ('lin', c, tuple(sorted((k, term, co) for k, (term, co) in t.items() if co != 0)))


def _as_lin(x):
    if isinstance(x, tuple) and x and x[0] == 'lin':
        return x
    if isinstance(x, tuple) and x and x[0] == 'int':
        return ('lin', x[1], ())
    return ('lin', 0, ((repr(x), x, 1),))


def _simplify(l):
    if not l[2]:
        return ('int', l[1])
    if l[1] == 0 and len(l[2]) == 1 and l[2][0][2] == 1:
        return l[2][0][1]
    return l


class NF2(c03.NF):
    def arith(self, op, a, b):
        ia = a[1] if isinstance(a, tuple) and a and a[0] == 'int' else None
        ib = b[1] if isinstance(b, tuple) and b and b[0] == 'int' else None
        if op == '+':
            return _simplify(_lin_add(_as_lin(a), _as_lin(b)))
        if op == '-':
            return _simplify(_lin_add(_as_lin(a), _as_lin(b), -1))
        if op == '<<' and ib is not None and 0 <= ib < 32:
            return self.arith('*', a, ('int', 1 << ib))
        if op == '*' and (ia is not None or ib is not None):
            k, x = (ia, b) if ia is not None else (ib, a)
            l = _as_lin(x)
            return _simplify(('lin', l[1] * k, tuple((kk, t, co * k) for kk, t, co in l[2] if co * k != 0)))
        return c03.NF.arith(self, op, a, b)

    def node(self, n):
        if isinstance(n, dict):
            k = n.get('k')
            if k == 'steploop':
                var = n['var']['id']
                A, B, S = n['a'], n['b'], n['s']
                s_lit = S.get('int') if isinstance(S, dict) and S.get('k') == 'lit' else None
                a_zero = isinstance(A, dict) and A.get('k') == 'lit' and A.get('int') == 0
                kvar = {'k': 'path', 'res': 'local', 'id': var, 'ty': 'usize'}
                repl = kvar
                if s_lit != 1:
                    repl = {'k': 'bin', 'op': '*', 'l': S, 'r': repl}
                if not a_zero:
                    repl = {'k': 'bin', 'op': '+', 'l': A, 'r': repl}
                body = n['body'] if (a_zero and s_lit == 1) else _subst(n['body'], {var: repl})
                span = self.arith('-', self.node(B), self.node(A))
                count = span if s_lit == 1 else ('divceil', span, self.node(S))
                return ('cloop', count, ('bind', self.loc(var)), self.node(body))
            if k == 'mcall' and n.get('name') == 'div_ceil' and (n.get('path') or '').startswith('core::num::') and len(n.get('args', [])) == 1:
                return ('divceil', self.node(n['recv']), self.node(n['args'][0]))
            if k == 'index':
                b = core.strip_refs(n['base'])
                if b.get('k') == 'index':
                    rg = core.is_range_struct(b['idx'])
                    if rg is not None and rg[0] is not None and rg[1] is None and not rg[2]:
                        # (&t[d..])[i] == t[d + i]
                        return self.node({'k': 'index', 'base': b['base'], 'idx': {'k': 'bin', 'op': '+', 'l': rg[0], 'r': n['idx']}, 'ty': n.get('ty')})
            if k == 'addrof' and not n.get('mut'):
                # a shared reborrow of a place is the place for what is computed from it
                return self.node(n['x'])
        return c03.NF.node(self, n)


def deep_form(facts, adt, entries):
    ex = DeepExpander(facts, adt)
    forms = []
    for name, f in entries:
        tree = ex.expand_fn(f)
        tree = c03._drop_debug_asserts(tree)
        tree = maploops(tree, facts)
        tree = c03.loopnorm(tree)
        prev = None
        for _ in range(4):          # substitution exposes further lets (a let whose init mentioned another let)
            tree = subst_lets(tree)
            tree = ex.flatten(tree) if tree.get('k') == 'block' else tree
            cur = repr(tree)
            if cur == prev:
                break
            prev = cur
        tree = c03._unit_tail(tree)
        nf = NF2(facts, adt)
        nf.locals = {}
        # parameters are numbered by position, not by first use: terms that cancel must not disturb the numbering
        for pt in f.hir.get('params', []):
            for (b, _) in core.hir_find(pt, lambda m: m.get('k') == 'bind'):
                nf.loc(b['id'])
        forms.append((name, nf.node(tree)))
    return forms, ex.inlined
