"""C11 — decoding is independent of arrival order and of surplus shards (bookkeeping part)."""
import re
from . import core, resetrules, c12, c05, summ, roles as roles_mod
from .core import hcanon, hshow

EXPLANATION = (
    "Commutativity by construction. (a) On the Ok path of DecoderWork::add_original_shard / add_recovery_shard the "
    "write set through self is exactly {store the shard at pos, set bit pos, increment the counter of that kind by 1}, "
    "all three present on the same path, with the same canonical pos = self.<kind>_base_pos + index; pos and the stored "
    "bytes depend only on the arguments and reset-time fields — no per-round state (counters, bitmap, anything else "
    "written by add_*) flows into a position or a stored value. Effects keyed by index commute, duplicates are rejected "
    "first (C06.b), so the per-round state after any permutation of the same add calls is identical. (b) the decoders "
    "read of the work object only decode_begin()'s tuple (shard store, the two configured counts, the bitmap) and "
    "undo_last_chunk_encoding; nothing arrival-dependent is exposed to them. (c) restored_original is Some only if the "
    "received bit of that position is clear (given originals are never reported). (d) decode_begin returns None exactly "
    "when original_received_count == original_count and on that path each decode returns the result without touching "
    "the work object, so the result is empty whatever recovery shards accompany a complete set of originals.")
DECIDES = "that the state a decode sees is a function of the SET of added (index, shard) pairs; exposure only of not-received positions; the all-present shortcut."
NOT_DECIDED = "that any superset of original_count shards reconstructs the same bytes (locator-polynomial algebra: C01, not applicable)."
TRUSTED = ["FixedBitSet::set / Index semantics"]
ASSUMPTIONS = []

WORK = 'rate::decoder_work::DecoderWork'
SELF = ('local', 'self')


def run(ctx):
    cfgs = ['x86_64'] if ctx.tier == 'quick' else ['x86_64', 'aarch64', 'i686']
    ctx.rule('C11.a-add-effects', 'add_*_shard writes exactly {shard at pos, bit pos, counter += 1} with one canonical pos built from index and reset-time fields only')
    ctx.rule('C11.b-decoder-inputs', 'decoders read of the work object only decode_begin()\'s (store, counts, bitmap) and call only undo_last_chunk_encoding / DecoderResult::new on it')
    ctx.rule('C12.a-accessor-atoms', 'accessor returns Some exactly under the documented condition (given originals are never reported)')
    ctx.rule('C12.a-forwarding', 'public result methods forward to the work accessors')
    ctx.rule('C11.e-placement-agreement', 'the work positions each decoder treats as originals / recovery shards are the base positions it configured at reset (where add_* stores them and the accessor reads them)')
    ctx.rule('C11.d-all-present-shortcut', 'decode_begin yields None exactly when all originals were received and decode then returns the untouched result')
    ctx.rule('C11.f-round-starts-clean', 'every round starts with an empty received bitmap and zero counters (implicit and explicit reset), so that which shards count as given depends on this round only (clause shared with C05.a/b)')
    ctx.guard('C11.analysable', ctx.shared, {'X.full': 'C11.f-round-starts-clean', 'X.recv': 'C11.f-round-starts-clean', 'X.drop': 'C11.f-round-starts-clean'},
              resetrules.check_reset_discipline, ctx, ctx.facts(cfgs[0]), cfgs[0], 'X.drop', 'X.recv', 'X.full')
    ctx.rule('C11.j-tables-complete', 'in-place passes over the fixed-size tables cover the whole table: the entries for the highest positions are read only when shards at those positions are among those given (clause shared with C08.f)')
    ctx.rule('C11.k-every-position-defined', 'before the first transform every position of the decoder\'s buffer is either a given shard (multiplied) or zeroed, whichever shards were given: a position that was not received never keeps data of an earlier round (clause shared with C05.d)')
    from . import c08 as c08_
    ctx.guard('C11.analysable', ctx.shared, {'C08.f-table-passes-cover-the-table': 'C11.j-tables-complete'}, c08_.table_passes_cover, ctx, ctx.facts(cfgs[0]), cfgs[0])
    ctx.guard('C11.analysable', ctx.shared, {'C05.d-decoder-tiling': 'C11.k-every-position-defined'}, c05.tiling_rule, ctx, ctx.facts(cfgs[0]), cfgs[0])
    ctx.rule('C11.i-final-transform-covers-revealed', 'the last FFT of a decoder is asked for at least the positions that are read back afterwards (the revealed originals may sit anywhere in their range, whichever shards were given): reveal range within [pos, pos + truncated_size), by linear arithmetic with x <= next_power_of_two(x)')
    ctx.rule('C11.h-sufficiency-on-counts', 'whether the shards given suffice is judged by original_received + recovery_received < original_count on the round\'s counters (a superset of a sufficient set is sufficient), and each error of the add/decode path is governed by its documented condition (clause shared with C06.b)')
    from . import c06
    ctx.guard('C11.analysable', ctx.shared, {'C06.b-truthful': 'C11.h-sufficiency-on-counts'}, c06.check_truthful, ctx, ctx.facts(cfgs[0]), cfgs[0])
    ctx.rule('C11.g-one-locator-evaluation', 'the erasure locator every decoder derives from the bitmap is evaluated by the one shared eval_poly, whatever engine is used (clause shared with C03.d)')
    from . import c03
    ctx.guard('C11.analysable', ctx.shared, {'C03.d-one-eval-poly': 'C11.g-one-locator-evaluation'}, c03.eval_poly, ctx, ctx.facts(cfgs[0]), cfgs[0])
    ctx.rule('C11.o-handed-over-work-reconfigured', 'a working space taken over from another decoder is laid out for the configuration in use before anything is stored: positions the adds write and the decoder reads are those of this layout (clause shared with C05.e)')
    ctx.guard('C11.analysable', ctx.shared, {'C05.e-handover-through-reset': 'C11.o-handed-over-work-reconfigured'}, c05.handover_rule, ctx, ctx.facts(cfgs[0]), cfgs[0])
    ctx.rule('C11.n-rejected-add-leaves-no-trace', 'an add that is rejected marks nothing and stores nothing: what a later decode restores depends on the shards accepted, not on attempts (clause shared with C07.atomic)')
    from . import c07 as c07_
    ctx.guard('C11.analysable', ctx.shared, {'C07.atomic': 'C11.n-rejected-add-leaves-no-trace'}, c07_.check_cfg, ctx, ctx.facts(cfgs[0]), cfgs[0])
    ctx.rule('C11.m-no-history-lengths', 'nothing a decode reads depends on how large the object has ever been (lengths of grow-only containers): otherwise positions beyond the current configuration count as erasures and an exact set restores something else than a superset (clause shared with C05.h)')
    ctx.guard('C11.analysable', ctx.shared, {'C05.h-grow-only-lengths': 'C11.m-no-history-lengths'}, c05.grow_only_lengths, ctx, ctx.facts(cfgs[0]), cfgs[0])
    ctx.rule('C11.l-engines-run-one-schedule', 'the truncated transforms, whose truncation depends on which shards were given, are the reference schedule in every engine: a surplus shard or a different set does not change the result on one engine only (clause shared with C03.a)')
    for c_ in ('x86_64',):      # the Neon schedule is compared by C03 / C09 / C14 (aarch64 facts); here the x86 engines
        ctx.guard('C11.analysable', ctx.shared, {'C03.a-schedule-siblings': 'C11.l-engines-run-one-schedule'}, c03.schedules, ctx, ctx.facts(c_), c_)
    for cfg in cfgs:
        facts = ctx.facts(cfg)
        ctx.guard('C11.analysable', add_effects, ctx, facts, cfg)
        ctx.guard('C11.analysable', decoder_inputs, ctx, facts, cfg)
        ctx.guard('C11.analysable', c12.accessors, ctx, facts, cfg)
        ctx.guard('C11.analysable', shortcut, ctx, facts, cfg)
        ctx.guard('C11.analysable', placement, ctx, facts, cfg)
        ctx.guard('C11.analysable', final_transform_covers, ctx, facts, cfg)


def add_effects(ctx, facts, cfg):
    R = 'C11.a-add-effects'
    adt = facts.adts.get(WORK)
    if adt is None:
        ctx.violation(R, 'anchor-missing', 'anchor missing: %s' % WORK, fn=WORK, cfg=cfg)
        return
    ftypes = {fl['name']: fl['ty'] for v in adt['variants'] for fl in v['fields']}
    RL = roles_mod.roles(facts)
    pr = {RL.fields['dec'].get(f, f) for f in resetrules.per_round_fields(facts, WORK)}
    for kind in ('original', 'recovery'):
        fn = RL.get(ctx, 'dec.add_%s' % kind, R, cfg)
        if fn is None:
            continue
        p = fn.path
        # validation and storing may live in private helpers of the work type (`add_shard(kind, ..)`): analysed in place
        fn_i = core.inlined_fn(facts, p, core.self_helper(WORK))
        body = fn_i.body
        N = lambda c: RL.norm(core.strip_var_ids(c), p)
        ws = resetrules.write_sites(facts, fn_i.path)
        problems = []
        store = [w for w in ws if ftypes.get(w[0], '') == RL.store_adt]
        bits = [w for w in ws if 'FixedBitSet' in ftypes.get(w[0], '')]
        ctrs = [w for w in ws if ftypes.get(w[0]) == 'usize']
        others = [w for w in ws if w not in store and w not in bits and w not in ctrs]
        if len(store) != 1 or len(bits) != 1 or len(ctrs) != 1 or others:
            problems.append('write set through self is %s; expected exactly one shard store write, one bitmap write and one counter write'
                            % sorted('%s:%s' % (w[0], w[1]) for w in ws))
        else:
            sw, bw, cw = store[0], bits[0], ctrs[0]
            want_pos = c05.lin(('bin', 'Add', ('field', ('deref', ('param', 'self')), '%s_base_pos' % kind), ('param', 'index')))
            # store: Shards::insert(&mut self.shards, pos, data)
            st = sw[6]
            if sw[1] != 'call' or len(st['args']) < 3:
                problems.append('shard store is not written by one insert(pos, shard) call')
            else:
                pos1 = N(body.canon_op(st['args'][1]))
                if c05.lin(pos1) != want_pos:
                    problems.append('shard is stored at %s, expected self.%s_base_pos + index' % (core.show(pos1), kind))
                data = N(body.canon_op(st['args'][2]))
                names = set()
                collect(data, names)
                bad = names - {'%s_shard' % kind, 'index'}
                if '%s_shard' % kind not in names or bad:
                    problems.append('stored bytes derive from %s, expected only the %s_shard argument' % (sorted(names), kind))
                if mentions_fields(data, pr):
                    problems.append('stored bytes depend on per-round state')
            bt = bw[6]
            if bw[1] != 'call' or not re.search(r'FixedBitSet::(set|insert|put)$', bw[2] or ''):
                problems.append('bitmap is written by %s, expected FixedBitSet::set(pos, true)' % bw[2])
            else:
                pos2 = N(body.canon_op(bt['args'][1]))
                if c05.lin(pos2) != want_pos:
                    problems.append('bit set at %s, expected self.%s_base_pos + index' % (core.show(pos2), kind))
                if (bw[2] or '').endswith('::set') and body.canon_op(bt['args'][2]) != ('const', 1):
                    problems.append('bit is not set to true')
            crole = RL.fields['dec'].get(cw[0], cw[0])
            if crole != '%s_received_count' % kind:
                problems.append('counter written is %s, expected %s_received_count' % (cw[0], kind))
            elif cw[1] != 'assign' or N(cw[2]) != core.norm_bin('Add', ('field', ('deref', ('param', 'self')), crole), ('const', 1)):
                problems.append('counter update is %s, expected += 1' % (core.show(cw[2]) if cw[1] == 'assign' else cw[2]))
            # all three on the Ok path: each write block dominates every Ok exit, and Ok exit reachable
            errs, oks = core.result_exits(body)
            okb = [b for (b, k, d) in oks]
            for w in (sw, bw, cw):
                if not okb or not all(body.dominates(w[3], ob) for ob in okb):
                    problems.append('write of %s does not happen on every Ok path' % w[0])
        if problems:
            for pb in sorted(set(problems)):
                ctx.violation(R, re.sub(r'[^A-Za-z_]+', '-', pb)[:70], '%s: %s' % (p, pb), site=fn.span, fn=p, cfg=cfg)
        else:
            ctx.ok(R, '%s@%s' % (p, cfg), {'writes': ['shards[pos] <- shard', 'received[pos] <- true', '%s_received_count += 1' % kind],
                                           'pos': 'self.%s_base_pos + index' % kind})


def collect(c, out):
    if isinstance(c, tuple):
        if c and c[0] in ('param', 'var'):
            out.add(c[1])
        else:
            for x in c:
                collect(x, out)


def mentions_fields(c, fields):
    if isinstance(c, tuple):
        if c and c[0] == 'field' and c[2] in fields:
            return True
        return any(mentions_fields(x, fields) for x in c)
    return False


def decoder_inputs(ctx, facts, cfg):
    R = 'C11.b-decoder-inputs'
    RL = roles_mod.roles(facts)
    db = RL.get(ctx, 'dec.begin', R, cfg)
    if db is None:
        return
    pls = begin_payload(facts, RL, db)
    okp = False
    for (kind, rl, e) in pls:
        got = sorted(tuple(r) for _, r in rl)
        if got == sorted([('shards',), ('original_count',), ('recovery_count',), ('received',)]):
            okp = True
        else:
            ctx.violation(R, 'decode-begin-payload', 'decode_begin hands the decoder %s; expected exactly the shard store, original_count, recovery_count and the bitmap — nothing arrival-dependent' % [r for _, r in rl],
                          site=e.get('line'), fn=db.path, cfg=cfg)
    if okp:
        ctx.ok(R, 'decode_begin-payload@%s' % cfg, {'payload': '(shards, original_count, recovery_count, &received)'})
    elif not pls:
        ctx.violation(R, 'decode-begin-payload', 'no Some(..) payload (tuple or struct) found in decode_begin', site=db.span, fn=db.path, cfg=cfg)
    allowed = {RL.fn.get('dec.begin'), RL.fn.get('dec.undo'), "decoder_result::DecoderResult::<'a>::new"}
    n = 0
    for p, fn in sorted(facts.fns.items()):
        if fn.impl_trait == 'rate::RateDecoder' and fn.name == 'decode' and not (fn.impl_self_adt or '').startswith('rate::rate_default'):
            n += 1
            bad = []
            # the epilogue may live in a private method of the work type (`decode_end`): analysed in place
            wadt = roles_mod.DEC_WORK
            fb = core.inlined_fn(facts, p, lambda g, t: (g.impl_self_adt == wadt and not g.reachable and not g.impl_trait and g.path not in allowed
                                                        and g.kind != 'Closure' and g.body.arg_count == 1), tag='c11b').body
            for b, t in fb.calls():
                q = t['callee'].get('path')
                g = facts.fns.get(q)
                if g is None:
                    continue
                touches_work = any('DecoderWork' in fb.local_ty(core.op_place(a)['l']) for a in t['args'] if core.op_place(a))
                if touches_work and q not in allowed:
                    bad.append((q, t['line']))
            if bad:
                for q, line in bad:
                    ctx.violation(R, 'extra-work-access:%s' % core.short(q), '%s reads the work object through %s: only decode_begin / undo_last_chunk_encoding / DecoderResult::new are order-independent by rule C11.a'
                                  % (p, q), site=line, fn=p, cfg=cfg)
            else:
                ctx.ok(R, '%s@%s' % (p, cfg), None)
    ctx.floor(R, 2, n, 'dedicated decoders', cfg=cfg)


def ok_payloads(db):
    """[(inner expr node of an Ok(..) exit of decode_begin, conds, env)]"""
    out = []
    for (x, conds, env) in core.fn_exits(db):
        x0 = core.strip_refs(x)
        if x0.get('k') == 'call' and x0['f'].get('k') == 'path' and (x0['f'].get('path') or '').endswith('::Ok') and len(x0['args']) == 1:
            out.append((core.strip_refs(x0['args'][0]), conds, env))
    return out


def payload_items(a):
    """(kind, [(field name | None, expr)]) of a value that carries several things: Some((..)), Some(S {..}), a struct or
    struct-like enum variant literal, a tuple-like variant / tuple struct constructor call; None if it carries nothing"""
    a = core.strip_refs(a)
    if a.get('k') == 'call' and a['f'].get('k') == 'path' and (a['f'].get('path') or '').endswith('::Some') and len(a['args']) == 1:
        return payload_items(a['args'][0]) or ('tuple', [(None, a['args'][0])])
    if a.get('k') == 'tup':
        return ('tuple', [(None, x) for x in a['xs']])
    if a.get('k') == 'struct':
        return ('struct', [(f['name'], f['e']) for f in a['fields']])
    if a.get('k') == 'call' and a['f'].get('k') == 'path' and a['f'].get('res') != 'local' and a.get('args'):
        return ('tuple', [(None, x) for x in a['args']])
    return None


def begin_payload(facts, RL, db):
    """what decode_begin hands out on its payload-carrying Ok exits: [('tuple' | 'struct', [(name, [roles])], node)]"""
    out = []
    for (a, conds, env) in ok_payloads(db):
        pi = payload_items(a)
        if pi is None:
            continue
        kind, items = pi
        roles = []
        for name, x in items:
            fs = set()
            fields_of(RL.norm(hcanon(x, env), db.path), fs)
            roles.append((name, sorted(fs)))
        if not any(r for _, r in roles):
            continue
        out.append((kind, roles, a))
    return out


def fields_of(c, out):
    if isinstance(c, tuple):
        if c and c[0] == 'field' and c[1] == SELF:
            out.add(c[2])
        for x in c:
            fields_of(x, out)


def shortcut(ctx, facts, cfg):
    R = 'C11.d-all-present-shortcut'
    RL = roles_mod.roles(facts)
    db = RL.get(ctx, 'dec.begin', R, cfg)
    if db is None:
        return
    found = False
    for (a, conds, env) in ok_payloads(db):
        fs = set()
        fields_of(RL.norm(hcanon(a, env), db.path), fs)
        if fs:
            continue        # a payload-carrying exit
        if True:
            atoms = [(RL.norm(c, db.path), p) for c, p in core.flatten_conds(conds, env)]
            from .c06 import cmp_atom
            cm = [cmp_atom(c, p) for c, p in atoms]
            cm = [c for c in cm if c]
            oc, orc = ('field', SELF, 'original_count'), ('field', SELF, 'original_received_count')
            def same_count(c):
                # `a == b`, also written `a - b == 0` (`let missing = self.original_count - self.original_received_count;`)
                if c[0] != 'eq':
                    return False
                d_ = c05.lin(('bin', 'Sub', c[1], c[2]))
                w_ = c05.lin(('bin', 'Sub', oc, orc))
                n_ = c05.lin(('bin', 'Sub', orc, oc))
                return d_ in (w_, n_)
            if any(same_count(c) for c in cm):
                found = True
                ctx.ok(R, 'decode_begin:None-iff-all-originals@%s' % cfg, {'conditions': [('' if p else 'not ') + hshow(c) for c, p in atoms]})
            else:
                ctx.violation(R, 'none-condition', 'decode_begin returns Ok(None) under %s, expected original_received_count == original_count'
                              % [('' if p else 'not ') + hshow(c) for c, p in atoms], site=db.span, fn=db.path, cfg=cfg)
    if not found:
        ctx.violation(R, 'no-shortcut', 'decode_begin has no `Ok(None)` path for a complete set of originals', site=db.span, fn=db.path, cfg=cfg)
    for p, fn in sorted(facts.fns.items()):
        if fn.impl_trait == 'rate::RateDecoder' and fn.name == 'decode' and not (fn.impl_self_adt or '').startswith('rate::rate_default'):
            # the let-else on decode_begin()? : else block = `return Ok(DecoderResult::new(&mut self.work))` only
            lets = core.hir_find(fn.hir['value'], lambda n: n.get('k') == 'let' and 'else' in n)
            okk = False
            for (n, _) in lets:
                if not core.hir_find(n.get('init'), lambda m: m.get('k') == 'mcall' and m.get('path') == RL.fn.get('dec.begin')):
                    continue
                eb = n['else']
                calls = core.hir_find(eb, lambda m: m.get('k') in ('call', 'mcall'))
                names = [(m.get('path') or (m['f'].get('path') if m.get('k') == 'call' and m['f'].get('k') == 'path' else None)) for m, _ in calls]
                extra = [x for x in names if x and not (x.endswith('::Ok') or x.endswith('DecoderResult::<\'a>::new') or only_builds_result(facts, x))]
                assigns = core.hir_find(eb, lambda m: m.get('k') in ('assign', 'assignop'))
                if not extra and not assigns and any(x and (x.endswith("DecoderResult::<'a>::new") or only_builds_result(facts, x)) for x in names):
                    okk = True
                else:
                    ctx.violation(R, 'shortcut-touches-work', '%s does more than return the result on the nothing-to-restore path (%s)' % (p, extra),
                                  site=n.get('line'), fn=p, cfg=cfg)
            if okk:
                ctx.ok(R, '%s:untouched-result@%s' % (p, cfg), None)
            else:
                ctx.violation(R, 'no-let-else', '%s has no `let Some(..) = decode_begin()? else { return result }` shortcut (unrecognised idiom)' % p, site=fn.span, fn=p, cfg=cfg)


def only_builds_result(facts, path):
    """a private method of the work type whose whole body is `DecoderResult::new(self)`: no other crate call, no assignment"""
    g = facts.fns.get(path)
    if g is None or g.reachable or g.impl_self_adt != roles_mod.DEC_WORK or not g.hir:
        return False
    calls = [t['callee'].get('path') for b, t in g.body.calls() if t['callee'].get('local')]
    if calls != ["decoder_result::DecoderResult::<'a>::new"]:
        return False
    if core.hir_find(g.hir['value'], lambda m: m.get('k') in ('assign', 'assignop')):
        return False
    return not any(summ.ext_kind(t['callee'].get('path') or '') == 'mut' for b, t in g.body.calls())


def placement(ctx, facts, cfg):
    """decode() hard-codes a layout (loops over `received[i]`); reset configured one (base positions).  They must agree."""
    R = 'C11.e-placement-agreement'
    RL = roles_mod.roles(facts)
    full = RL.fn.get('dec.reset')
    if full is None:
        ctx.violation(R, 'role-missing:dec.reset', 'unrecognised idiom: explicit reset of DecoderWork not identified', cfg=cfg)
        return
    n = 0
    for p, fn in sorted(facts.fns.items()):
        if not (fn.impl_trait == 'rate::RateDecoder' and fn.name == 'decode' and not (fn.impl_self_adt or '').startswith('rate::rate_default')):
            continue
        adt = fn.impl_self_adt
        # configured bases: arguments 4,5 of the explicit reset in a helper of the same type
        bases = None
        # (the helper that configures the work object may live on another private type: anything reachable from this decoder's
        # own new / reset counts)
        from .core import callgraph as _cgf
        own_roots = [q_ for q_, g_ in facts.fns.items() if g_.impl_self_adt == adt and g_.impl_trait == 'rate::RateDecoder' and g_.name in ('new', 'reset')]
        reach_own, _ = _cgf(facts).reachable(own_roots) if own_roots else (set(), None)
        for q, g in facts.fns.items():
            if g.impl_self_adt != adt and q not in reach_own:
                continue
            for b, t in g.body.calls():
                if t['callee'].get('path') == full and len(t['args']) >= 6:
                    pn = g.param_names()
                    usz = [x for i, x in enumerate(pn) if g.body.local_ty(i + 1) == 'usize']
                    ren = {usz[0]: 'O', usz[1]: 'R'} if len(usz) >= 2 else {}
                    rp_ = getattr(RL, 'reset_param_roles', {}).get('dec') or {}
                    inv_ = {r_: i_ for i_, r_ in rp_.items()}
                    i4, i5 = inv_.get('original_base_pos', 4), inv_.get('recovery_base_pos', 5)
                    if max(i4, i5) >= len(t['args']):
                        i4, i5 = 4, 5
                    bases = (rn(core.strip_var_ids(g.body.canon_op(t['args'][i4])), ren), rn(core.strip_var_ids(g.body.canon_op(t['args'][i5])), ren))
        if bases is None:
            ctx.violation(R, 'no-config:%s' % core.short(adt), 'cannot find where %s configures the base positions of its work object' % adt, fn=p, cfg=cfg)
            continue
        # decode: which local holds which part of the begin() payload
        db = RL.get(ctx, 'dec.begin', R, cfg)
        if db is None:
            continue
        pls = begin_payload(facts, RL, db)
        names = None
        if pls:
            kind, rl, _ = pls[0]
            lets = core.hir_find(fn.hir['value'], lambda m: m.get('k') == 'let' and 'init' in m and
                                 core.hir_find(m['init'], lambda x: x.get('k') == 'mcall' and x.get('path') == db.path))
            for (m, _) in lets:
                role_of = {}
                if kind == 'tuple':
                    for (tp, _) in core.hir_find(m['pat'], lambda x: x.get('k') in ('tuple', 'tuplestruct') and len(x.get('pats', [])) == len(rl)):
                        for (name, r), pt in zip(rl, tp['pats']):
                            if pt.get('k') == 'bind' and len(r) == 1:
                                role_of[r[0]] = pt['name']
                else:
                    for (sp, _) in core.hir_find(m['pat'], lambda x: x.get('k') == 'struct' and x.get('fields')):
                        byname = dict(rl)
                        for fpat in sp['fields']:
                            r = byname.get(fpat['name'])
                            if r and len(r) == 1 and fpat['pat'].get('k') == 'bind':
                                role_of[r[0]] = fpat['pat']['name']
                if {'shards', 'original_count', 'recovery_count', 'received'} <= set(role_of):
                    names = [role_of['shards'], role_of['original_count'], role_of['recovery_count'], role_of['received']]
        if not names:
            ctx.violation(R, 'no-begin-pattern', 'unrecognised idiom: %s does not destructure the (store, original_count, recovery_count, bitmap) payload of the work object' % p, fn=p, cfg=cfg)
            continue
        work, oc, rc, recv = names
        ren = {oc: 'O', rc: 'R'}
        ev = c05.Events(fn)
        regions = {'orig': [], 'rec': []}
        reveal = []
        for e in ev.events:
            if e['kind'] != 'for':
                continue
            cl = core.counted_loop(e['iter'], e['pat'])
            if cl is None:
                continue
            ivar = cl[0]
            rng = (cl[1] if cl[1] is not None else {'k': 'lit', 'int': 0, 'ty': 'usize'}, cl[2])
            uses_recv = core.hir_find(e['body'], lambda m: m.get('k') == 'index' and hcanon(m['base']) == ('local', recv) and hcanon(m['idx']) == ('local', ivar))
            if not uses_recv:
                continue
            st = rn(local_to_sym(hcanon(rng[0], e['env'])), ren)
            en = rn(local_to_sym(hcanon(rng[1], e['env'])), ren)
            length = c05.lin(('bin', 'Sub', en, st))
            kind = 'orig' if length == c05.lin(('sym', 'O')) else ('rec' if length == c05.lin(('sym', 'R')) else None)
            if kind is None:
                # one loop over a stretch of absolute positions that contains a configured region whole (bitmap and buffers
                # are indexed by the position itself, so placement agrees by construction inside it)
                inside = []
                for kd, base, cnt in (('orig', bases[0], ('sym', 'O')), ('rec', bases[1], ('sym', 'R'))):
                    if _nonneg(('bin', 'Sub', sym(base), st)) and _nonneg(('bin', 'Sub', en, ('bin', 'Add', sym(base), cnt))):
                        inside.append((kd, base))
                if inside:
                    for kd, base in inside:
                        regions[kd].append((sym(base), e['node'].get('line')))
                    continue
            if kind is None:
                ctx.violation(R, 'odd-region:%s' % core.short(adt), '%s loops over received[%s..%s], which is neither original_count nor recovery_count positions long'
                              % (p, hshow(st), hshow(en)), site=e['node'].get('line'), fn=p, cfg=cfg)
                continue
            regions[kind].append((st, e['node'].get('line')))
        for kind, base in (('orig', bases[0]), ('rec', bases[1])):
            if not regions[kind]:
                ctx.violation(R, 'no-%s-region:%s' % (kind, core.short(adt)), '%s has no loop over the %s positions of the bitmap' % (p, kind), fn=p, cfg=cfg)
                continue
            for st, line in regions[kind]:
                n += 1
                if c05.lin(st) == c05.lin(sym(base)):
                    ctx.ok(R, '%s:%s@%s:%s' % (core.short(adt), kind, cfg, line.split(':')[-1]), {'region_starts_at': hshow(st), 'configured_base': core.show(base)})
                else:
                    ctx.violation(R, 'misplaced-%s:%s' % (kind, core.short(adt)),
                                  '%s treats positions from %s on as %s shards, but reset configured their base position as %s (where add_* stores them and the accessor reads them)'
                                  % (p, hshow(st), 'original' if kind == 'orig' else 'recovery', core.show(base)), site=line, fn=p, cfg=cfg)
    # (every decoder needs both kinds of region: 'no-orig-region' / 'no-rec-region' above; how many loops visit them is free)
    ctx.floor(R, 4, n, 'bitmap-indexed regions in the decoders', cfg=cfg)


def rn(c, ren):
    if not isinstance(c, tuple):
        return c
    if c and c[0] in ('param', 'local', 'var') and len(c) >= 2 and c[1] in ren:
        return ('sym', ren[c[1]])
    return tuple(rn(x, ren) for x in c)


def sym(c):
    return c


def local_to_sym(c):
    return c


def _nonneg(c):
    """is the canonical integer expression provably >= 0, for unsigned atoms, using npo2(x) >= x ?
    c is put in linear form; per atom x: coefficient a on x and b on next_power_of_two(x) need b >= 0 and a + b >= 0"""
    const, terms = c05.lin(c)
    if const < 0:
        return False
    coef = {}
    for trepr, k in terms:
        coef[trepr] = k
    done = set()
    for trepr, k in terms:
        m = re.match(r"^\('call', '[^']*next_power_of_two', \((.*),\)\)$", trepr)
        if m:
            inner = m.group(1)
            a = coef.get(inner, 0)
            if k < 0 or a + k < 0:
                return False
            done.add(trepr)
            done.add(inner)
    for trepr, k in terms:
        if trepr in done:
            continue
        if k < 0:
            return False
    return True


def final_transform_covers(ctx, facts, cfg):
    R = 'C11.i-final-transform-covers-revealed'
    n = 0
    for p, fn in sorted(facts.fns.items()):
        if not (fn.impl_trait == 'rate::RateDecoder' and fn.name == 'decode' and not (fn.impl_self_adt or '').startswith('rate::rate_default')):
            continue
        ev = c05.Events(fn)
        ffts = [e for e in ev.events if e['kind'] == 'call' and e['node'].get('k') == 'mcall' and e['node'].get('name') == 'fft'
                and (e['node'].get('trait') or '').endswith('Engine') and len(e['node'].get('args', [])) == 5]
        if not ffts:
            ctx.violation(R, 'no-fft', '%s has no final Engine::fft call this rule can see' % p, site=fn.span, fn=p, cfg=cfg)
            continue
        last = max(ffts, key=lambda e: e['order'])
        a = last['node']['args']
        data = hcanon(a[0], last['env'])
        pos, trunc = (core.inline_calls(hcanon(a[x], last['env']), facts) for x in (1, 3))
        reveals = []
        for e in ev.events:
            if e['kind'] != 'for' or e['order'] < last['order']:
                continue
            cl = core.counted_loop(e['iter'], e['pat'])
            if cl is None:
                continue
            ivar = cl[0]
            # the loop body reads / multiplies work[i]
            def root(c):
                while isinstance(c, tuple) and c and c[0] in ('ref', 'deref', 'field', 'index'):
                    c = c[1]
                return c
            uses = core.hir_find(e['body'], lambda m: m.get('k') == 'index' and hcanon(m['idx']) == ('local', ivar) and root(hcanon(m['base'], e['env'])) == root(data))
            if not uses:
                continue
            lo = core.inline_calls(hcanon(cl[1], e['env']), facts) if cl[1] is not None else ('const', 0)
            hi = core.inline_calls(hcanon(cl[2], e['env']), facts)
            reveals.append((lo, hi, e['node'].get('line')))
        if not reveals:
            ctx.violation(R, 'no-reveal', '%s has no loop over positions after its final FFT' % p, site=fn.span, fn=p, cfg=cfg)
            continue
        for lo, hi, line in reveals:
            n += 1
            end = ('bin', 'Add', pos, trunc)
            ok_lo = _nonneg(('bin', 'Sub', lo, pos))
            ok_hi = _nonneg(('bin', 'Sub', end, hi))
            if ok_lo and ok_hi:
                ctx.ok(R, '%s:%s@%s' % (p, (line or '').split(':')[-1], cfg), {'revealed': '%s..%s' % (hshow(lo), hshow(hi)), 'fft_output': '%s..%s' % (hshow(pos), hshow(end))})
            else:
                ctx.violation(R, 'uncovered', '%s reads back positions %s..%s after a final FFT that was asked for positions %s..%s only: %s cannot be shown (restored shards in the uncovered part would be garbage, depending on which shards were given)'
                              % (p, hshow(lo), hshow(hi), hshow(pos), hshow(end), 'start >= pos' if not ok_lo else 'end <= pos + truncated_size'), site=line, fn=p, cfg=cfg)
    ctx.floor(R, 2, n, 'reveal loops after the final FFT', cfg=cfg)
