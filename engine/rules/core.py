"""Core of the rule engine: fact loading, CFG, dominators, call graph, canonical
expressions over MIR.  Python stdlib only."""
import copy, json, re, sys
from collections import defaultdict, deque

# --------------------------------------------------------------------------- facts


class Facts:
    def __init__(self, path, cfg):
        with open(path) as f:
            self.raw = json.load(f)
        self.cfg = cfg
        self.path = path
        r = self.raw
        self.crate = r['crate']
        self.target = r['target']
        self.pointer_bits = r['pointer_bits']
        self.fns = FnTable()
        for x in r['fns']:
            self.fns[x['path']] = Fn(self, x)
        self.statics = {x['path']: x for x in r['statics']}
        for s in self.statics.values():
            s['body'] = Body(self, s['mir'], s['path'])
        self.adts = {x['path']: x for x in r['adts']}
        self.impls = r['impls']
        self.traits = {x['path']: x for x in r['traits']}
        self.instances = r['instances']
        self.externs = {x['path']: x for x in r['externs']}
        self.layouts = r['layouts']
        self.other_items = r['other_items']
        self._cg = None
        # public free functions are anchored by their exported name: which private module defines them is not observable
        for name in ('encode', 'decode'):
            if name not in self.fns:
                cands = [f for f in self.fns.values() if f.name == name and f.kind == 'Fn' and f.reachable and not f.impl_self_adt and not f.impl_trait]
                if len(cands) == 1:
                    f = cands[0]
                    dict.__delitem__(self.fns, f.path)
                    f.defined_at = f.path
                    f.path = name
                    f.x['path'] = name
                    f.body.owner = name
                    self.fns[name] = f
        try:
            self.mono = monomorphise_private_generics(self)
        except Exception as e:
            self.mono_error = '%s: %s' % (type(e).__name__, e)
        self.consts = {x['path']: x['val'] for x in self.other_items if 'val' in x}
        CONST_VALUES.update(self.consts)
        for f in self.fns.values():
            if f.hir:
                f.hir = model_std_hir(f.hir, self)
                f.x['hir'] = f.hir
        for f in self.fns.values():
            if f.hir and f.kind != 'Closure':
                try:
                    f.hir = split_chain_loops(f.hir, self)
                    f.x['hir'] = f.hir
                except Exception as e:
                    self.chain_error = '%s: %s' % (type(e).__name__, e)
        for f in self.fns.values():
            if f.hir and f.kind != 'Closure':
                try:
                    f.hir = defilter_loops(f.hir, self)
                    f.x['hir'] = f.hir
                except Exception as e:
                    self.chain_error = '%s: %s' % (type(e).__name__, e)
        for f in self.fns.values():
            m2 = model_std_calls(f.body.mir, self, f.path)
            if m2 is not None:
                f.x['mir'] = m2
                f.body = Body(self, m2, f.path)
        try:
            devirt_provided_forwarders(self)
        except Exception as e:
            self.devirt_error = '%s: %s' % (type(e).__name__, e)
        try:
            self.enum_specialised = 0
            for _round in range(3):
                n_ = specialise_on_enum_consts(self)
                self.enum_specialised += n_
                if not n_:
                    break
        except Exception as e:
            self.enum_spec_error = '%s: %s' % (type(e).__name__, e)
        try:
            self.ctor_inlined = inline_trivial_constructors(self)
        except Exception as e:
            self.ctor_error = '%s: %s' % (type(e).__name__, e)
        self.sroa = []
        try:
            sroa_private_params(self)
        except Exception as e:
            self.sroa_error = '%s: %s' % (type(e).__name__, e)
        self.flat = {}
        try:
            flatten_private_aggregates(self)
        except Exception as e:      # never let the normalisation take the analysis down: without it the rules fail closed
            self.flat_error = '%s: %s' % (type(e).__name__, e)

    # ---- lookup helpers
    def fn(self, path):
        return self.fns.get(path)

    def find_fns(self, pred):
        return [f for f in self.fns.values() if pred(f)]

    def impls_of_trait(self, trait):
        return [i for i in self.impls if i.get('trait') == trait]

    def trait_impl_fn(self, trait, self_adt_suffix, name):
        """<X as Trait>::name where X's printed type starts with the adt path."""
        for f in self.fns.values():
            if f.impl_trait == trait and f.name == name and f.impl_self_adt and \
                    f.impl_self_adt.endswith(self_adt_suffix):
                return f
        return None

    def stats(self):
        nb = sum(len(f.body.blocks) for f in self.fns.values())
        ne = sum(1 for f in self.fns.values() for b in f.body.blocks if b['term']['k'] == 'call')
        return {'cfg': self.cfg, 'target': self.target, 'functions': len(self.fns),
                'blocks': nb, 'call_sites': ne, 'instances': len(self.instances),
                'extern_callees': len(self.externs)}


class FnTable(dict):
    """fn path -> Fn.  Synthetic functions (bodies with private helpers inlined) are found by key but are not
    part of any iteration over the program."""

    def __init__(self):
        super().__init__()
        self.synth = {}

    def __missing__(self, k):
        return self.synth[k]

    def get(self, k, d=None):
        v = dict.get(self, k)
        if v is None:
            v = self.synth.get(k, d)
        return v

    def __contains__(self, k):
        return dict.__contains__(self, k) or k in self.synth


class Fn:
    def __init__(self, facts, x):
        self.facts = facts
        self.x = x
        self.path = x['path']
        self.name = x['name']
        self.kind = x['kind']
        self.span = x['span']
        self.reachable = x['reachable']
        self.unsafe = x['unsafe']
        self.target_features = set(x['target_features'])
        self.inline = x['inline']
        self.impl_self = x.get('impl_self')
        self.impl_self_adt = x.get('impl_self_adt')
        self.impl_trait = x.get('impl_trait')
        self.trait_item = x.get('trait_item')
        self.in_trait = x.get('in_trait')
        self.closure_parent = x.get('closure_parent')
        self.inputs = x.get('inputs', [])
        self.output = x.get('output')
        self.hir = x['hir']
        self.body = Body(facts, x['mir'], self.path)

    def __repr__(self):
        return 'Fn(%s)' % self.path

    @property
    def file(self):
        return self.span.rsplit(':', 1)[0]

    def param_names(self):
        b = self.body
        return [b.locals[i + 1].get('name') for i in range(b.arg_count)]


# --------------------------------------------------------------------------- MIR body


def place_local(p):
    return p['l']


def place_is_local(p):
    return not p['p']


def op_place(op):
    if 'copy' in op:
        return op['copy']
    if 'move' in op:
        return op['move']
    return None


def op_const(op):
    return op.get('const')


def proj_str(pr):
    if pr == '*':
        return '*'
    if 'f' in pr:
        return '.' + pr['f']
    if 'idx' in pr:
        return '[_%d]' % pr['idx']
    if 'cidx' in pr:
        return '[%d]' % pr['cidx']
    if 'down' in pr:
        return ' as ' + pr['down']
    if 'sub' in pr:
        return '[%d:%d]' % tuple(pr['sub'])
    return '?'


class Body:
    def __init__(self, facts, mir, owner):
        self.facts = facts
        self.owner = owner
        self.mir = mir
        self.blocks = mir['blocks']
        self.locals = mir['locals']
        self.arg_count = mir['arg_count']
        self.n = len(self.blocks)
        self._succ = None
        self._pred = None
        self._dom = {}
        self._defs = None

    # ---- CFG
    def term(self, b):
        return self.blocks[b]['term']

    def raw_succs(self, b):
        t = self.blocks[b]['term']
        k = t['k']
        if k == 'goto':
            return [t['target']]
        if k == 'switch':
            return [x[1] for x in t['targets']] + [t['otherwise']]
        if k in ('call',):
            return [t['target']] if t['target'] is not None else []
        if k in ('assert', 'drop'):
            return [t['target']]
        return []

    def succs(self, b):
        if self._succ is None:
            self._succ = [[s for s in self.raw_succs(i) if not self.blocks[s]['cleanup']]
                          for i in range(self.n)]
        return self._succ[b]

    def preds(self, b):
        if self._pred is None:
            self._pred = [[] for _ in range(self.n)]
            for i in range(self.n):
                if self.blocks[i]['cleanup']:
                    continue
                for s in self.succs(i):
                    self._pred[s].append(i)
        return self._pred[b]

    def reachable_from(self, start, removed_edges=frozenset(), stop=frozenset()):
        seen = {start}
        dq = deque([start])
        while dq:
            b = dq.popleft()
            if b in stop and b != start:
                continue
            for s in self.succs(b):
                if (b, s) in removed_edges:
                    continue
                if s not in seen:
                    seen.add(s)
                    dq.append(s)
        return seen

    # ---- drop-flag aware reachability
    def flag_locals(self):
        """bool locals all of whose definitions are constant assignments (compiler drop flags and the like)"""
        if getattr(self, '_flags', None) is not None:
            return self._flags
        out = set()
        for l, ds in self.defs().items():
            if self.locals[l]['ty'] != 'bool' or not ds or (1 <= l <= self.arg_count):
                continue
            ok = True
            for d in ds:
                if d[0] != 'stmt':
                    ok = False
                    break
                st = self.blocks[d[1]]['stmts'][d[2]]
                rv = st.get('rv', {})
                if not (st['k'] == 'assign' and rv.get('k') == 'use' and 'const' in rv['op'] and 'val' in rv['op']['const']):
                    ok = False
                    break
            if ok:
                out.add(l)
        self._flags = out
        return out

    def _flag_transfer(self, b, state):
        state = dict(state)
        for st in self.blocks[b]['stmts']:
            if st['k'] == 'assign' and not st['lhs']['p'] and st['lhs']['l'] in self.flag_locals():
                state[st['lhs']['l']] = frozenset([st['rv']['op']['const']['val']])
        return state

    def _flag_succs(self, b, state):
        t = self.term(b)
        if t['k'] == 'switch':
            pl = op_place(t['discr'])
            src = None
            if pl is not None and not pl['p']:
                if pl['l'] in self.flag_locals():
                    src = pl['l']
                else:
                    ds = [d for d in self.defs().get(pl['l'], []) if d[0] == 'stmt']
                    if len(ds) == 1:
                        st = self.blocks[ds[0][1]]['stmts'][ds[0][2]]
                        sp = op_place(st['rv']['op']) if st['k'] == 'assign' and st['rv']['k'] == 'use' else None
                        if sp is not None and not sp['p'] and sp['l'] in self.flag_locals():
                            src = sp['l']
            if src is not None and src in state:
                vals = state[src]
                outs = []
                listed = set()
                for v, tgt in t['targets']:
                    listed.add(v)
                    if v in vals:
                        outs.append(tgt)
                if any(v not in listed for v in vals):
                    outs.append(t['otherwise'])
                return [x for x in outs if not self.blocks[x]['cleanup']]
        return self.succs(b)

    def flag_states(self):
        """forward dataflow: possible constant values of every flag local at block entry"""
        if getattr(self, '_fstates', None) is not None:
            return self._fstates
        IN = {0: {}}
        work = [0]
        n = 0
        while work and n < 50000:
            n += 1
            b = work.pop()
            out = self._flag_transfer(b, IN[b])
            for s in self._flag_succs(b, out):
                old = IN.get(s)
                if old is None:
                    IN[s] = dict(out)
                    work.append(s)
                else:
                    new = dict(old)
                    ch = False
                    for k2 in set(old) | set(out):
                        a, c = old.get(k2), out.get(k2)
                        if a is None or c is None:
                            if k2 in new:
                                del new[k2]
                                ch = True
                            continue
                        u = a | c
                        if u != a:
                            new[k2] = u
                            ch = True
                    if ch:
                        IN[s] = new
                        work.append(s)
        self._fstates = IN
        return IN

    def reachable_flagged(self, start):
        """blocks reachable from `start`, following flag-consistent edges only (the flag state at `start`
        is the dataflow state there, then refined along the way)"""
        IN = self.flag_states()
        st0 = IN.get(start, {})
        seen = {}
        work = [(start, st0)]
        out = set()
        n = 0
        while work and n < 50000:
            n += 1
            b, stt = work.pop()
            key = (b, tuple(sorted((k, tuple(sorted(v))) for k, v in stt.items())))
            if key in seen:
                continue
            seen[key] = True
            out.add(b)
            o = self._flag_transfer(b, stt)
            for s in self._flag_succs(b, o):
                work.append((s, o))
        return out

    def const_pruned_edges(self):
        """M1: edges of SwitchInt on a local whose only definition is a constant."""
        removed = set()
        for b in range(self.n):
            t = self.term(b)
            if t['k'] != 'switch':
                continue
            pl = op_place(t['discr'])
            v = None
            hops = 0
            while pl is not None and not pl['p'] and hops < 6:
                # the discriminant, or the single-definition local it was copied from, is assigned a constant
                ds = self.defs().get(pl['l'], [])
                if len(ds) != 1 or ds[0][0] != 'stmt':
                    break
                rv = self.blocks[ds[0][1]]['stmts'][ds[0][2]]['rv']
                if rv['k'] != 'use':
                    break
                if 'const' in rv['op']:
                    v = rv['op']['const'].get('val')
                    break
                pl = op_place(rv['op'])
                hops += 1
            if v is None:
                continue
            taken = None
            for (val, tgt) in t['targets']:
                if val == v:
                    taken = tgt
            if taken is None:
                taken = t['otherwise']
            for s in self.raw_succs(b):
                if s != taken:
                    removed.add((b, s))
        return removed

    def dominators(self, removed_edges=frozenset(), entry=0):
        key = (frozenset(removed_edges), entry)
        if key in self._dom:
            return self._dom[key]
        reach = self.reachable_from(entry, removed_edges)
        order = sorted(reach)
        dom = {b: set(order) for b in order}
        dom[entry] = {entry}
        preds = {b: [p for p in self.preds(b) if p in reach and (p, b) not in removed_edges]
                 for b in order}
        changed = True
        while changed:
            changed = False
            for b in order:
                if b == entry:
                    continue
                ps = preds[b]
                if not ps:
                    new = {b}
                else:
                    new = set.intersection(*[dom[p] for p in ps]) | {b}
                if new != dom[b]:
                    dom[b] = new
                    changed = True
        self._dom[key] = dom
        return dom

    def dominates(self, a, b, removed_edges=frozenset()):
        dom = self.dominators(removed_edges)
        return b in dom and a in dom[b]

    def edge_dominates(self, edge, b, removed_edges=frozenset()):
        """Does every path entry->b use edge (u,v)?  (b unreachable once edge removed)"""
        reach_full = self.reachable_from(0, removed_edges)
        if b not in reach_full:
            return True  # vacuous
        reach = self.reachable_from(0, set(removed_edges) | {edge})
        return b not in reach

    def exits(self):
        return [b for b in range(self.n) if self.term(b)['k'] == 'return'
                and not self.blocks[b]['cleanup']]

    # ---- defs
    def defs(self):
        """local -> list of ('stmt',bb,i) | ('call',bb) | ('arg',) for whole-local writes
        (projected writes recorded as ('part',bb,i))."""
        if self._defs is not None:
            return self._defs
        d = defaultdict(list)
        for a in range(1, self.arg_count + 1):
            d[a].append(('arg',))
        for b in range(self.n):
            blk = self.blocks[b]
            for i, st in enumerate(blk['stmts']):
                if st['k'] in ('assign', 'setdiscr'):
                    l = st['lhs']
                    if not l['p']:
                        d[l['l']].append(('stmt', b, i))
                    elif l['p'][0] == '*':
                        pass        # a write through a pointer does not redefine the pointer
                    else:
                        d[l['l']].append(('part', b, i))
            t = blk['term']
            if t['k'] == 'call':
                l = t['dest']
                if not l['p']:
                    d[l['l']].append(('call', b))
                elif l['p'][0] == '*':
                    pass
                else:
                    d[l['l']].append(('partcall', b))
        self._defs = d
        return d

    def local_name(self, l):
        return self.locals[l].get('name')

    def local_ty(self, l):
        return self.locals[l]['ty']

    def calls(self):
        """iterate (bb, term) for call terminators in non-cleanup blocks"""
        for b in range(self.n):
            if self.blocks[b]['cleanup']:
                continue
            t = self.blocks[b]['term']
            if t['k'] == 'call':
                yield b, t

    # ---- canonical expressions (M-canon)
    def canon_op(self, op, depth=0, expand_named=True):
        c = op_const(op)
        if c is not None:
            if 'val' in c:
                return ('const', c['val'])
            if 'fn' in c:
                return ('fn', c['fn'])
            if 'static' in c:
                return ('static', c['static'])
            return ('sym', c.get('sym', '?'))
        pl = op_place(op)
        if pl is None:
            return ('?',)
        return self.canon_place(pl, depth, expand_named)

    def canon_place(self, pl, depth=0, expand_named=True):
        base = self.canon_local(pl['l'], depth, expand_named)
        for pr in pl['p']:
            if pr == '*':
                if base[0] == 'ref':
                    base = base[1]
                else:
                    base = ('deref', base)
            elif 'f' in pr:
                # field of checked-arith tuple
                if base[0] == 'checked' and pr['f'] in ('0', '1'):
                    base = base[1] if pr['f'] == '0' else ('overflow', base[1])
                elif base[0] == 'tuple' and pr['f'].isdigit() and int(pr['f']) < len(base[1]):
                    base = base[1][int(pr['f'])]
                elif base[0] == 'agg' and base[1] == 'closure' and pr['f'].isdigit() and int(pr['f']) < len(base[2]):
                    base = base[2][int(pr['f'])]         # captured variable of a closure value
                elif base[0] == 'adt' and len(base) == 4 and pr['f'] in dict(base[3]):
                    base = dict(base[3])[pr['f']]        # field of a struct literal
                elif pr.get('of') in self.facts.flat and base[0] == 'field' and isinstance(base[2], str):
                    base = ('field', base[1], base[2] + '.' + pr['f'])      # field of a flattened private sub-object
                else:
                    base = ('field', base, pr['f'])
            elif 'idx' in pr:
                base = ('index', base, self.canon_local(pr['idx'], depth, expand_named))
            elif 'cidx' in pr:
                base = ('index', base, ('const', pr['cidx']))
            elif 'down' in pr:
                if base[0] == 'variants' and pr['down'] in dict(base[2]):
                    base = dict(base[2])[pr['down']]            # the definition of that variant
                elif base[0] == 'adt' and len(base) == 4 and base[2] == pr['down']:
                    pass                                        # a literal of that very variant: its fields follow
                else:
                    base = ('down', base, pr['down'])
            else:
                base = ('proj', base, json.dumps(pr, sort_keys=True))
        return base

    def canon_local(self, l, depth=0, expand_named=True):
        if depth > 40:
            return ('deep', l)
        name = self.local_name(l)
        if 1 <= l <= self.arg_count:
            return ('param', name or ('_%d' % l))
        ds = self.defs().get(l, [])
        whole = [d for d in ds if d[0] in ('stmt', 'call', 'arg')]
        parts = [d for d in ds if d[0] in ('part', 'partcall')]
        if name is not None and (not expand_named or len(whole) != 1 or parts
                                 or self.locals[l].get('mut')):
            return ('var', name, l)
        if len(whole) > 1 and not parts and name is None and all(d[0] == 'stmt' for d in whole):
            # a temporary built as a different variant of one enum on different paths (`Continue(x)` here, `Break(e)` there):
            # a downcast later selects the definition that can have reached it
            rvs = [self.blocks[d[1]]['stmts'][d[2]].get('rv', {}) for d in whole]
            if all(rv.get('k') == 'agg' and rv.get('agg') == 'adt' for rv in rvs) and len({rv.get('adt') for rv in rvs}) == 1 \
                    and len({rv.get('variant') for rv in rvs}) == len(rvs):
                return ('variants', rvs[0]['adt'], tuple((rv['variant'], self.canon_rv(rv, depth + 1, expand_named)) for rv in rvs))
        if len(whole) != 1 or parts:
            return ('tmp', l)
        d = whole[0]
        if d[0] == 'call':
            t = self.term(d[1])
            cal = t['callee']
            return ('call', cal.get('key') or cal.get('path') or '?',
                    tuple(self.canon_op(a, depth + 1, expand_named) for a in t['args']), d[1])
        st = self.blocks[d[1]]['stmts'][d[2]]
        if st['k'] != 'assign':
            return ('tmp', l)
        return self.canon_rv(st['rv'], depth + 1, expand_named)

    def canon_rv(self, rv, depth=0, expand_named=True):
        k = rv['k']
        if k == 'use':
            return self.canon_op(rv['op'], depth, expand_named)
        if k == 'ref' or k == 'rawptr':
            inner = self.canon_place(rv['place'], depth, expand_named)
            if inner[0] == 'deref':
                return inner[1]   # reborrow &*x == x
            return ('ref', inner)
        if k == 'bin':
            op = rv['op']
            a = self.canon_op(rv['a'], depth, expand_named)
            b = self.canon_op(rv['b'], depth, expand_named)
            if op.endswith('WithOverflow'):
                return ('checked', norm_bin(op[:-len('WithOverflow')], a, b))
            return norm_bin(op, a, b)
        if k == 'un':
            return ('un', rv['op'], self.canon_op(rv['a'], depth, expand_named))
        if k == 'cast':
            inner = self.canon_op(rv['op'], depth, expand_named)
            return ('cast', rv['ty'], inner)
        if k == 'discr':
            return ('discr', self.canon_place(rv['place'], depth, expand_named))
        if k == 'agg':
            ops = tuple(self.canon_op(o, depth, expand_named) for o in rv['ops'])
            if rv['agg'] == 'tuple':
                return ('tuple', ops)
            if rv['agg'] == 'adt':
                return ('adt', rv['adt'], rv['variant'], tuple(zip(rv['fields'], ops)))
            return ('agg', rv['agg'], ops)
        if k == 'repeat':
            return ('repeat', self.canon_op(rv['op'], depth, expand_named), rv['n'])
        return ('other', rv.get('dbg', k))


COMMUT = {'Add', 'Mul', 'BitAnd', 'BitOr', 'BitXor', 'Eq', 'Ne'}
FLIP = {'Lt': 'Gt', 'Gt': 'Lt', 'Le': 'Ge', 'Ge': 'Le'}


def norm_bin(op, a, b):
    if op.endswith('Unchecked'):
        op = op[:-len('Unchecked')]
    if op in COMMUT and repr(b) < repr(a):
        a, b = b, a
    if op in ('Gt', 'Ge'):
        op, a, b = FLIP[op], b, a
    return ('bin', op, a, b)


def show(c):
    """Readable rendering of a canonical expression."""
    if not isinstance(c, tuple):
        return str(c)
    k = c[0]
    if k == 'param' or k == 'var':
        return c[1]
    if k == 'const':
        return str(c[1])
    if k == 'field':
        return '%s.%s' % (show(c[1]), c[2])
    if k == 'deref':
        return '*' + show(c[1])
    if k == 'ref':
        return '&' + show(c[1])
    if k == 'bin':
        sym = {'Add': '+', 'Sub': '-', 'Mul': '*', 'Lt': '<', 'Le': '<=', 'Eq': '==', 'Ne': '!=',
               'BitAnd': '&', 'BitOr': '|', 'Shl': '<<', 'Shr': '>>', 'Rem': '%', 'Div': '/',
               'BitXor': '^'}.get(c[1], c[1])
        return '(%s %s %s)' % (show(c[2]), sym, show(c[3]))
    if k == 'call':
        return '%s(%s)' % (short(c[1]), ', '.join(show(a) for a in c[2]))
    if k == 'cast':
        return '(%s as %s)' % (show(c[2]), c[1])
    if k == 'index':
        return '%s[%s]' % (show(c[1]), show(c[2]))
    if k == 'checked':
        return show(c[1])
    if k == 'tmp':
        return '_%d' % c[1]
    if k == 'adt':
        return '%s::%s{%s}' % (short(c[1]), c[2], ', '.join('%s: %s' % (n, show(v)) for n, v in c[3]))
    if k == 'tuple':
        return '(%s)' % ', '.join(show(x) for x in c[1])
    if k == 'un':
        return '%s(%s)' % (c[1], show(c[2]))
    if k == 'down':
        return '(%s as %s)' % (show(c[1]), c[2])
    if k == 'discr':
        return 'discr(%s)' % show(c[1])
    return repr(c)


def short(path):
    return re.sub(r'\b[a-z_][a-z_0-9]*::(?=[A-Za-z_])', '', path)


def strip_var_ids(c):
    """drop local indexes from ('var',name,l) so that expressions compare across bodies"""
    if not isinstance(c, tuple):
        return c
    if c and c[0] == 'var':
        return ('var', c[1])
    if c and c[0] == 'call':
        return ('call', c[1], tuple(strip_var_ids(x) for x in c[2]))
    return tuple(strip_var_ids(x) for x in c)


# --------------------------------------------------------------------------- call graph


class CallGraph:
    """Definition-level call graph with class-hierarchy expansion of unresolved
    trait-method calls (type parameter or dyn receiver) to every in-crate impl."""

    def __init__(self, facts):
        self.f = facts
        self.edges = defaultdict(set)      # caller path -> set(callee path)
        self.sites = defaultdict(list)     # caller path -> [(bb, callee path, how)]
        self.ext_sites = defaultdict(list)  # caller path -> [(bb, extern path)]
        self.callers = defaultdict(set)
        self.impl_methods = defaultdict(list)  # trait item path -> [impl fn path]
        for fn in facts.fns.values():
            if fn.trait_item:
                self.impl_methods[fn.trait_item].append(fn.path)
        bodies = [(fn.path, fn.body) for fn in facts.fns.values()]
        bodies += [(s['path'], s['body']) for s in facts.statics.values()]
        for path, body in bodies:
            for b, t in body.calls():
                self._add_call(path, b, t['callee'])
            # fn items used as values (closures, fn pointers passed along)
            for b in range(body.n):
                blk = body.blocks[b]
                if blk['cleanup']:
                    continue
                for st in blk['stmts']:
                    if st['k'] == 'assign':
                        self._scan_rv(path, b, st['rv'])
                t = blk['term']
                if t['k'] == 'call':
                    for a in t['args']:
                        self._scan_op(path, b, a)

    def _scan_rv(self, path, b, rv):
        k = rv['k']
        if k in ('use', 'cast', 'repeat'):
            self._scan_op(path, b, rv['op'])
        elif k == 'agg':
            if rv['agg'] == 'closure':
                self._edge(path, b, rv['closure'], 'closure')
            for o in rv['ops']:
                self._scan_op(path, b, o)

    def _scan_op(self, path, b, op):
        c = op.get('const')
        if c and 'fn' in c:
            p = c['fn']
            if p in self.f.fns:
                self._edge(path, b, p, 'fnref')
            else:
                self.ext_sites[path].append((b, p))

    def _edge(self, caller, b, callee, how):
        self.edges[caller].add(callee)
        self.callers[callee].add(caller)
        self.sites[caller].append((b, callee, how))

    def _add_call(self, caller, b, cal):
        if cal.get('indirect'):
            self.ext_sites[caller].append((b, '<indirect>'))
            return
        p = cal['path']
        if cal.get('unresolved') or cal.get('virtual'):
            # class-hierarchy analysis over in-crate impls
            decl = cal['decl']
            if cal.get('local'):
                impls = self.impl_methods.get(decl, [])
                for ip in impls:
                    self._edge(caller, b, ip, 'cha')
                # provided (default) body in the trait itself
                if decl in self.f.fns:
                    self._edge(caller, b, decl, 'cha-default')
            else:
                self.ext_sites[caller].append((b, p))
            return
        if p in self.f.fns:
            self._edge(caller, b, p, 'static')
        else:
            self.ext_sites[caller].append((b, p))

    def reachable(self, roots, stop=lambda p: False):
        seen = set()
        dq = deque(roots)
        parent = {}
        for r in roots:
            parent[r] = None
        while dq:
            p = dq.popleft()
            if p in seen:
                continue
            seen.add(p)
            if stop(p):
                continue
            for q in sorted(self.edges.get(p, ())):
                if q not in seen:
                    parent.setdefault(q, p)
                    dq.append(q)
        return seen, parent

    @staticmethod
    def chain(parent, p):
        out = []
        while p is not None:
            out.append(p)
            p = parent.get(p)
        return list(reversed(out))


def callgraph(facts):
    if facts._cg is None:
        facts._cg = CallGraph(facts)
    return facts._cg


# --------------------------------------------------------------------------- Result exits (M3)


def result_exits(body):
    """Returns (err_blocks, ok_blocks): blocks that assign _0 = Err(..)/from_residual, Ok(..).
    For Option: Some/None.  Each entry: (bb, kind, detail)."""
    errs, oks = [], []
    for b in range(body.n):
        blk = body.blocks[b]
        if blk['cleanup']:
            continue
        for i, st in enumerate(blk['stmts']):
            if st['k'] == 'assign' and st['lhs']['l'] == 0 and not st['lhs']['p']:
                rv = st['rv']
                if rv['k'] == 'agg' and rv['agg'] == 'adt':
                    if rv['adt'] == 'std::result::Result':
                        (errs if rv['variant'] == 'Err' else oks).append((b, 'ctor', i))
                    elif rv['adt'] == 'std::option::Option':
                        (errs if rv['variant'] == 'None' else oks).append((b, 'ctor', i))
        t = blk['term']
        if t['k'] == 'call' and t['dest']['l'] == 0 and not t['dest']['p']:
            cal = t['callee']
            if cal.get('decl') == 'std::ops::FromResidual::from_residual':
                errs.append((b, 'residual', None))
            else:
                oks.append((b, 'tailcall', cal.get('key') or cal.get('path')))
    return errs, oks


def try_sites(body):
    """`?` sites: returns list of dicts {call_bb, branch_bb, switch_bb, ok_bb, err_bb, callee}
    for the pattern  _r = f(..); _c = Try::branch(move _r); switch discr(_c) {0=>ok,1=>err}."""
    out = []
    for b, t in body.calls():
        cal = t['callee']
        if cal.get('decl') != 'std::ops::Try::branch':
            continue
        arg = op_place(t['args'][0])
        # producer of the Result
        prod = None
        if arg is not None and not arg['p']:
            ds = body.defs().get(arg['l'], [])
            ds = [d for d in ds if d[0] in ('call', 'stmt')]
            if len(ds) == 1 and ds[0][0] == 'call':
                prod = ds[0][1]
        sw = t['target']
        st = body.term(sw)
        ok_bb = err_bb = None
        if st['k'] == 'switch':
            for v, tgt in st['targets']:
                if v == 0:
                    ok_bb = tgt
                elif v == 1:
                    err_bb = tgt
        out.append({'branch_bb': b, 'call_bb': prod, 'switch_bb': sw, 'ok_bb': ok_bb,
                    'err_bb': err_bb,
                    'callee': body.term(prod)['callee'] if prod is not None else None,
                    'line': t['line']})
    return out


# --------------------------------------------------------------------------- HIR helpers


def hir_walk(node, fn, parents=()):
    """pre-order walk over HIR JSON; fn(node, parents) -> False to prune"""
    if isinstance(node, dict):
        if 'k' in node:
            r = fn(node, parents)
            if r is False:
                return
            parents = parents + (node,)
        for k, v in node.items():
            if isinstance(v, (dict, list)):
                hir_walk(v, fn, parents)
    elif isinstance(node, list):
        for x in node:
            hir_walk(x, fn, parents)


def hir_find(node, pred):
    out = []

    def f(n, ps):
        if pred(n):
            out.append((n, ps))
    hir_walk(node, f)
    return out


def strip_refs(e):
    """peel &, &mut, *, casts-free wrappers from an HIR expr"""
    while isinstance(e, dict):
        if e.get('k') == 'addrof':
            e = e['x']
        elif e.get('k') == 'un' and e.get('op') == 'Deref' and not e.get('overloaded'):
            e = e['x']
        elif e.get('k') == 'block' and not e.get('stmts') and e.get('tail') is not None and not e.get('unsafe'):
            e = e['tail']
        else:
            break
    return e


def hcanon(e, env=None):
    """Canonical S-expression of an HIR expression (locals by name unless env maps ids)."""
    if e is None:
        return None
    e = strip_refs(e)
    k = e.get('k')
    if k == 'path':
        if e.get('res') == 'local':
            if env is not None and e['id'] in env:
                return env[e['id']]
            return ('local', e['name'])
        if e.get('path') in CONST_VALUES:
            return ('const', CONST_VALUES[e['path']])       # a named integer constant is its value
        return ('def', e.get('path'))
    if k == 'lit':
        if 'int' in e:
            return ('const', e['int'])
        if 'bool' in e:
            return ('const', int(e['bool']))
        return ('lit', e.get('str') or e.get('lit'))
    if k == 'field':
        b = hcanon(e['x'], env)
        if e.get('of') in FLAT_ADTS and isinstance(b, tuple) and b and b[0] == 'field' and isinstance(b[2], str):
            return ('field', b[1], b[2] + '.' + e['name'])      # field of a flattened private sub-object
        if isinstance(b, tuple) and b and b[0] == 'struct':
            for fname, fv in b[2]:
                if fname == e['name']:
                    return fv                                   # a field of a struct value written out in the function
        if isinstance(b, tuple) and b and b[0] == 'tuple' and str(e['name']).isdigit() and int(e['name']) < len(b[1]):
            return b[1][int(e['name'])]
        return ('field', b, e['name'])
    if k == 'bin':
        op = {'+': 'Add', '-': 'Sub', '*': 'Mul', '/': 'Div', '%': 'Rem', '<': 'Lt', '<=': 'Le',
              '>': 'Gt', '>=': 'Ge', '==': 'Eq', '!=': 'Ne', '&&': 'And', '||': 'Or', '&': 'BitAnd',
              '|': 'BitOr', '^': 'BitXor', '<<': 'Shl', '>>': 'Shr'}.get(e['op'], e['op'])
        a, b = hcanon(e['l'], env), hcanon(e['r'], env)
        if op in ('And', 'Or'):
            return (op.lower(), a, b)
        return norm_bin(op, a, b)
    if k == 'un':
        return ('un', e['op'], hcanon(e['x'], env))
    if k == 'mcall':
        return ('call', e.get('path') or e['name'],
                (hcanon(e['recv'], env),) + tuple(hcanon(a, env) for a in e['args']))
    if k == 'call':
        f = e['f']
        fp = f.get('path') if f.get('k') == 'path' else None
        return ('call', fp or hcanon(f, env), tuple(hcanon(a, env) for a in e['args']))
    if k == 'index':
        return ('index', hcanon(e['base'], env), hcanon(e['idx'], env))
    if k == 'cast':
        return ('cast', e['to'], hcanon(e['x'], env))
    if k == 'struct':
        return ('struct', e['path'].get('path'), tuple((f['name'], hcanon(f['e'], env)) for f in e['fields']))
    if k == 'tup':
        return ('tuple', tuple(hcanon(x, env) for x in e['xs']))
    if k == 'repeat':
        return ('repeat', hcanon(e['x'], env), e.get('ty'))
    if k == 'array':
        return ('array', tuple(hcanon(x, env) for x in e['xs']))
    if k == 'block' and not e.get('unsafe') and e.get('tail') is not None:
        # a pure block expression: immutable `let`s in front of a value
        env2 = dict(env) if env is not None else {}
        for st in e.get('stmts', []):
            if st.get('k') == 'let' and isinstance(st.get('pat'), dict) and st['pat'].get('k') == 'bind' and st['pat'].get('mode', '').endswith('Not)') \
                    and 'init' in st and 'else' not in st:
                env2[st['pat']['id']] = hcanon(st['init'], env2)
            elif is_debug_assert_stmt(st):
                continue
            else:
                return ('hir', k, e.get('line'))
        return hcanon(e['tail'], env2)
    if k == 'if' and e.get('else') is not None:
        mm = select_minmax(hcanon(e['cond'], env), hcanon(e['then'], env), hcanon(e['else'], env))
        if mm is not None:
            return mm
    return ('hir', k, e.get('line'))


def select_minmax(c, t, f):
    """`if x <= y { x } else { y }` is min(x, y), `if x <= y { y } else { x }` is max(x, y) (any of < <= > >=): the value of
    a two-way selection between the two compared quantities, as the std function would give it"""
    if not (isinstance(c, tuple) and c and c[0] == 'bin' and c[1] in ('Lt', 'Le', 'Gt', 'Ge')) or t == f:
        return None
    x, y = c[2], c[3]
    if {repr(t), repr(f)} != {repr(x), repr(y)}:
        return None
    small_first = c[1] in ('Lt', 'Le')          # condition true: x is the smaller one
    picks_x = (t == x)
    is_min = (picks_x == small_first)
    return ('call', 'core::cmp::min' if is_min else 'core::cmp::max', (x, y))


def hshow(c):
    if not isinstance(c, tuple):
        return str(c)
    k = c[0]
    if k == 'local':
        return c[1]
    if k == 'def':
        return short(c[1] or '?')
    if k in ('and', 'or'):
        return '(%s %s %s)' % (hshow(c[1]), '&&' if k == 'and' else '||', hshow(c[2]))
    if k == 'call':
        return '%s(%s)' % (short(c[1]) if isinstance(c[1], str) else hshow(c[1]),
                           ', '.join(hshow(a) for a in c[2]))
    if k == 'struct':
        return '%s{%s}' % (short(c[1] or '?'), ', '.join('%s: %s' % (n, hshow(v)) for n, v in c[2]))
    if k in ('field', 'bin', 'const', 'index', 'cast', 'un', 'tuple'):
        return show(tuple(hshow_sub(x) for x in c))
    return repr(c)


def hshow_sub(x):
    return x


def is_range_struct(e):
    """HIR struct expr that is a std Range / RangeFrom / RangeTo / RangeFull literal.
    returns (start_expr|None, end_expr|None, inclusive) or None"""
    e = strip_refs(e)
    if e.get('k') == 'struct':
        p = e['path'].get('path') or ''
        fields = {f['name']: f['e'] for f in e['fields']}
        if p.endswith('ops::Range') or p.endswith('range::Range'):
            return (fields.get('start'), fields.get('end'), False)
        if p.endswith('RangeFrom'):
            return (fields.get('start'), None, False)
        if p.endswith('RangeTo'):
            return (None, fields.get('end'), False)
    if e.get('k') == 'path' and (e.get('path') or '').endswith('RangeFull'):
        return (None, None, False)
    if e.get('k') == 'struct' and (e['path'].get('path') or '').endswith('RangeFull'):
        return (None, None, False)
    if e.get('k') == 'call' and e['f'].get('k') == 'path' and \
            (e['f'].get('path') or '').endswith('RangeInclusive::<Idx>::new'):
        return (e['args'][0], e['args'][1], True)
    return None


def for_loop_parts(e):
    """Recognise the HIR desugaring of `for PAT in ITER { BODY }`.
    returns (pat, iter_expr, body_block) or None"""
    if e.get('k') != 'match' or e.get('source') != 'ForLoopDesugar':
        return None
    scrut = e['scrut']
    if scrut.get('k') != 'call' or not scrut['args']:
        return None
    it = scrut['args'][0]
    try:
        lp = e['arms'][0]['body']
        lp = strip_refs(lp)
        if lp.get('k') != 'loop':
            return None
        blk = lp['body']
        m = blk['stmts'][0]['e'] if blk['stmts'] else blk.get('tail')
        m = strip_refs(m)
        # match next(&mut iter) { None => break, Some(pat) => body }
        for arm in m['arms']:
            p = arm['pat']
            if p.get('k') == 'tuplestruct' or (p.get('k') == 'struct'):
                pats = p.get('pats') or [f['pat'] for f in p.get('fields', [])]
                if not pats:
                    continue
                return (pats[0], it, arm['body'])
    except (KeyError, IndexError, TypeError):
        return None
    return None


def counted_loop(iter_expr, pat):
    """(index variable name, start expr | None meaning 0, end expr) when `for PAT in ITER` visits consecutive indexes:
    `for i in a..b`, `for (i, x) in s[..n].iter_mut().enumerate()`, `for (x, i) in s[a..b].iter().zip(a..)` (and the mirrored
    `(a..).zip(s[a..b].iter())`); None otherwise"""
    it = strip_refs(iter_expr)
    rg = is_range_struct(it)
    if rg is not None:
        if rg[0] is not None and rg[1] is not None and not rg[2] and pat.get('k') == 'bind':
            return pat['name'], rg[0], rg[1]
        return None

    def sliced(e):
        """X[a..b].iter() / iter_mut() / into_iter() -> (a | None, b)"""
        e = strip_refs(e)
        if e.get('k') == 'mcall' and e.get('name') in ('iter', 'iter_mut', 'into_iter') and not e.get('args'):
            e = strip_refs(e['recv'])
        if e.get('k') == 'index':
            r = is_range_struct(e['idx'])
            if r is not None and r[1] is not None and not r[2]:
                return r[0], r[1]
        return None
    if pat.get('k') != 'tuple' or len(pat.get('pats', [])) != 2:
        return None
    p0, p1 = pat['pats']
    if it.get('k') == 'mcall' and it.get('name') == 'enumerate' and not it.get('args'):
        sl = sliced(it['recv'])
        if sl is not None and sl[0] is None and p0.get('k') == 'bind':
            return p0['name'], None, sl[1]
        return None
    if it.get('k') == 'mcall' and it.get('name') == 'zip' and len(it.get('args', [])) == 1:
        for slice_side, range_side, ipat in ((it['recv'], it['args'][0], p1), (it['args'][0], it['recv'], p0)):
            sl = sliced(slice_side)
            rf = is_range_struct(range_side)
            if sl is not None and rf is not None and rf[0] is not None and ipat.get('k') == 'bind':
                a = sl[0]
                same = (a is None and hcanon(rf[0]) == ('const', 0)) or (a is not None and hcanon(a) == hcanon(rf[0]))
                if same and (rf[1] is None or hcanon(rf[1]) == hcanon(sl[1])):
                    return ipat['name'], a, sl[1]
    return None


# --------------------------------------------------------------------------- HIR path conditions


def always_diverges(e):
    """does this HIR expression always leave the enclosing sequence (return/break/continue/panic)?"""
    e = strip_refs(e) if isinstance(e, dict) else e
    if not isinstance(e, dict):
        return False
    k = e.get('k')
    if k in ('ret', 'break', 'continue'):
        return True
    if k == 'block':
        for s in e.get('stmts', []):
            if s['k'] == 'expr' and always_diverges(s['e']):
                return True
        return e.get('tail') is not None and always_diverges(e['tail'])
    if k == 'if':
        return 'else' in e and always_diverges(e['then']) and always_diverges(e['else'])
    if k == 'call' and e.get('ty') == '!':
        return True
    if k == 'match':
        return bool(e['arms']) and all(always_diverges(a['body']) for a in e['arms'])
    return e.get('ty') == '!' and k in ('call', 'mcall')


class PathWalker:
    """Walks a fn's HIR body; calls visit(node, conds, env) for every expression node.
    conds: tuple of ('if', cond_expr, polarity) | ('let', pat, init, matched: bool)
                    | ('arm', scrut_expr, pat, arm_index, all_arm_pats) | ('loop',)
    env:   dict local-id -> canonical init expr for immutable `let` bindings (hcanon form)."""

    def __init__(self, visit, facts=None, inline=None):
        self.visit = visit
        self.facts = facts
        self.inline = inline or set()      # crate fn paths / closure defs to walk in the caller's context
        self.depth = 0
        self.root_fn = None
        self.cur_fn = None

    def walk_fn(self, fn):
        self.root_fn = self.cur_fn = fn
        self.expr(fn.hir['value'], (), {})

    def _inline_call(self, e, conds, env):
        """walk the body of an inlinable helper / closure in the context of this call"""
        if self.facts is None or self.depth >= 3:
            return
        k = e.get('k')
        target, args, env2 = None, [], None
        if k == 'mcall' and e.get('path') in self.inline and e.get('path') in self.facts.fns:
            target = self.facts.fns[e['path']]
            args = [e['recv']] + list(e['args'])
        elif k == 'call' and e['f'].get('k') == 'path':
            f = e['f']
            if f.get('res') == 'local' and isinstance(env.get(f.get('id')), tuple) and env[f['id']][0] == 'closure':
                d = env[f['id']][1]
                if d in self.inline and d in self.facts.fns:
                    target = self.facts.fns[d]
                    args = list(e['args'])
                    env2 = dict(env)        # captured variables keep their ids
            elif f.get('path') in self.inline and f.get('path') in self.facts.fns:
                target = self.facts.fns[f['path']]
                args = list(e['args'])
        if target is None:
            return
        if env2 is None:
            env2 = {}
        params = target.hir.get('params', [])
        # closures: first HIR param list excludes the environment; fns: plain binds
        for pat, a in zip(params, args):
            if pat.get('k') == 'bind':
                env2[pat['id']] = hcanon(a, env)
        saved = self.cur_fn
        self.cur_fn = target
        self.depth += 1
        try:
            self.expr(target.hir['value'], conds, env2)
        finally:
            self.depth -= 1
            self.cur_fn = saved

    def let_stmt(self, s, conds, env):
        """one `let` statement: walks its parts, extends env in place, returns the conditions that hold after it"""
        if 'init' in s:
            self.expr(s['init'], conds, env)
        pat = s['pat']
        if 'else' in s:
            # `let Some(pos) = self.checked_pos(index) else { .. }`: pos is what the helper computed, under what it checked;
            # the else block runs when that (single) check failed
            pp = pat.get('pats') or [f_.get('pat') for f_ in pat.get('fields', [])] if pat.get('k') in ('tuplestruct', 'struct') else None
            pth_ = pat.get('path') if isinstance(pat.get('path'), str) else (pat.get('path') or {}).get('path')
            cv = None
            if pp and len(pp) == 1 and isinstance(pp[0], dict) and pp[0].get('k') == 'bind' and str(pth_ or '').endswith(('::Some', '::Ok')):
                cv = checked_value_of_call(self.facts, s.get('init'), env)
            neg = ()
            if cv is not None and len(cv[1]) == 1 and cv[1][0][0] == 'if':
                c0 = cv[1][0]
                neg = (('if', c0[1], not c0[2], c0[3] if len(c0) > 3 else dict(env)),)
            self.block(s['else'], conds + (('let', pat, s.get('init'), False),) + neg, env)
            conds = conds + (('let', pat, s.get('init'), True),)
            if cv is not None:
                env[pp[0]['id']] = cv[0]
                conds = conds + cv[1]
        if pat.get('k') == 'bind' and 'init' in s and strip_refs(s['init']).get('k') == 'closure':
            env[pat['id']] = ('closure', strip_refs(s['init'])['def'])
        elif pat.get('k') == 'bind' and 'init' in s and pat.get('mode', '').endswith('Not)'):
            cv = checked_value_of_try(self.facts, s['init'], env) if 'else' not in s else None
            if cv is not None:
                env[pat['id']] = cv[0]          # `let pos = self.checked_pos(index)?;`: pos is the value the helper computed,
                conds = conds + cv[1]           # under the conditions it checked
            else:
                env[pat['id']] = hcanon(s['init'], env)
        elif pat.get('k') == 'tuple' and 'init' in s and 'else' not in s:
            # `let (a, b) = (x, y);` binds component-wise
            ini = strip_refs(s['init'])
            while ini.get('k') == 'block' and not ini.get('stmts') and ini.get('tail') is not None:
                ini = strip_refs(ini['tail'])
            if ini.get('k') == 'tup' and len(ini.get('xs', [])) == len(pat.get('pats', [])):
                for sp, x in zip(pat['pats'], ini['xs']):
                    if sp.get('k') == 'bind' and sp.get('mode', '').endswith('Not)') and 'sub' not in sp:
                        env[sp['id']] = hcanon(x, env)
            elif ini.get('k') == 'if' and ini.get('else') is not None:
                # `let (smaller, larger) = if a <= b { (a, b) } else { (b, a) };`
                c_ = hcanon(ini['cond'], env)
                t_, f_ = hcanon(ini['then'], env), hcanon(ini['else'], env)
                n_ = len(pat.get('pats', []))
                if all(isinstance(v, tuple) and v and v[0] == 'tuple' and len(v[1]) == n_ for v in (t_, f_)):
                    for i_, sp in enumerate(pat['pats']):
                        if sp.get('k') == 'bind' and sp.get('mode', '').endswith('Not)') and 'sub' not in sp:
                            v_ = t_[1][i_] if t_[1][i_] == f_[1][i_] else select_minmax(c_, t_[1][i_], f_[1][i_])
                            if v_ is not None:
                                env[sp['id']] = v_
            elif self.facts is not None and ini.get('k') in ('call', 'mcall'):
                # `let (base, count) = self.region();` with a single-expression helper returning a tuple
                cv_ = inline_calls(hcanon(ini, env), self.facts)
                if isinstance(cv_, tuple) and cv_ and cv_[0] == 'tuple' and len(cv_[1]) == len(pat.get('pats', [])):
                    for sp, x in zip(pat['pats'], cv_[1]):
                        if sp.get('k') == 'bind' and sp.get('mode', '').endswith('Not)') and 'sub' not in sp:
                            env[sp['id']] = x
        return conds

    def block(self, b, conds, env):
        env = dict(env)
        conds = tuple(conds)
        for s in b.get('stmts', []):
            if s['k'] == 'let':
                conds = self.let_stmt(s, conds, env)
            else:
                e = s['e']
                self.expr(e, conds, env)
                ee = strip_refs(e)
                if ee.get('k') == 'if' and 'else' not in ee and always_diverges(ee['then']):
                    fc_ = bool_helper_conds(self.facts, ee['cond'], False, env)
                    conds = conds + (fc_ if fc_ is not None else (('if', ee['cond'], False, dict(env)),))
                elif ee.get('k') == 'if' and 'else' in ee:
                    if always_diverges(ee['then']) and not always_diverges(ee['else']):
                        conds = conds + (('if', ee['cond'], False, dict(env)),)
                    elif always_diverges(ee['else']) and not always_diverges(ee['then']):
                        conds = conds + (('if', ee['cond'], True, dict(env)),)
        if b.get('tail') is not None:
            self.expr(b['tail'], conds, env)

    def expr(self, e, conds, env):
        if not isinstance(e, dict) or 'k' not in e:
            return
        k = e['k']
        self.visit(e, conds, env)
        if k in ('call', 'mcall') and self.inline:
            self._inline_call(e, conds, env)
        if k == 'block':
            self.block(e, conds, env)
        elif k == 'if':
            self.expr(e['cond'], conds, env)
            c = e['cond']
            cc = strip_refs(c)
            if cc.get('k') == 'letexpr':
                self.expr(e['then'], conds + (('let', cc['pat'], cc['init'], True),), env)
                if 'else' in e:
                    self.expr(e['else'], conds + (('let', cc['pat'], cc['init'], False),), env)
            else:
                tc_ = bool_helper_conds(self.facts, c, True, env)
                self.expr(e['then'], conds + (tc_ if tc_ is not None else (('if', c, True, dict(env)),)), env)
                if 'else' in e:
                    fc_ = bool_helper_conds(self.facts, c, False, env)
                    self.expr(e['else'], conds + (fc_ if fc_ is not None else (('if', c, False, dict(env)),)), env)
        elif k == 'match':
            self.expr(e['scrut'], conds, env)
            pats = [a['pat'] for a in e['arms']]
            for i, a in enumerate(e['arms']):
                c2 = conds + (('arm', e['scrut'], a['pat'], i, pats),)
                if 'guard' in a:
                    self.expr(a['guard'], c2, env)
                    c2 = c2 + (('if', a['guard'], True, dict(env)),)
                self.expr(a['body'], c2, env)
        elif k == 'loop':
            self.block(e['body'], conds + (('loop',),), env)
        elif k == 'closure':
            return
        elif k == 'mcall' and e.get('name') == 'ok_or' and (e.get('path') or '').endswith('Option::<T>::ok_or') and len(e.get('args', [])) == 1:
            # `opt.ok_or(err)`: the error value matters only when opt is None
            self.expr(e['recv'], conds, env)
            some = {'k': 'tuplestruct', 'path': {'k': 'path', 'path': 'std::option::Option::Some'}, 'pats': [{'k': 'wild'}]}
            self.expr(e['args'][0], conds + (('let', some, e['recv'], False),), env)
        else:
            for key, v in e.items():
                if key in ('k',):
                    continue
                if isinstance(v, dict) and 'k' in v:
                    self.expr(v, conds, env)
                elif isinstance(v, list):
                    for x in v:
                        if isinstance(x, dict):
                            if 'k' in x:
                                self.expr(x, conds, env)
                            elif 'e' in x and isinstance(x['e'], dict):
                                self.expr(x['e'], conds, env)


def flatten_conds(conds, env):
    """Expand ('if', c, pol) with &&/|| into a list of atom constraints where possible:
    returns list of (canon_atom, polarity) that all hold (conjunction); disjunctions that cannot
    be split are kept as (('or', a, b), True)."""
    out = []

    def add(c, pol):
        if isinstance(c, tuple) and c and c[0] == 'and' and pol:
            add(c[1], True)
            add(c[2], True)
        elif isinstance(c, tuple) and c and c[0] == 'or' and not pol:
            add(c[1], False)
            add(c[2], False)
        elif isinstance(c, tuple) and c and c[0] == 'un' and c[1] == 'Not':
            add(c[2], not pol)
        else:
            out.append((c, pol))
    for cd in conds:
        if cd[0] == 'if':
            # the condition is canonicalised in the environment in which it was evaluated (it may stem from a
            # caller when the site was reached through an inlined helper)
            add(hcanon(cd[1], cd[3] if len(cd) > 3 else env), cd[2])
    return out



# --------------------------------------------------------------------------- value flow over MIR


def rv_source_locals(rv):
    """locals read by an rvalue (through any projection)"""
    out = []
    k = rv['k']

    def opl(op):
        pl = op_place(op)
        if pl is not None:
            out.append(pl['l'])
    if k in ('use', 'cast', 'repeat'):
        opl(rv['op'])
    elif k in ('ref', 'rawptr', 'discr'):
        out.append(rv['place']['l'])
    elif k == 'bin':
        opl(rv['a'])
        opl(rv['b'])
    elif k == 'un':
        opl(rv['a'])
    elif k == 'agg':
        for o in rv['ops']:
            opl(o)
    return out


def rv_source_places(rv):
    """places read by an rvalue"""
    out = []
    k = rv['k']

    def opl(op):
        pl = op_place(op)
        if pl is not None:
            out.append(pl)
    if k in ('use', 'cast', 'repeat'):
        opl(rv['op'])
    elif k in ('ref', 'rawptr', 'discr'):
        out.append(rv['place'])
    elif k == 'bin':
        opl(rv['a'])
        opl(rv['b'])
    elif k == 'un':
        opl(rv['a'])
    elif k == 'agg':
        for o in rv['ops']:
            opl(o)
    return out


def tuple_temps(body):
    """unnamed locals that are only ever built whole as tuples and only ever read one component at a time
    (`let (a, b, c) = if .. { (x, Some(y), None) } else { .. };`): flow through them is tracked per component"""
    cache = body.__dict__.setdefault('_tuple_temps', None)
    if cache is not None:
        return cache
    cand, bad = set(), set()
    for b in range(body.n):
        blk = body.blocks[b]
        for st in blk['stmts']:
            if st['k'] != 'assign':
                continue
            l = st['lhs']
            if not l['p'] and st['rv'].get('k') == 'agg' and st['rv'].get('agg') == 'tuple' and body.local_name(l['l']) is None:
                cand.add(l['l'])
            else:
                bad.add(l['l'])
            for pl in rv_source_places(st['rv']):
                if not (pl['p'] and isinstance(pl['p'][0], dict) and 'f' in pl['p'][0]):
                    bad.add(pl['l'])
        t = blk['term']
        for a in t.get('args', []) or []:
            pl = op_place(a)
            if pl is not None and not (pl['p'] and isinstance(pl['p'][0], dict) and 'f' in pl['p'][0]):
                bad.add(pl['l'])
        if t['k'] == 'call':
            bad.add(t['dest']['l'])
        for key in ('discr', 'cond', 'place'):
            pl = op_place(t[key]) if key in t and isinstance(t[key], dict) and key != 'place' else (t.get(key) if key == 'place' else None)
            if isinstance(pl, dict) and 'l' in pl and not (pl.get('p') and isinstance(pl['p'][0], dict) and 'f' in pl['p'][0]):
                bad.add(pl['l'])
    res = frozenset(x for x in cand - bad if 1 <= x and x > body.arg_count)
    body.__dict__['_tuple_temps'] = res
    return res


def forward_flow(body, seeds, through_calls=None, whole_only=False):
    """locals that (may) hold a value derived from the seed locals, following assignments
    (moves, copies, refs, projections, aggregates).  through_calls(callee dict) -> True lets the
    value flow from any argument to the call's destination (adaptors such as as_ref).
    whole_only: a write to a field of / through a local does not make the local itself derived."""
    flow = set(seeds)
    tt = tuple_temps(body)
    comp = {}       # tuple temporary -> components that hold a derived value

    def derived(pl):
        if pl['l'] in tt and pl['l'] not in seeds:
            return pl['p'][0].get('i', int(pl['p'][0]['f']) if str(pl['p'][0]['f']).isdigit() else -1) in comp.get(pl['l'], ())
        return pl['l'] in flow
    changed = True
    while changed:
        changed = False
        for b in range(body.n):
            blk = body.blocks[b]
            if blk['cleanup']:
                continue
            for st in blk['stmts']:
                if st['k'] != 'assign':
                    continue
                tgt = st['lhs']['l']
                if tgt in tt and tgt not in seeds:
                    for i_, o in enumerate(st['rv'].get('ops', [])):
                        pl = op_place(o)
                        if pl is not None and derived(pl) and i_ not in comp.setdefault(tgt, set()):
                            comp[tgt].add(i_)
                            changed = True
                    continue
                if tgt in flow or (whole_only and st['lhs']['p']):
                    continue
                if any(derived(pl) for pl in rv_source_places(st['rv'])):
                    flow.add(tgt)
                    changed = True
            t = blk['term']
            if t['k'] == 'call' and through_calls is not None and t['dest']['l'] not in flow:
                if through_calls(t['callee']):
                    for a in t['args']:
                        pl = op_place(a)
                        if pl is not None and derived(pl):
                            flow.add(t['dest']['l'])
                            changed = True
                            break
    return flow


def call_uses(body, flow):
    """call sites that receive a value from `flow` as an argument: [(bb, term, [arg idx])]"""
    out = []
    for b, t in body.calls():
        idx = []
        for i, a in enumerate(t['args']):
            pl = op_place(a)
            if pl is not None and pl['l'] in flow:
                idx.append(i)
        if idx:
            out.append((b, t, idx))
    return out



# --------------------------------------------------------------------------- pure helper inlining (HIR canon)


def is_debug_assert_stmt(st):
    """`debug_assert!(..)` / `debug_assert_eq!(..)`: `if <cfg literal> { .. panic .. }` from a macro expansion, without
    assignments"""
    e = st.get('e') if st.get('k') == 'expr' else None
    if not isinstance(e, dict) or e.get('k') != 'if' or 'else' in e:
        return False
    c = e.get('cond')
    if not (isinstance(c, dict) and c.get('k') == 'lit' and 'bool' in c and c.get('exp')):
        return False
    return not hir_find(e['then'], lambda m: m.get('k') in ('assign', 'assignop'))


def simple_expr_fn(fn):
    """(param ids, tail expr) if the fn body is a single expression over plainly bound parameters (debug assertions
    in front of it do not count)"""
    h = fn.hir
    v = strip_refs(h['value'])
    if v.get('k') == 'block':
        def harmless(st):
            return is_debug_assert_stmt(st) or (st.get('k') == 'let' and isinstance(st.get('pat'), dict) and st['pat'].get('k') == 'bind'
                                                and st['pat'].get('mode', '').endswith('Not)') and 'init' in st and 'else' not in st)
        if any(not harmless(st) for st in v.get('stmts', [])) or v.get('tail') is None or v.get('unsafe'):
            return None
        if all(is_debug_assert_stmt(st) for st in v.get('stmts', [])):
            v = v['tail']
        # otherwise the block (immutable lets + value) is the expression: hcanon evaluates the lets
    ids = []
    for p in h['params']:
        if p.get('k') != 'bind':
            return None
        ids.append(p['id'])
    return ids, v


def inline_calls(c, facts, depth=0):
    """replace calls of single-expression crate helpers (predicates, position computations, getters) by their
    bodies in a canonical HIR expression, so that extracting such a helper does not change any verdict"""
    if not isinstance(c, tuple) or depth > 4:
        return c
    if c and c[0] == 'call' and isinstance(c[1], str) and c[1] in facts.fns and len(c) == 3:
        fn = facts.fns[c[1]]
        se = simple_expr_fn(fn) if not fn.impl_trait else None
        args = tuple(inline_calls(a, facts, depth) for a in c[2])
        if se is not None and len(se[0]) == len(args):
            env = dict(zip(se[0], args))
            body = hcanon(se[1], env)
            if body[0] != 'hir':
                return inline_calls(body, facts, depth + 1)
        return ('call', c[1], args)
    if c and c[0] == 'call' and isinstance(c[1], tuple) and c[1][:1] == ('closure',) and len(c[1]) > 1 and c[1][1] in facts.fns and len(c) == 3:
        # `let ok = |n: usize| n > 0 && n < LIMIT; ok(a) && ok(b)`: a local closure that reads nothing but its parameters
        g = facts.fns[c[1][1]]
        ps = g.hir.get('params', []) if g.hir else []
        args = tuple(inline_calls(a, facts, depth) for a in c[2])
        if len(ps) == len(args) and all(p.get('k') == 'bind' for p in ps):
            ids = {p['id'] for p in ps}
            foreign = hir_find(g.hir['value'], lambda m: m.get('k') == 'path' and m.get('res') == 'local' and m.get('id') not in ids)
            if not foreign:
                body = hcanon(g.hir['value'], {p['id']: a for p, a in zip(ps, args)})
                if body[0] != 'hir':
                    return inline_calls(body, facts, depth + 1)
        return ('call', c[1], args)
    return tuple(inline_calls(x, facts, depth) for x in c)



# --------------------------------------------------------------------------- function exits with path conditions


class _ExitWalker(PathWalker):
    """PathWalker that additionally reports every value a fn can return: explicit `return x` and the
    expressions in tail position, each with the path conditions (early-return guards included)."""

    def __init__(self):
        self.exits = []
        super().__init__(self._visit)

    def _visit(self, e, conds, env):
        if e.get('k') == 'ret' and 'x' in e:
            self.exits.append((e['x'], conds, dict(env)))

    def walk_fn(self, fn):
        self.tail(fn.hir['value'], (), {})

    def tail(self, e, conds, env):
        e0 = strip_refs(e) if isinstance(e, dict) else e
        if not isinstance(e0, dict):
            return
        k = e0.get('k')
        if k == 'block':
            # statements: ordinary walk with guard accumulation; tail: recurse in tail position
            env = dict(env)
            conds = tuple(conds)
            for s in e0.get('stmts', []):
                conds, env = self._stmt(s, conds, env)
            if e0.get('tail') is not None:
                self.tail(e0['tail'], conds, env)
            return
        if k == 'if':
            self.expr(e0['cond'], conds, env)
            c = strip_refs(e0['cond'])
            if c.get('k') == 'letexpr':
                self.tail(e0['then'], conds + (('let', c['pat'], c['init'], True),), env)
                if 'else' in e0:
                    self.tail(e0['else'], conds + (('let', c['pat'], c['init'], False),), env)
            else:
                self.tail(e0['then'], conds + (('if', e0['cond'], True, dict(env)),), env)
                if 'else' in e0:
                    self.tail(e0['else'], conds + (('if', e0['cond'], False, dict(env)),), env)
            return
        if k == 'match' and e0.get('source') != 'ForLoopDesugar':
            self.expr(e0['scrut'], conds, env)
            pats = [a['pat'] for a in e0['arms']]
            for i, a in enumerate(e0['arms']):
                c2 = conds + (('arm', e0['scrut'], a['pat'], i, pats),)
                if 'guard' in a:
                    c2 = c2 + (('if', a['guard'], True, dict(env)),)
                self.tail(a['body'], c2, env)
            return
        if k == 'ret':
            self.expr(e0, conds, env)
            return
        self.expr(e0, conds, env)
        self.exits.append((e0, conds, dict(env)))

    def _stmt(self, s, conds, env):
        # mirror of PathWalker.block for one statement, returning the updated (conds, env)
        if s['k'] == 'let':
            conds = self.let_stmt(s, conds, env)
        else:
            e = s['e']
            self.expr(e, conds, env)
            ee = strip_refs(e)
            if ee.get('k') == 'if' and 'else' not in ee and always_diverges(ee['then']):
                conds = conds + (('if', ee['cond'], False, dict(env)),) if strip_refs(ee['cond']).get('k') != 'letexpr' else \
                    conds + (('let', strip_refs(ee['cond'])['pat'], strip_refs(ee['cond'])['init'], False),)
            elif ee.get('k') == 'if' and 'else' in ee:
                cc = strip_refs(ee['cond'])
                if always_diverges(ee['then']) and not always_diverges(ee['else']):
                    conds = conds + ((('if', ee['cond'], False, dict(env)),) if cc.get('k') != 'letexpr' else (('let', cc['pat'], cc['init'], False),))
                elif always_diverges(ee['else']) and not always_diverges(ee['then']):
                    conds = conds + ((('if', ee['cond'], True, dict(env)),) if cc.get('k') != 'letexpr' else (('let', cc['pat'], cc['init'], True),))
        return conds, env


def subst_hir(node, mapping, shift):
    """copy of a HIR subtree with parameter references replaced by the caller's argument expressions and all
    other local ids shifted (so that the callee's locals cannot collide with the caller's)"""
    if isinstance(node, list):
        return [subst_hir(x, mapping, shift) for x in node]
    if not isinstance(node, dict):
        return node
    if node.get('k') == 'path' and node.get('res') == 'local':
        if node.get('id') in mapping:
            return mapping[node['id']]
        n2 = dict(node)
        n2['id'] = node['id'] + shift
        return n2
    out = {}
    for k, v in node.items():
        if k == 'id' and node.get('k') == 'bind':
            out[k] = v + shift
        else:
            out[k] = subst_hir(v, mapping, shift) if isinstance(v, (dict, list)) else v
    return out


def private_callee(facts, e):
    """(fn, args) when expression e is a call of a private crate function (not part of the public API, not a
    trait method) whose parameters are plain bindings; None otherwise"""
    e = strip_refs(e) if isinstance(e, dict) else e
    if not isinstance(e, dict):
        return None
    path = args = None
    if e.get('k') == 'call' and isinstance(e.get('f'), dict) and e['f'].get('k') == 'path':
        path, args = e['f'].get('path'), list(e['args'])
    elif e.get('k') == 'mcall':
        path, args = e.get('path'), [e['recv']] + list(e['args'])
    g = facts.fns.get(path) if path else None
    if g is None or not g.hir or g.impl_trait or g.in_trait or g.reachable:
        return None
    params = g.hir.get('params', [])
    if len(params) != len(args) or not all(pt.get('k') == 'bind' for pt in params):
        return None
    return g, args


_EXIT_SHIFT = [0]

def checked_value_of_try(facts, init, env):
    """`let x = helper(args)?;` / `let x = helper(args).ok()?;` where the private helper has exactly one exit producing a value
    (`Ok(v)` / `Some(v)`) and all others fail: returns (canonical v in the caller's terms, the conditions of that exit), so that
    x stands for v and what the helper checked counts as checked here.  None otherwise."""
    e0 = strip_refs(init) if isinstance(init, dict) else None
    if not isinstance(e0, dict) or e0.get('k') != 'match' or not str(e0.get('source', '')).startswith('TryDesugar') or facts is None:
        return None
    sc = e0.get('scrut', {})
    if not (sc.get('k') == 'call' and isinstance(sc.get('f'), dict) and (sc['f'].get('path') or '').endswith('Try::branch') and len(sc.get('args', [])) == 1):
        return None
    return checked_value_of_call(facts, sc['args'][0], env)


def checked_value_of_call(facts, call, env):
    """the same for the call itself (`let Some(x) = helper(args) else { .. }`, `if let Ok(x) = helper(args)`)"""
    if facts is None or not isinstance(call, dict):
        return None
    inner = strip_refs(call)
    if inner.get('k') == 'mcall' and inner.get('name') == 'ok' and re.search(r'Result::<.*>::ok$', inner.get('path') or '') and not inner.get('args'):
        inner = strip_refs(inner['recv'])
    pc = private_callee(facts, inner)
    if pc is None:
        return None
    g, args = pc
    if not re.match(r'^std::(result::Result|option::Option)<', g.output or ''):
        return None
    from .c05 import subst_hir
    _EXIT_SHIFT[0] += 1
    shift = 10000000 * (_EXIT_SHIFT[0] % 200 + 1)
    body = subst_hir(g.hir['value'], {pt['id']: a for pt, a in zip(g.hir['params'], args)}, shift)
    good = []
    for (x, conds, e2) in fn_exits(g, True, 1, body):
        x0 = strip_refs(x) if isinstance(x, dict) else {}
        pth = x0['f'].get('path') if x0.get('k') == 'call' and isinstance(x0.get('f'), dict) else (x0.get('path') if x0.get('k') == 'path' else None)
        pth = pth or ''
        if pth.endswith('::Ok') or pth.endswith('::Some'):
            good.append((x0, conds, e2))
        elif pth.endswith('::Err') or pth.endswith('::None'):
            continue
        else:
            return None
    if len(good) != 1 or len(good[0][0].get('args', [])) != 1:
        return None
    x0, conds, e2 = good[0]
    ee = dict(env)
    ee.update(e2)
    c3 = []
    for cd in conds:
        if cd[0] == 'if':
            e3 = dict(env)
            e3.update(cd[3] if len(cd) > 3 else {})
            cd = ('if', cd[1], cd[2], e3)
        c3.append(cd)
    return hcanon(x0['args'][0], ee), tuple(c3)



def bool_helper_conds(facts, cond, want, env):
    """the path conditions under which `[!]helper(args)[?]` evaluates to `want`, when the private helper returns
    bool / Result<bool, _> and exactly one of its exits yields that literal (`fn store(..) -> Result<bool, Error>` with
    `return Ok(false)` under `self.received[pos]`): the conditions of that exit in the caller's terms; None otherwise"""
    if facts is None or not isinstance(cond, dict):
        return None
    c = strip_refs(cond)
    while c.get('k') == 'un' and c.get('op') in ('Not', '!'):
        want = not want
        c = strip_refs(c['x'])
    call = c
    if c.get('k') == 'match' and str(c.get('source', '')).startswith('TryDesugar'):
        sc = c.get('scrut', {})
        if not (sc.get('k') == 'call' and isinstance(sc.get('f'), dict) and (sc['f'].get('path') or '').endswith('Try::branch') and len(sc.get('args', [])) == 1):
            return None
        call = strip_refs(sc['args'][0])
    pc = private_callee(facts, call)
    if pc is None:
        return None
    g, args = pc
    out_ty = g.output or ''
    if not (out_ty == 'bool' or re.match(r'^std::result::Result<bool, ', out_ty)):
        return None
    from .c05 import subst_hir
    _EXIT_SHIFT[0] += 1
    shift = 10000000 * (_EXIT_SHIFT[0] % 200 + 1)
    body = subst_hir(g.hir['value'], {pt['id']: a for pt, a in zip(g.hir['params'], args)}, shift)
    sel = []
    for (x, conds, e2) in fn_exits(g, True, 1, body):
        x0 = strip_refs(x) if isinstance(x, dict) else {}
        v = None
        if out_ty == 'bool':
            v = x0
        else:
            pth = x0['f'].get('path') if x0.get('k') == 'call' and isinstance(x0.get('f'), dict) else None
            if pth and pth.endswith('::Err'):
                continue
            if pth and pth.endswith('::Ok') and len(x0.get('args', [])) == 1:
                v = strip_refs(x0['args'][0])
            elif x0.get('k') == 'match' and str(x0.get('source', '')).startswith('TryDesugar'):
                continue        # `inner()?;` as a tail cannot occur for a bool payload; a propagated error is an Err exit
        if not (isinstance(v, dict) and v.get('k') == 'lit' and 'bool' in v):
            return None
        if bool(v['bool']) == want:
            sel.append((conds, e2))
    if len(sel) != 1:
        return None
    conds, e2 = sel[0]
    c3 = []
    for cd in conds:
        if cd[0] == 'if':
            e3 = dict(env)
            e3.update(cd[3] if len(cd) > 3 else {})
            cd = ('if', cd[1], cd[2], e3)
        c3.append(cd)
    return tuple(c3)


def fn_exits(fn, delegate=True, _depth=0, _body=None):
    """[(value expr node, conds, env)] for every way fn can return a value.  An exit whose value is the call of a
    private helper (`return check(x)` / tail `check(x)`) is replaced by the helper's own exits, parameters
    substituted by the argument expressions, so that moving the tail of a function into a helper changes nothing."""
    w = _ExitWalker()
    w.facts = getattr(fn, 'facts', None)
    if _body is not None:
        w.tail(_body, (), {})
    else:
        w.walk_fn(fn)
    if not delegate or _depth >= 3:
        return w.exits
    out = []
    for (x, conds, env) in w.exits:
        pc = private_callee(fn.facts, x)
        if pc is None or pc[0].path == fn.path:
            out.append((x, conds, env))
            continue
        g, args = pc
        _EXIT_SHIFT[0] += 1
        shift = 10000000 * (_EXIT_SHIFT[0] % 200 + 1)
        mapping = {pt['id']: a for pt, a in zip(g.hir['params'], args)}
        body = subst_hir(g.hir['value'], mapping, shift)
        for (x2, c2, e2) in fn_exits(g, True, _depth + 1, body):
            env2 = dict(env)
            env2.update(e2)
            # the helper's conditions carry their own env snapshots; complete them with the caller's bindings
            c3 = []
            for cd in c2:
                if cd[0] == 'if':
                    ee = dict(env)
                    ee.update(cd[3])
                    cd = ('if', cd[1], cd[2], ee)
                c3.append(cd)
            out.append((x2, tuple(conds) + tuple(c3), env2))
    return out


# --------------------------------------------------------------------------- MIR inlining of private helpers


def _remap_mir(node, lmap, bmap):
    """deep copy of a MIR JSON fragment with locals and block numbers renamed"""
    if isinstance(node, list):
        return [_remap_mir(x, lmap, bmap) for x in node]
    if not isinstance(node, dict):
        return node
    if 'l' in node and 'p' in node and isinstance(node['p'], list):
        pr = []
        for e in node['p']:
            if isinstance(e, dict) and 'idx' in e:
                e = dict(e)
                e['idx'] = lmap(e['idx'])
            pr.append(e)
        out = {k: v for k, v in node.items() if k not in ('l', 'p')}
        out['l'] = lmap(node['l'])
        out['p'] = pr
        return out
    out = {}
    k = node.get('k')
    for key, v in node.items():
        if key in ('target', 'otherwise') and isinstance(v, int) and k in ('goto', 'switch', 'call', 'assert', 'drop'):
            out[key] = bmap(v)
        elif key == 'targets' and k == 'switch':
            out[key] = [[a, bmap(b)] for a, b in v]
        else:
            out[key] = _remap_mir(v, lmap, bmap) if isinstance(v, (dict, list)) else v
    return out


def inline_mir(mir, facts, owner, pick, depth=3):
    """MIR of `owner` with the calls selected by pick(callee Fn, call terminator) replaced by the callee's body:
    arguments are copied into fresh locals (unnamed, so that canonical forms expand them to the caller's
    argument expressions), the callee's blocks are appended, each `return` becomes `dest = move ret; goto target`."""
    blocks = [dict(b) for b in mir['blocks']]
    locals_ = list(mir['locals'])
    inlined = []
    budget = 40
    work = [(i, 0) for i in range(len(blocks))]
    while work and budget > 0:
        bi, d = work.pop(0)
        blk = blocks[bi]
        t = blk['term']
        if t['k'] != 'call' or blk.get('cleanup') or d >= depth:
            continue
        g = facts.fns.get(t['callee'].get('path') or '')
        if g is None or g.path == owner or not pick(g, t) or t['target'] is None:
            continue
        cm = g.body.mir
        if len(t['args']) != cm['arg_count']:
            continue
        budget -= 1
        loff, boff = len(locals_), len(blocks)
        for i, lo in enumerate(cm['locals']):
            lo2 = dict(lo)
            if i <= cm['arg_count']:
                # return place and parameters become plain temporaries of the caller
                lo2.pop('name', None)
                lo2['user'] = False
                if i and lo.get('name'):
                    lo2['inlined_param'] = lo['name']
            lo2['inlined_from'] = g.path
            locals_.append(lo2)
        direct = not t['dest']['p']       # the callee writes its result straight into the caller's destination local
        lmap = (lambda l, o=loff, d=t['dest']['l']: d if l == 0 else l + o) if direct else (lambda l, o=loff: l + o)
        bmap = lambda b, o=boff: b + o
        for cb in cm['blocks']:
            nb = _remap_mir(cb, lmap, bmap)
            if nb['term']['k'] == 'return' and not nb.get('cleanup'):
                if not direct:
                    nb['stmts'] = list(nb['stmts']) + [{'k': 'assign', 'lhs': t['dest'], 'rv': {'k': 'use', 'op': {'move': {'l': loff, 'p': []}}},
                                                        'line': t['line'], 'exp': False, 'inlined_ret': g.path}]
                nb['term'] = {'k': 'goto', 'target': t['target'], 'line': t['line'], 'exp': False}
            blocks.append(nb)
            work.append((len(blocks) - 1, d + 1))
        stmts = list(blk['stmts'])
        for i, a in enumerate(t['args']):
            stmts.append({'k': 'assign', 'lhs': {'l': loff + 1 + i, 'p': []}, 'rv': {'k': 'use', 'op': a}, 'line': t['line'], 'exp': False, 'inlined_arg': g.path})
        blk['stmts'] = stmts
        blk['term'] = {'k': 'goto', 'target': boff, 'line': t['line'], 'exp': False, 'inlined_call': g.path}
        inlined.append(g.path)
        if direct:
            _thread_try(blocks, t['dest']['l'], t['target'], range(boff, len(blocks)))
            _thread_match(blocks, t['dest']['l'], t['target'], range(boff, len(blocks)))
    out = dict(mir)
    out['blocks'] = blocks
    out['locals'] = locals_
    return out, inlined


def _reachable_block(blocks, target):
    seen, todo = {0}, [0]
    while todo:
        t2 = blocks[todo.pop()]['term']
        succ = ([t2.get('target')] if t2.get('target') is not None else []) + [x_[1] for x_ in t2.get('targets', [])] + ([t2['otherwise']] if t2.get('otherwise') is not None else [])
        for k_ in ('unwind', 'cleanup'):
            if isinstance(t2.get(k_), int):
                succ.append(t2[k_])
        for nx in succ:
            if isinstance(nx, int) and nx not in seen and 0 <= nx < len(blocks):
                seen.add(nx)
                todo.append(nx)
    return target in seen


def _thread_try(blocks, d, cont, region):
    """After inlining a Result-returning callee whose value `_d` is consumed by `?` right away --
         cont:  _c = Try::branch(move _d) -> sw;   sw: _x = discriminant(_c); switchInt(_x) [0 -> ok, 1 -> err]
    -- the blocks of the inlined body that end by building `_d = Ok(..)` / `_d = Err(..)` know which way the switch goes.
    They get their own copy of (cont, sw) whose switch is a goto, so that dominance-based rules see that the failing paths of
    the helper never reach the caller's success path (jump threading; nothing is removed, only edges become precise)."""
    if cont is None or cont >= len(blocks):
        return
    cb = blocks[cont]
    ct = cb['term']
    if ct['k'] != 'call' or (ct['callee'].get('decl') or ct['callee'].get('path')) not in ('std::ops::Try::branch',) and not (ct['callee'].get('path') or '').endswith('Try>::branch'):
        return
    if [st for st in cb['stmts'] if st['k'] not in ('storage_live', 'storage_dead', 'nop')]:
        return
    a = op_place(ct['args'][0]) if ct['args'] else None
    if a != {'l': d, 'p': []} or ct.get('target') is None or ct['dest']['p']:
        return
    sw = blocks[ct['target']]
    st_ = sw['term']
    live = [x for x in sw['stmts'] if x['k'] not in ('storage_live', 'storage_dead', 'nop')]
    if st_['k'] != 'switch' or len(live) != 1 or live[0]['k'] != 'assign' or live[0]['rv'].get('k') != 'discr' or live[0]['rv']['place'] != {'l': ct['dest']['l'], 'p': []}:
        return
    if op_place(st_['discr']) != {'l': live[0]['lhs']['l'], 'p': []}:
        return
    tg = dict((v, b) for v, b in st_['targets'])
    if 0 not in tg or 1 not in tg:
        return
    def copy_pair(kind, payload):
        """a block that writes what `Try::branch` would return for this value and goes where the switch would go"""
        line = st_['line']
        cdest = ct['dest']
        if kind == 'Ok':
            rv = {'k': 'agg', 'agg': 'adt', 'adt': 'std::ops::ControlFlow', 'variant': 'Continue', 'vi': 0, 'adt_args': [], 'fields': ['0'], 'ops': [payload]}
        else:
            rv = {'k': 'agg', 'agg': 'adt', 'adt': 'std::ops::ControlFlow', 'variant': 'Break', 'vi': 1, 'adt_args': [], 'fields': ['0'],
                  'ops': [{'copy': {'l': d, 'p': []}}]}          # the residual carries the error of `_d`
        c2 = {'cleanup': False, 'stmts': [{'k': 'assign', 'lhs': cdest, 'rv': rv, 'line': line, 'exp': False, 'threaded': kind}] + list(sw['stmts']),
              'term': {'k': 'goto', 'target': tg[0 if kind == 'Ok' else 1], 'line': line, 'exp': False, 'threaded': kind}}
        if kind == 'Ok' and isinstance(payload, dict) and isinstance(payload.get('const'), dict) and payload['const'].get('val') in (0, 1, True, False) \
                and str(payload['const'].get('ty')) == 'bool':
            # `if !helper(..)? { .. }` on a literal `Ok(true)` / `Ok(false)`: the test on the payload is resolved too
            tb = blocks[tg[0]]
            known = {}
            okk = True
            for x in tb['stmts']:
                if x['k'] in ('storage_live', 'storage_dead', 'nop'):
                    continue
                if x['k'] == 'assign' and not x['lhs']['p']:
                    r_ = x['rv']
                    pl_ = op_place(r_['op']) if r_.get('k') == 'use' else None
                    if pl_ is not None and pl_['l'] == cdest['l'] and len(pl_['p']) == 2 and isinstance(pl_['p'][0], dict) and 'down' in pl_['p'][0] \
                            and isinstance(pl_['p'][1], dict) and str(pl_['p'][1].get('f')) == '0':
                        known[x['lhs']['l']] = bool(payload['const']['val'])
                        continue
                    if pl_ is not None and not pl_['p'] and pl_['l'] in known:
                        known[x['lhs']['l']] = known[pl_['l']]
                        continue
                    if r_.get('k') == 'un' and r_.get('op') == 'Not' and op_place(r_.get('a', {})) and not op_place(r_['a'])['p'] and op_place(r_['a'])['l'] in known:
                        known[x['lhs']['l']] = not known[op_place(r_['a'])['l']]
                        continue
                okk = False
                break
            tt = tb['term']
            dpl = op_place(tt['discr']) if tt['k'] == 'switch' else None
            def used_elsewhere(locs):
                def has(n):
                    if isinstance(n, dict):
                        if 'l' in n and 'p' in n and n['l'] in locs:
                            return True
                        return any(has(v) for v in n.values())
                    if isinstance(n, list):
                        return any(has(v) for v in n)
                    return False
                return any(has(ob_) for ob_ in blocks if ob_ is not tb and not ob_.get('threaded_payload'))
            # (only a value consumed on the spot: a named flag tested again later keeps its single definition)
            if okk and dpl is not None and not dpl['p'] and dpl['l'] in known and len(tt['targets']) == 1 and tt['targets'][0][0] == 0 \
                    and not used_elsewhere(set(known)):
                val = known[dpl['l']]
                t2 = {'cleanup': False, 'stmts': list(tb['stmts']), 'threaded_payload': True,
                      'term': {'k': 'goto', 'target': tt['otherwise'] if val else tt['targets'][0][1], 'line': tt['line'], 'exp': False, 'threaded': 'payload'}}
                blocks.append(t2)
                c2['term']['target'] = len(blocks) - 1
        blocks.append(c2)
        return len(blocks) - 1

    def chain_to_cont(b):
        """blocks from b up to (not including) cont when b leads there through empty goto blocks and drops of locals only
        (the tail of an inlined helper: `drop(iter); goto`), else None"""
        out = []
        while b != cont:
            if b in out or b >= len(blocks) or len(out) > 8:
                return None
            bb = blocks[b]
            if bb['term']['k'] not in ('goto', 'drop') or bb['term'].get('target') is None \
                    or [x for x in bb['stmts'] if x['k'] not in ('storage_live', 'storage_dead', 'nop')
                        and not (x['k'] == 'assign' and not x['lhs']['p'] and (x['rv'].get('k') == 'discr' or (x['rv'].get('k') == 'use' and 'const' in x['rv']['op'])))]:   # drop flags, drop elaboration
                return None
            out.append(b)
            b = bb['term']['target']
        return out

    def reaches_cont(b, seen=()):
        return chain_to_cont(b) is not None

    def via_chain(b, final):
        """a private copy of the chain from b to cont (drops are kept) that ends in `final` instead of cont"""
        nxt = final
        for x in reversed(chain_to_cont(b) or []):
            nb = dict(blocks[x])
            nb['term'] = dict(nb['term'], target=nxt, threaded='chain')
            nb['stmts'] = list(nb['stmts'])
            blocks.append(nb)
            nxt = len(blocks) - 1
        return nxt
    for bi in list(region):
        bb = blocks[bi]
        if bb.get('cleanup') or bb['term']['k'] != 'goto':
            continue
        kind = payload = None
        for x in bb['stmts']:
            if x['k'] == 'assign' and x['lhs'] == {'l': d, 'p': []}:
                rv = x['rv']
                kind = rv.get('variant') if (rv.get('k') == 'agg' and rv.get('adt') == 'std::result::Result') else None
                payload = rv['ops'][0] if kind and rv.get('ops') else None
        if kind in ('Ok', 'Err') and payload is not None and reaches_cont(bb['term']['target']):
            ppl = op_place(payload)
            if ppl is not None and not ppl['p']:
                for x in bb['stmts']:
                    if x['k'] == 'assign' and x['lhs'] == {'l': ppl['l'], 'p': []} and x['rv'].get('k') == 'use' and 'const' in x['rv']['op']:
                        payload = x['rv']['op']
            if 'move' in payload:
                payload = {'copy': payload['move']}
            bb['term'] = dict(bb['term'], target=via_chain(bb['term']['target'], copy_pair(kind, payload)), threaded_from=bb['term']['target'])
    # `inner()?` inside the inlined body: `_d = from_residual(..)` is an Err by construction
    for bi in list(region):
        bb = blocks[bi]
        t2 = bb['term']
        if bb.get('cleanup') or t2['k'] != 'call' or t2.get('target') is None:
            continue
        if 'FromResidual' in (t2['callee'].get('path') or '') and (t2['callee'].get('path') or '').endswith('::from_residual') \
                and 'std::result::Result' in (t2['callee'].get('path') or '') and t2['dest'] == {'l': d, 'p': []} and reaches_cont(t2['target']):
            bb['term'] = dict(t2, target=via_chain(t2['target'], copy_pair('Err', None)), threaded_from=t2['target'])
    # when every way into `cont` has been threaded, the generic Try::branch is dead: its definition of `_c` goes away
    preds = 0
    for bj, bb in enumerate(blocks):
        if bj == cont or bb.get('cleanup'):
            continue
        t2 = bb['term']
        succ = ([t2.get('target')] if t2.get('target') is not None else []) + [x_[1] for x_ in t2.get('targets', [])] + ([t2['otherwise']] if t2.get('otherwise') is not None else [])
        if cont in succ and _reachable_block(blocks, bj):
            preds += 1
    if preds == 0:
        blocks[cont] = {'cleanup': False, 'stmts': [], 'term': {'k': 'unreachable', 'line': ct['line'], 'exp': False, 'threaded': 'dead'}}
        blocks[ct['target']] = {'cleanup': False, 'stmts': [], 'term': {'k': 'unreachable', 'line': ct['line'], 'exp': False, 'threaded': 'dead'}}


def _thread_match(blocks, d, cont, region):
    """The same for an inlined helper whose enum value (`Option`, `Result`, a private enum) is matched on at once --
         cont:  _x = discriminant(_d); switchInt(_x) [..]
    -- each block of the inlined body that ends by building a variant of `_d` goes straight to a copy of `cont` whose switch is
    resolved for that variant."""
    if cont is None or cont >= len(blocks):
        return
    cb = blocks[cont]
    st_ = cb['term']
    live = [x for x in cb['stmts'] if x['k'] not in ('storage_live', 'storage_dead', 'nop')]
    if st_['k'] != 'switch' or len(live) != 1 or live[0]['k'] != 'assign' or live[0]['rv'].get('k') != 'discr' or live[0]['rv']['place'] != {'l': d, 'p': []}:
        return
    if op_place(st_['discr']) != {'l': live[0]['lhs']['l'], 'p': []}:
        return
    tg = dict((v, b) for v, b in st_['targets'])

    def reaches_cont(b, seen=()):
        if b == cont:
            return True
        if b in seen or b >= len(blocks):
            return False
        bb = blocks[b]
        if bb['term']['k'] != 'goto' or [x for x in bb['stmts'] if x['k'] not in ('storage_live', 'storage_dead', 'nop')]:
            return False
        return reaches_cont(bb['term']['target'], seen + (b,))
    copies = {}
    for bi in list(region):
        bb = blocks[bi]
        if bb.get('cleanup') or bb['term']['k'] != 'goto':
            continue
        vi = None
        for x in bb['stmts']:
            if x['k'] == 'assign' and x['lhs'] == {'l': d, 'p': []}:
                rv = x['rv']
                vi = rv.get('vi') if (rv.get('k') == 'agg' and rv.get('agg') == 'adt') else None
        if vi is None or not reaches_cont(bb['term']['target']):
            continue
        if vi not in copies:
            blocks.append({'cleanup': False, 'stmts': list(cb['stmts']),
                           'term': {'k': 'goto', 'target': tg.get(vi, st_['otherwise']), 'line': st_['line'], 'exp': False, 'threaded': 'variant %s' % vi}})
            copies[vi] = len(blocks) - 1
        bb['term'] = dict(bb['term'], target=copies[vi], threaded_from=bb['term']['target'])


def inlined_fn(facts, path, pick, tag='inl'):
    """synthetic Fn `<path>{tag}` whose body has the picked private helpers inlined; cached in facts.fns"""
    key = '%s{%s}' % (path, tag)
    if key in facts.fns.synth:
        return facts.fns.synth[key]
    fn = facts.fns[path]
    mir, inl = inline_mir(fn.body.mir, facts, path, pick)
    if not inl:
        return fn
    x = dict(fn.x)
    x['path'] = key
    x['mir'] = mir
    g = Fn(facts, x)
    g.inlined = inl
    g.origin = path
    facts.fns.synth[key] = g
    return g


def self_helper(adt):
    """pick(): private inherent methods of `adt` called on the caller's own self"""
    def pick(g, t):
        return g.impl_self_adt == adt and not g.impl_trait and not g.reachable
    return pick


# --------------------------------------------------------------------------- private aggregates inside the work objects

WORK_ADTS = ('rate::encoder_work::EncoderWork', 'rate::decoder_work::DecoderWork')
CONST_VALUES = {}     # evaluated integer constants of the crate (driver), union over the fact sets loaded
FLAT_ADTS = set()      # union over the fact sets loaded in this process (hcanon has no facts argument)


def flatten_private_aggregates(facts):
    """A private struct used as a field of a work object (a group of counters, a newtype around the bitmap) is a matter of
    representation.  The program is normalised as if its fields were fields of the work object itself, named `f.g`:
    the ADT table, MIR places (direct chains and, through canonical forms, chains through a borrowed sub-object),
    whole-struct stores of an aggregate literal (split per field), HIR field expressions; the inherent methods of such
    structs are inlined at their call sites.  The shard store (the type that hands out ShardsRefMut) is not flattened:
    it is a component with rules of its own."""
    stores = set()
    for f in facts.fns.values():
        if f.impl_self_adt and not f.impl_trait and 'ShardsRefMut' in (f.output or ''):
            stores.add(f.impl_self_adt)
    flat = {}

    def consider(ty):
        a = facts.adts.get(ty)
        if a is None or ty in flat or ty in stores or ty in WORK_ADTS:
            return
        if a.get('kind') != 'struct' or a.get('reachable') or len(a.get('variants', [])) != 1:
            return
        flat[ty] = [(fl['name'], fl['ty']) for fl in a['variants'][0]['fields']]
        for _, t in flat[ty]:
            consider(t)
    for w in WORK_ADTS:
        a = facts.adts.get(w)
        if a is None:
            continue
        for v in a['variants']:
            for fl in v['fields']:
                consider(fl['ty'])
    if not flat:
        return
    facts.flat = flat
    FLAT_ADTS.update(flat)
    # ---- ADT table of the work objects
    def leaves(name, ty):
        if ty in flat:
            out = []
            for g, t in flat[ty]:
                out.extend(leaves(name + '.' + g, t))
            return out
        return [(name, ty)]
    for w in WORK_ADTS:
        a = facts.adts.get(w)
        if a is None:
            continue
        for v in a['variants']:
            nf = []
            for fl in v['fields']:
                for (n, t) in leaves(fl['name'], fl['ty']):
                    d = dict(fl)
                    d['name'], d['ty'] = n, t
                    nf.append(d)
            v['fields'] = nf
    # ---- MIR
    pick = lambda g, t: g.impl_self_adt in flat and not g.impl_trait
    new_mir = {}
    for p, fn in list(facts.fns.items()):
        mir, inl = inline_mir(fn.body.mir, facts, p, pick, depth=3)
        new_mir[p] = _flatten_mir(mir, flat)
    for p, fn in facts.fns.items():
        fn.x['mir'] = new_mir[p]
        fn.body = Body(facts, new_mir[p], p)
        fn.hir = _flatten_hir(fn.hir, flat)
        fn.x['hir'] = fn.hir


def _merge_proj(pr, flat):
    out = []
    for e in pr:
        if isinstance(e, dict) and 'f' in e and out and isinstance(out[-1], dict) and 'f' in out[-1] and e.get('of') in flat and out[-1].get('ty') == e.get('of'):
            prev = dict(out[-1])
            prev['f'] = prev['f'] + '.' + e['f']
            prev['ty'] = e.get('ty')
            out[-1] = prev
        else:
            out.append(e)
    return out


def _flatten_mir(mir, flat):
    def walk(n):
        if isinstance(n, list):
            return [walk(x) for x in n]
        if not isinstance(n, dict):
            return n
        if 'l' in n and 'p' in n and isinstance(n['p'], list):
            d = dict(n)
            d['p'] = _merge_proj(n['p'], flat)
            return d
        return {k: (walk(v) if isinstance(v, (dict, list)) else v) for k, v in n.items()}
    out = dict(mir)
    blocks = walk(mir['blocks'])
    # whole-struct store of an aggregate literal: one store per field
    agg_def = {}
    for b in blocks:
        for st in b['stmts']:
            if st['k'] == 'assign' and not st['lhs']['p'] and st['rv']['k'] == 'agg' and st['rv'].get('agg') == 'adt' and st['rv'].get('adt') in flat:
                agg_def.setdefault(st['lhs']['l'], []).append(st)
    # ... also when the literal travels through plain copies of whole locals (`_14 = copy _37; (*self).f = move _14`)
    copies = {}
    ndefs = defaultdict(int)
    for b in blocks:
        for st in b['stmts']:
            if st['k'] == 'assign' and not st['lhs']['p']:
                ndefs[st['lhs']['l']] += 1
                if st['rv']['k'] == 'use':
                    sp = st['rv']['op'].get('move') or st['rv']['op'].get('copy')
                    if sp is not None and not sp['p']:
                        copies[st['lhs']['l']] = sp['l']
        t_ = b['term']
        if t_['k'] == 'call' and t_.get('dest') and not t_['dest']['p']:
            ndefs[t_['dest']['l']] += 1

    def origin(l):
        seen = 0
        while l in copies and ndefs[l] == 1 and l not in agg_def and seen < 6:
            l = copies[l]
            seen += 1
        return l
    for b in blocks:
        ns = []
        for st in b['stmts']:
            done = False
            if st['k'] == 'assign' and st['lhs']['p'] and st['rv']['k'] == 'use':
                last = st['lhs']['p'][-1]
                src = st['rv']['op'].get('move') or st['rv']['op'].get('copy')
                if src is not None and not src['p']:
                    src = {'l': origin(src['l']), 'p': []}
                if isinstance(last, dict) and last.get('ty') in flat and src is not None and not src['p'] and len(agg_def.get(src['l'], [])) == 1:
                    a = agg_def[src['l']][0]['rv']
                    for fname, op in zip(a.get('fields', []), a.get('ops', [])):
                        lhs = dict(st['lhs'])
                        pr = list(st['lhs']['p'])
                        l2 = dict(last)
                        l2['f'] = last['f'] + '.' + fname
                        l2['ty'] = dict(flat[last['ty']]).get(fname)
                        pr[-1] = l2
                        lhs['p'] = pr
                        s2 = dict(st)
                        s2['lhs'] = lhs
                        s2['rv'] = {'k': 'use', 'op': op}
                        ns.append(s2)
                    done = True
            if not done:
                ns.append(st)
        b['stmts'] = ns
    out['blocks'] = blocks
    return out


def _flatten_hir(n, flat):
    if isinstance(n, list):
        return [_flatten_hir(x, flat) for x in n]
    if not isinstance(n, dict):
        return n
    out = {k: (_flatten_hir(v, flat) if isinstance(v, (dict, list)) else v) for k, v in n.items()}
    if out.get('k') == 'field' and out.get('of') in flat:
        x = out.get('x')
        x0 = x
        while isinstance(x0, dict) and x0.get('k') in ('addrof',) :
            x0 = x0.get('x')
        if isinstance(x0, dict) and x0.get('k') == 'field':
            m = dict(x0)
            m['name'] = x0['name'] + '.' + out['name']
            if 'ty' in out:
                m['ty'] = out['ty']
            return m
    return out


# --------------------------------------------------------------------------- models of std calls


def model_std_calls(mir, facts=None, owner=None):
    """`Option::ok_or(opt, err)` as the match it stands for:
         switch discriminant(opt) { Some => dest = Ok((opt as Some).0), None => dest = Err(err) }
    so that value-flow and path rules see the same thing as for `if let Some(x) = opt { .. } else { return Err(err) }`.
    Returns None when nothing was rewritten."""
    blocks = None
    locals_ = None
    for bi, blk in enumerate(mir['blocks']):
        t = blk['term']
        if t['k'] != 'call' or blk.get('cleanup') or t.get('target') is None:
            continue
        p = t['callee'].get('path') or ''
        if not re.search(r'^std::option::Option::<.*>::ok_or$', p) or len(t['args']) != 2:
            continue
        opt = op_place(t['args'][0])
        if opt is None:
            continue
        if blocks is None:
            blocks = [dict(b) for b in mir['blocks']]
            locals_ = list(mir['locals'])
        d = len(locals_)
        locals_.append({'ty': 'isize', 'user': False, 'mut': False, 'modelled': 'ok_or'})
        line = t['line']
        some_bb, none_bb = len(blocks), len(blocks) + 1
        payload = {'l': opt['l'], 'p': list(opt['p']) + [{'down': 'Some', 'vi': 1}, {'f': '0', 'i': 0, 'ty': '?'}]}
        mk = lambda variant, vi, op: {'k': 'agg', 'agg': 'adt', 'adt': 'std::result::Result', 'variant': variant, 'vi': vi, 'adt_args': [], 'fields': ['0'], 'ops': [op]}
        blocks.append({'cleanup': False, 'stmts': [{'k': 'assign', 'lhs': t['dest'], 'rv': mk('Ok', 0, {'move': payload}), 'line': line, 'exp': False}],
                       'term': {'k': 'goto', 'target': t['target'], 'line': line, 'exp': False}})
        blocks.append({'cleanup': False, 'stmts': [{'k': 'assign', 'lhs': t['dest'], 'rv': mk('Err', 1, t['args'][1]), 'line': line, 'exp': False}],
                       'term': {'k': 'goto', 'target': t['target'], 'line': line, 'exp': False}})
        nb = blocks[bi]
        nb['stmts'] = list(nb['stmts']) + [{'k': 'assign', 'lhs': {'l': d, 'p': []}, 'rv': {'k': 'discr', 'place': opt}, 'line': line, 'exp': False}]
        nb['term'] = {'k': 'switch', 'discr': {'move': {'l': d, 'p': []}}, 'targets': [[0, none_bb], [1, some_bb]], 'otherwise': some_bb, 'line': line, 'exp': False,
                      'modelled': p}
    # ---- `iter.find_map(closure)` over a Range: the loop it stands for, with the closure's body in place
    #        loop { match Range::next(it) { None => break None, Some(i) => if let r @ Some(_) = closure(i) { break r } } }
    src_blocks = blocks if blocks is not None else mir['blocks']
    for bi in range(len(src_blocks)):
        blk = src_blocks[bi]
        t = blk['term']
        if t['k'] != 'call' or blk.get('cleanup') or t.get('target') is None or facts is None:
            continue
        if (t['callee'].get('decl') or t['callee'].get('path')) != 'std::iter::Iterator::find_map' or len(t['args']) != 2:
            continue
        cur_locals = locals_ if locals_ is not None else mir['locals']
        itp, clp = op_place(t['args'][0]), op_place(t['args'][1])
        if itp is None or clp is None or itp['p'] or clp['p']:
            continue
        if not re.search(r'^&mut std::ops::Range<', cur_locals[itp['l']]['ty']):
            continue
        # the closure value: a local built by a closure aggregate
        cdef = None
        for b2 in src_blocks:
            for st in b2['stmts']:
                if st['k'] == 'assign' and st['lhs']['l'] == clp['l'] and not st['lhs']['p'] and st['rv']['k'] == 'agg' and st['rv'].get('agg') == 'closure':
                    cdef = st['rv'].get('closure') if cdef is None else False
        g = facts.fns.get(cdef) if cdef else None
        if g is None or g.body.mir['arg_count'] != 2:
            continue
        if blocks is None:
            blocks = [dict(b) for b in mir['blocks']]
            locals_ = list(mir['locals'])
        line = t['line']
        base = len(locals_)
        L_n, L_d1, L_arg, L_cref, L_r, L_d2 = range(base, base + 6)
        env_ty = g.body.mir['locals'][1]['ty']
        locals_ += [{'ty': 'std::option::Option<usize>', 'user': False, 'mut': False, 'modelled': 'find_map'},
                    {'ty': 'isize', 'user': False, 'mut': False}, {'ty': 'usize', 'user': False, 'mut': False},
                    {'ty': env_ty, 'user': False, 'mut': False}, {'ty': g.body.mir['locals'][0]['ty'], 'user': False, 'mut': True},
                    {'ty': 'isize', 'user': False, 'mut': False}]
        nb = len(blocks)
        H, H2, B, C, S, N = range(nb, nb + 6)
        next_callee = {'path': 'std::iter::range::<impl std::iter::Iterator for std::ops::Range<usize>>::next', 'decl': 'std::iter::Iterator::next',
                       'key': 'std::iter::range::<impl std::iter::Iterator for std::ops::Range<usize>>::next', 'local': False, 'crate': 'core'}
        mk = lambda **kw: dict({'line': line, 'exp': False}, **kw)
        by_ref = env_ty.startswith('&')
        blocks.append({'cleanup': False, 'stmts': [], 'term': mk(k='call', callee=next_callee, args=[{'copy': {'l': itp['l'], 'p': []}}], dest={'l': L_n, 'p': []}, target=H2, fn_line=line)})
        blocks.append({'cleanup': False, 'stmts': [mk(k='assign', lhs={'l': L_d1, 'p': []}, rv={'k': 'discr', 'place': {'l': L_n, 'p': []}})],
                       'term': mk(k='switch', discr={'move': {'l': L_d1, 'p': []}}, targets=[[0, N], [1, B]], otherwise=B)})
        cref_rv = {'k': 'ref', 'mut': True, 'place': {'l': clp['l'], 'p': []}} if by_ref else {'k': 'use', 'op': {'copy': {'l': clp['l'], 'p': []}}}
        blocks.append({'cleanup': False, 'stmts': [mk(k='assign', lhs={'l': L_arg, 'p': []}, rv={'k': 'use', 'op': {'copy': {'l': L_n, 'p': [{'down': 'Some', 'vi': 1}, {'f': '0', 'i': 0, 'ty': 'usize'}]}}}),
                                                 mk(k='assign', lhs={'l': L_cref, 'p': []}, rv=cref_rv)],
                       'term': mk(k='call', callee={'path': g.path, 'key': g.path, 'local': True, 'crate': facts.crate}, args=[{'move': {'l': L_cref, 'p': []}}, {'move': {'l': L_arg, 'p': []}}],
                                  dest={'l': L_r, 'p': []}, target=C, fn_line=line)})
        blocks.append({'cleanup': False, 'stmts': [mk(k='assign', lhs={'l': L_d2, 'p': []}, rv={'k': 'discr', 'place': {'l': L_r, 'p': []}})],
                       'term': mk(k='switch', discr={'move': {'l': L_d2, 'p': []}}, targets=[[1, S]], otherwise=H)})
        blocks.append({'cleanup': False, 'stmts': [mk(k='assign', lhs=t['dest'], rv={'k': 'use', 'op': {'move': {'l': L_r, 'p': []}}})], 'term': mk(k='goto', target=t['target'])})
        none_rv = {'k': 'agg', 'agg': 'adt', 'adt': 'std::option::Option', 'variant': 'None', 'vi': 0, 'adt_args': [], 'fields': [], 'ops': []}
        blocks.append({'cleanup': False, 'stmts': [mk(k='assign', lhs=t['dest'], rv=none_rv)], 'term': mk(k='goto', target=t['target'])})
        blocks[bi] = dict(blocks[bi])
        blocks[bi]['term'] = mk(k='goto', target=H, modelled='Iterator::find_map')
        tmp = dict(mir)
        tmp['blocks'], tmp['locals'] = blocks, locals_
        tmp2, inl = inline_mir(tmp, facts, owner or '?', lambda g_, t_, gp=g.path: g_.path == gp, depth=1)
        blocks, locals_ = tmp2['blocks'], tmp2['locals']
        src_blocks = blocks
    # ---- `cond.then(|| e)`: `if cond { Some(e) } else { None }` with the closure's body in place
    src_blocks = blocks if blocks is not None else mir['blocks']
    for bi in range(len(src_blocks)):
        blk = src_blocks[bi]
        t = blk['term']
        if t['k'] != 'call' or blk.get('cleanup') or t.get('target') is None or facts is None or len(t['args']) != 2:
            continue
        if not re.search(r'bool>?::then$', t['callee'].get('path') or ''):
            continue
        clp = op_place(t['args'][1])
        if clp is None or clp['p']:
            continue
        cdef = None
        for b2 in src_blocks:
            for st in b2['stmts']:
                if st['k'] == 'assign' and st['lhs']['l'] == clp['l'] and not st['lhs']['p'] and st['rv']['k'] == 'agg' and st['rv'].get('agg') == 'closure':
                    cdef = st['rv'].get('closure') if cdef is None else False
        g = facts.fns.get(cdef) if cdef else None
        if g is None or g.body.mir['arg_count'] != 1:
            continue
        if blocks is None:
            blocks = [dict(b) for b in mir['blocks']]
            locals_ = list(mir['locals'])
        line = t['line']
        mk = lambda **kw: dict({'line': line, 'exp': False}, **kw)
        L_v, L_c = len(locals_), len(locals_) + 1
        locals_ += [{'ty': g.body.mir['locals'][0]['ty'], 'user': False, 'mut': False, 'modelled': 'bool::then'},
                    {'ty': g.body.mir['locals'][1]['ty'], 'user': False, 'mut': False}]
        C, S, N = len(blocks), len(blocks) + 1, len(blocks) + 2
        by_ref = g.body.mir['locals'][1]['ty'].startswith('&')
        cref_rv = {'k': 'ref', 'mut': True, 'place': {'l': clp['l'], 'p': []}} if by_ref else {'k': 'use', 'op': {'move': {'l': clp['l'], 'p': []}}}
        blocks.append({'cleanup': False, 'stmts': [mk(k='assign', lhs={'l': L_c, 'p': []}, rv=cref_rv)],
                       'term': mk(k='call', callee={'path': g.path, 'key': g.path, 'local': True, 'crate': facts.crate}, args=[{'move': {'l': L_c, 'p': []}}],
                                  dest={'l': L_v, 'p': []}, target=S, fn_line=line)})
        some_rv = {'k': 'agg', 'agg': 'adt', 'adt': 'std::option::Option', 'variant': 'Some', 'vi': 1, 'adt_args': [], 'fields': ['0'], 'ops': [{'move': {'l': L_v, 'p': []}}]}
        none_rv = {'k': 'agg', 'agg': 'adt', 'adt': 'std::option::Option', 'variant': 'None', 'vi': 0, 'adt_args': [], 'fields': [], 'ops': []}
        blocks.append({'cleanup': False, 'stmts': [mk(k='assign', lhs=t['dest'], rv=some_rv)], 'term': mk(k='goto', target=t['target'])})
        blocks.append({'cleanup': False, 'stmts': [mk(k='assign', lhs=t['dest'], rv=none_rv)], 'term': mk(k='goto', target=t['target'])})
        nb = dict(blocks[bi])
        nb['term'] = mk(k='switch', discr=t['args'][0], targets=[[0, N]], otherwise=C, modelled='bool::then')
        blocks[bi] = nb
        tmp = dict(mir)
        tmp['blocks'], tmp['locals'] = blocks, locals_
        tmp2, inl = inline_mir(tmp, facts, owner or '?', lambda g_, t_, gp=g.path: g_.path == gp, depth=1)
        blocks, locals_ = tmp2['blocks'], tmp2['locals']
        src_blocks = blocks
    # ---- `(a..=b).contains(&x)` / `(a..b).contains(&x)` over integers with constant bounds: the two comparisons it stands for
    src_blocks = blocks if blocks is not None else mir['blocks']
    cur_locals = locals_ if locals_ is not None else mir['locals']

    def single_def(l):
        found = []
        for bj, b2 in enumerate(src_blocks):
            for st in b2['stmts']:
                if st['k'] == 'assign' and st['lhs']['l'] == l:
                    found.append(('stmt', st))
            t2 = b2['term']
            if t2['k'] == 'call' and t2.get('dest') and t2['dest']['l'] == l:
                found.append(('call', t2))
        return found[0] if len(found) == 1 else None

    def through_refs(l, depth=0):
        """the place a chain of shared reborrows `_6 = &(*_7); _7 = &_1` points at"""
        d = single_def(l)
        if d is None or d[0] != 'stmt' or depth > 4:
            return None
        st = d[1]
        if st['lhs']['p'] or st['rv']['k'] != 'ref' or st['rv'].get('mut'):
            return None
        pl = st['rv']['place']
        if not pl['p']:
            return pl['l']
        if pl['p'] == ['*']:
            return through_refs(pl['l'], depth + 1)
        return None
    for bi in range(len(src_blocks)):
        blk = src_blocks[bi]
        t = blk['term']
        if t['k'] != 'call' or blk.get('cleanup') or t.get('target') is None or len(t['args']) != 2:
            continue
        m = re.match(r'^std::ops::(RangeInclusive|Range)::<Idx>::contains$', t['callee'].get('path') or '')
        if not m:
            continue
        rp, xp = op_place(t['args'][0]), op_place(t['args'][1])
        if rp is None or xp is None or rp['p'] or xp['p']:
            continue
        rl, xl = through_refs(rp['l']), through_refs(xp['l'])
        if rl is None or xl is None or cur_locals[xl]['ty'] not in INT_TYS or cur_locals[xl]['ty'].startswith('i'):
            continue
        rd = single_def(rl)
        lo = hi = None
        if m.group(1) == 'RangeInclusive' and rd and rd[0] == 'call' and (rd[1]['callee'].get('path') or '').endswith('RangeInclusive::<Idx>::new') and len(rd[1]['args']) == 2:
            lo, hi = rd[1]['args']
        elif m.group(1) == 'Range' and rd and rd[0] == 'stmt' and rd[1]['rv']['k'] == 'agg' and (rd[1]['rv'].get('adt') or '').endswith('ops::Range') and len(rd[1]['rv'].get('ops', [])) == 2:
            lo, hi = rd[1]['rv']['ops']
        if lo is None or 'const' not in lo or 'const' not in hi:
            continue
        # the value tested must not be written between here and its use: it is a parameter or an immutable user variable
        if cur_locals[xl].get('mut') and not (1 <= xl <= mir['arg_count'] and single_def(xl) is None):
            continue
        if blocks is None:
            blocks = [dict(b) for b in mir['blocks']]
            locals_ = list(mir['locals'])
            src_blocks, cur_locals = blocks, locals_
        line = t['line']
        mk = lambda **kw: dict({'line': line, 'exp': False}, **kw)
        c1, c2 = len(locals_), len(locals_) + 1
        locals_ += [{'ty': 'bool', 'user': False, 'mut': False, 'modelled': 'contains'}, {'ty': 'bool', 'user': False, 'mut': False, 'modelled': 'contains'}]
        x = {'copy': {'l': xl, 'p': []}}
        tgt = blocks[t['target']]
        tt = tgt['term']
        dest = t['dest']
        threaded = (not dest['p'] and not [st for st in tgt['stmts'] if st['k'] not in ('storage_live', 'storage_dead', 'nop')] and tt['k'] == 'switch'
                    and op_place(tt['discr']) == {'l': dest['l'], 'p': []} and len(tt['targets']) == 1 and tt['targets'][0][0] == 0)
        if threaded:
            # nobody else reads the flag
            uses = json.dumps([b2 for j, b2 in enumerate(blocks) if j not in (bi, t['target'])]).count('"l": %d,' % dest['l'])
            threaded = uses == 0
        if threaded:
            F, T = tt['targets'][0][1], tt['otherwise']
        else:
            F, T = len(blocks), len(blocks) + 1
            blocks.append({'cleanup': False, 'stmts': [mk(k='assign', lhs=dest, rv={'k': 'use', 'op': {'const': {'ty': 'bool', 'val': 0}}})], 'term': mk(k='goto', target=t['target'])})
            blocks.append({'cleanup': False, 'stmts': [mk(k='assign', lhs=dest, rv={'k': 'use', 'op': {'const': {'ty': 'bool', 'val': 1}}})], 'term': mk(k='goto', target=t['target'])})
        A = len(blocks)
        blocks.append({'cleanup': False, 'stmts': [mk(k='assign', lhs={'l': c2, 'p': []}, rv={'k': 'bin', 'op': 'Le' if m.group(1) == 'RangeInclusive' else 'Lt', 'a': x, 'b': hi})],
                       'term': mk(k='switch', discr={'move': {'l': c2, 'p': []}}, targets=[[0, F]], otherwise=T, modelled='contains')})
        nb = dict(blocks[bi])
        nb['stmts'] = list(nb['stmts']) + [mk(k='assign', lhs={'l': c1, 'p': []}, rv={'k': 'bin', 'op': 'Le', 'a': lo, 'b': x})]
        nb['term'] = mk(k='switch', discr={'move': {'l': c1, 'p': []}}, targets=[[0, F]], otherwise=A, modelled='contains')
        blocks[bi] = nb
    if blocks is None:
        return None
    out = dict(mir)
    out['blocks'] = blocks
    out['locals'] = locals_
    return out


def model_std_hir(n, facts):
    """`cond.then(|| e)` as `if cond { Some(e) } else { None }` (HIR): the closure takes no argument and is called at most once,
    right here; its body lives in the enclosing function's id space."""
    if isinstance(n, list):
        return [model_std_hir(x, facts) for x in n]
    if not isinstance(n, dict):
        return n
    out = {k: (model_std_hir(v, facts) if isinstance(v, (dict, list)) else v) for k, v in n.items()}
    if out.get('k') == 'mcall' and out.get('name') in ('then', 'then_some') and re.search(r'bool>?::then(_some)?$', out.get('path') or '') and len(out.get('args', [])) == 1:
        arg = out['args'][0]
        body = None
        if out['name'] == 'then' and isinstance(arg, dict) and arg.get('k') == 'closure':
            g = facts.fns.get(arg.get('def'))
            if g is not None and g.hir and not g.hir.get('params'):
                body = model_std_hir(g.hir['value'], facts)
        elif out['name'] == 'then_some':
            return out      # the argument is evaluated eagerly: NOT the same as the if-expression
        if body is not None:
            ty = out.get('ty')
            some = {'k': 'call', 'f': {'k': 'path', 'res': 'def', 'path': 'std::prelude::v1::Some', 'local': False}, 'args': [body], 'ty': ty, 'line': out.get('line')}
            none = {'k': 'path', 'res': 'def', 'path': 'std::prelude::v1::None', 'local': False, 'ty': ty}
            return {'k': 'if', 'cond': out['recv'], 'then': {'k': 'block', 'stmts': [], 'tail': some}, 'else': {'k': 'block', 'stmts': [], 'tail': none},
                    'ty': ty, 'line': out.get('line'), 'modelled': 'bool::then'}
    if out.get('k') == 'mcall' and out.get('name') == 'contains' and (out.get('path') or '') == 'fixedbitset::FixedBitSet::contains' and len(out.get('args', [])) == 1:
        # `bits.contains(i)` is how `bits[i]` is defined (`impl Index<usize> for FixedBitSet`): one spelling
        return {'k': 'index', 'overloaded': 'std::ops::Index::index', 'base_ty': 'fixedbitset::FixedBitSet', 'base': out['recv'], 'idx': out['args'][0],
                'ty': 'bool', 'line': out.get('line'), 'modelled': 'FixedBitSet::contains'}
    return out


INT_TYS = ('usize', 'u8', 'u16', 'u32', 'u64', 'u128', 'isize', 'i8', 'i16', 'i32', 'i64', 'i128')


def defilter_loops(root, facts):
    """`for PAT in ITER.filter(|&p| COND) { BODY }` as `for PAT in ITER { if COND[p := PAT] { BODY } }` (HIR): filter hands on
    exactly the items for which the predicate is true, in order.  Only for a side-effect-free predicate (no calls other than
    overloaded indexing, no assignments) over a by-name loop pattern; `break` / `continue` in BODY keep their meaning because the
    `if` has no else."""
    changed = [0]

    def pure(e):
        return not hir_find(e, lambda m: m.get('k') in ('assign', 'assignop', 'call', 'mcall', 'closure', 'loop', 'ret', 'break'))

    def rec(n):
        if isinstance(n, list):
            return [rec(x) for x in n]
        if not isinstance(n, dict):
            return n
        out = {k: (rec(v) if isinstance(v, (dict, list)) else v) for k, v in n.items()}
        fl = for_loop_parts(out)
        if fl:
            pat, it, body = fl
            it0 = strip_refs(it)
            if it0.get('k') == 'mcall' and it0.get('name') == 'filter' and (it0.get('path') or '').endswith('Iterator::filter') \
                    and len(it0.get('args', [])) == 1 and pat.get('k') == 'bind' and 'sub' not in pat:
                c = strip_refs(it0['args'][0])
                g = facts.fns.get(c.get('def')) if c.get('k') == 'closure' else None
                ps = g.hir.get('params', []) if g is not None and g.hir else []
                if len(ps) == 1:
                    pp = ps[0]['pat'] if ps[0].get('k') == 'ref' else ps[0]
                    if pp.get('k') == 'bind' and 'sub' not in pp and pure(g.hir['value']):
                        loopvar = {'k': 'path', 'res': 'local', 'name': pat['name'], 'id': pat['id'], 'ty': pat.get('ty')}
                        cond = subst_hir(g.hir['value'], {pp['id']: loopvar}, 0)
                        out['scrut']['args'][0] = it0['recv']
                        lp = strip_refs(out['arms'][0]['body'])
                        blk = lp['body']
                        m = strip_refs(blk['stmts'][0]['e'] if blk['stmts'] else blk.get('tail'))
                        for arm in m['arms']:
                            p = arm['pat']
                            pats = p.get('pats') or [f_['pat'] for f_ in p.get('fields', [])] if p.get('k') in ('tuplestruct', 'struct') else None
                            if pats:
                                arm['body'] = {'k': 'block', 'stmts': [{'k': 'expr', 'e': {'k': 'if', 'cond': cond, 'then': arm['body'], 'ty': '()', 'line': out.get('line'),
                                                                                            'modelled': 'filter'}}],
                                               'tail': None, 'ty': '()', 'line': out.get('line'), 'modelled': 'filter'}
                                changed[0] += 1
                                break
        return out
    res = rec(root)
    return res if changed[0] else root


def split_chain_loops(root, facts):
    """`for PAT in (a..b).chain(c..d) { BODY }` as `for PAT in a..b { BODY }  for PAT in c..d { BODY }` (HIR): a chain of two
    half-open integer ranges yields a, .., b-1, c, .., d-1 in that order.  The iterator may be written in place, bound to an
    immutable local first (used directly or through `.clone()`), or produced by calling a local argument-less closure; the four
    bounds must be immutable integer locals, constants or literals so that evaluating them once (chain) or twice (two loops) is
    the same.  `break` inside BODY would leave only the first of the two loops, so bodies containing a `break` are left alone."""
    lets, muts = {}, set()
    for (m, _) in hir_find(root, lambda m: m.get('k') == 'let' and isinstance(m.get('pat'), dict) and m['pat'].get('k') == 'bind'):
        if m['pat'].get('mode', '').endswith('Not)') and isinstance(m.get('init'), dict) and 'else' not in m:
            lets[m['pat']['id']] = m['init']
    for (m, _) in hir_find(root, lambda m: m.get('k') == 'bind' and not m.get('mode', '').endswith('Not)')):
        muts.add(m.get('id'))

    def stable(e):
        e = strip_refs(e)
        k = e.get('k')
        if k == 'lit':
            return True
        if k == 'path':
            if e.get('res') == 'local':
                return e.get('id') not in muts and (e.get('ty') or '') in INT_TYS
            return e.get('def_kind') in ('Const', 'AssocConst', 'ConstParam')
        if k == 'bin' and not e.get('overloaded'):
            return stable(e['l']) and stable(e['r'])
        if k == 'cast':
            return stable(e['x'])
        return False

    def resolve(it, depth=0):
        it = strip_refs(it)
        if depth > 3:
            return None
        k = it.get('k')
        if k == 'mcall' and it.get('name') == 'chain' and (it.get('path') or '').endswith('Iterator::chain') and len(it.get('args', [])) == 1:
            a, b = is_range_struct(it['recv']), is_range_struct(it['args'][0])
            if a and b and all(x is not None for x in a[:2] + b[:2]) and not a[2] and not b[2] and all(stable(x) for x in a[:2] + b[:2]):
                return strip_refs(it['recv']), strip_refs(it['args'][0])
            return None
        if k == 'mcall' and it.get('name') == 'clone' and not it.get('args'):
            return resolve(it['recv'], depth + 1)
        if k == 'path' and it.get('res') == 'local' and it.get('id') in lets:
            return resolve(lets[it['id']], depth + 1)
        if k == 'call' and not it.get('args') and it['f'].get('k') == 'path' and it['f'].get('res') == 'local' and it['f'].get('id') in lets:
            c = strip_refs(lets[it['f']['id']])
            g = facts.fns.get(c.get('def')) if c.get('k') == 'closure' else None
            if g is not None and g.hir and not g.hir.get('params'):
                v = strip_refs(g.hir['value'])
                while v.get('k') == 'block' and not v.get('stmts') and v.get('tail') is not None:
                    v = strip_refs(v['tail'])
                return resolve(v, depth + 1)
        return None

    changed = [0]

    def rec(n):
        if isinstance(n, list):
            return [rec(x) for x in n]
        if not isinstance(n, dict):
            return n
        out = {k: (rec(v) if isinstance(v, (dict, list)) else v) for k, v in n.items()}
        fl = for_loop_parts(out)
        if fl:
            parts = resolve(fl[1])
            if parts and not hir_find(fl[2], lambda m: m.get('k') == 'break'):
                loops = []
                for rg in parts:
                    c = copy.deepcopy(out)
                    c['scrut']['args'][0] = copy.deepcopy(rg)
                    c['modelled'] = 'chain-of-ranges'
                    loops.append({'k': 'expr', 'e': c})
                changed[0] += 1
                return {'k': 'block', 'stmts': loops, 'tail': None, 'ty': '()', 'line': out.get('line'), 'modelled': 'chain-of-ranges'}
        return out
    res = rec(root)
    return res if changed[0] else root


def _ty_adt(ty):
    """`a::b::C<..>` -> `a::b::C` (None for references, projections, parameters)"""
    if not isinstance(ty, str) or not re.match(r'^[A-Za-z_][\w:]*(<.*>)?$', ty) or '::' not in ty:
        return None
    return ty.split('<', 1)[0]


def _generic_args(ty):
    """top-level generic arguments of `a::B<X, Y<Z>>` -> ['X', 'Y<Z>']"""
    if '<' not in ty or not ty.endswith('>'):
        return []
    inner = ty[ty.index('<') + 1:-1]
    out, depth, cur = [], 0, ''
    for ch in inner:
        if ch in '<([':
            depth += 1
        elif ch in '>)]':
            depth -= 1
        if ch == ',' and depth == 0:
            out.append(cur.strip())
            cur = ''
        else:
            cur += ch
    if cur.strip():
        out.append(cur.strip())
    return out


def provided_forwarder(facts, path):
    """If crate trait method `path` is a provided method whose body only forwards all its parameters, in order, to one method of
    an associated type of Self -- `fn encoder(a, b) -> .. { Self::RateEncoder::new(a, b) }` -- return
    (trait of the projection, associated type name, callee dict); else None."""
    fn = facts.fns.get(path)
    if fn is None or not fn.in_trait:
        return None
    body = fn.body
    calls = [(b, t) for b, t in body.calls() if not body.mir['blocks'][b].get('cleanup')]
    if len(calls) != 1:
        return None
    b, t = calls[0]
    cal = t['callee']
    m = re.match(r'^<Self as ([\w:]+)(<.*>)?>::(\w+)$', cal.get('self_ty') or '')
    if not m or not cal.get('unresolved') or b != 0 or len(t['args']) != body.mir['arg_count']:
        return None
    for i, a in enumerate(t['args']):
        c = body.canon_op(a)
        if not (c[0] == 'param' and fn.param_names()[i:i + 1] == [c[1]]):
            return None
    d = t.get('dest')
    if not d or d['l'] != 0 or d['p'] or t.get('target') is None:
        return None
    tb = body.mir['blocks'][t['target']]
    if tb['stmts'] or tb['term']['k'] != 'return':
        return None
    for blk in body.mir['blocks']:
        if blk.get('cleanup'):
            continue
        for st in blk['stmts']:
            if not (st['k'] == 'assign' and st['rv'].get('k') == 'use') and st['k'] not in ('storage_live', 'storage_dead', 'nop'):
                return None
    return m.group(1), m.group(3), cal


def devirt_provided_forwarders(facts):
    """`HighRate::<E>::encoder(..)`, a provided trait method nobody overrides whose body is `Self::RateEncoder::new(..)`, names the
    same function as `HighRateEncoder::<E>::new(..)`: calls to such forwarders with a concrete Self are rewritten to their target
    (MIR callee and HIR path), repeatedly (`HighRateEncoder::<E>::validate` -> `HighRate::<E>::validate`)."""
    impls = defaultdict(dict)        # (trait, adt) -> impl
    for im in facts.impls:
        a = _ty_adt(im.get('self_ty'))
        if a and im.get('trait'):
            impls[(im['trait'], a)] = im
    fw = {}
    n = [0]

    def resolve(decl, self_ty, depth=0):
        """-> (decl, self_ty, path, trait, trait_ref) of the function finally named, or None when nothing changes"""
        if depth > 3:
            return None
        if decl not in fw:
            fw[decl] = provided_forwarder(facts, decl)
        f = fw[decl]
        adt = _ty_adt(self_ty)
        if f is None or adt is None:
            return None
        tr, assoc, cal = f
        fn = facts.fns[decl]
        im = impls.get((tr, adt))
        if im is None:
            return None
        # the concrete type does not override the provided method
        if fn.in_trait == tr and any(it['name'] == fn.name and it['kind'] == 'Fn' for it in im['items']):
            return None
        if fn.in_trait != tr:
            own = impls.get((fn.in_trait, adt))
            if own is None or any(it['name'] == fn.name and it['kind'] == 'Fn' for it in own['items']):
                return None
        tys = [it['ty'] for it in im['items'] if it['name'] == assoc and it['kind'] == 'Type']
        if len(tys) != 1 or _ty_adt(tys[0]) is None:
            return None
        T = tys[0]
        tim = impls.get((cal['trait'], _ty_adt(T)))
        if tim is None:
            return None
        name = cal['decl'].rsplit('::', 1)[1]
        own = [it['path'] for it in tim['items'] if it['name'] == name and it['kind'] == 'Fn']
        tref = tim.get('trait_ref') or cal['trait']
        # the impl is generic (`impl<E> Rate<E> for DefaultRate<E>`), the call may be concrete (`DefaultRate<DefaultEngine>`)
        ga, gb = _generic_args(im.get('self_ty') or ''), _generic_args(self_ty or '')
        if ga and len(ga) == len(gb):
            subs = [(a, b) for a, b in zip(ga, gb) if a != b and re.match(r'^[A-Z]\w*$', a)]
            if subs:
                fixd = _subst_types({'ty': T, 'self_ty': tref}, subs)
                T, tref = fixd['ty'], fixd['self_ty']
        res = (cal['decl'], T, own[0] if own else cal['decl'], cal['trait'], tref)
        if not own:
            deeper = resolve(cal['decl'], T, depth + 1)
            if deeper:
                return deeper
        return res

    for f in list(facts.fns.values()):
        for b, t in f.body.calls():
            cal = t['callee']
            d = cal.get('decl')
            if not cal.get('local') or d not in facts.fns or cal.get('path') != d or cal.get('unresolved'):
                continue
            r = resolve(d, cal.get('self_ty'))
            if r is None:
                continue
            decl, T, path, tr, tref = r
            key = '<%s as %s>::%s' % (T, tref, decl.rsplit('::', 1)[1])
            cal.update({'decl': decl, 'self_ty': T, 'path': path, 'trait': tr, 'key': key, 'decl_args': [T] + list(cal.get('decl_args') or [])[1:],
                        'devirt_from': d})
            n[0] += 1
        if f.hir:
            def visit(nd, parents):
                if nd.get('k') == 'path' and nd.get('def_kind') == 'AssocFn' and nd.get('path') in facts.fns and facts.fns[nd['path']].in_trait and nd.get('self_ty'):
                    r = resolve(nd['path'], nd['self_ty'])
                    if r:
                        nd['devirt_from'] = nd['path']
                        nd['path'], nd['self_ty'] = r[2], r[1]
            hir_walk(f.hir, visit)
    facts.devirt = n[0]


_TYPE_KEYS = {'ty', 'self_ty', 'recv_ty', 'base_ty', 'scrut_ty', 'to', 'from', 'of', 'output', 'impl_self'}


def _subst_types(n, subs):
    """copy of JSON value n with generic parameter names replaced by concrete types in every type-valued string"""
    def fix(sv):
        for a, b in subs:
            sv = re.sub(r'(?<![\w:])%s(?![\w])' % re.escape(a), lambda m_: b, sv)
        return sv
    if isinstance(n, dict):
        out = {}
        for k, v in n.items():
            if isinstance(v, str) and k in _TYPE_KEYS:
                out[k] = fix(v)
            elif k in ('inputs', 'decl_args', 'args', 'adt_args') and isinstance(v, list) and all(isinstance(x_, str) for x_ in v):
                out[k] = [fix(x_) for x_ in v]
            else:
                out[k] = _subst_types(v, subs)
        return out
    if isinstance(n, list):
        return [_subst_types(x_, subs) for x_ in n]
    return n


def monomorphise_private_generics(facts):
    """Crate-private generic code shared between types -- provided methods of a private trait (`trait Butterfly { fn fft_private(&self, ..)
    { .. self.fft_butterfly_partial(..) .. } }`) or private generic functions (`fn fft<B: Butterfly>(engine: &B, ..)`) -- is analysed
    the way the compiler builds it: one copy per concrete crate type it is instantiated for, with the calls on the type parameter
    resolved (the driver records every instance and its resolved callees).  The copy is named by its instance key, belongs to the
    concrete type, and every call of the generic original with that instantiation is pointed at it (MIR callee and HIR path)."""
    param_like = lambda a: bool(re.match(r'^[A-Z][A-Za-z0-9]*$', a))
    ident = {}
    for k, inst in facts.instances.items():
        if inst.get('args') and all(param_like(a) for a in inst['args']):
            ident.setdefault(inst['def'], (k, inst))
    made = {}
    for k, inst in sorted(facts.instances.items()):
        d = inst.get('def')
        g = facts.fns.get(d)
        if g is None or k in facts.fns or d not in ident or g.reachable or g.kind not in ('Fn', 'AssocFn') or g.hir is None:
            continue
        ik, iinst = ident[d]
        if k == ik or len(inst['args']) != len(iinst['args']):
            continue
        subs = [(a, b) for a, b in zip(iinst['args'], inst['args']) if a != b]
        conc = [b for a, b in subs if _ty_adt(b) in facts.adts]
        if not conc:
            continue
        # only code that really dispatches on the parameter: some call is unresolved in the generic original
        if not any(c.get('unresolved') for c in iinst.get('calls', {}).values()):
            continue
        x = _subst_types(copy.deepcopy({kk: vv for kk, vv in g.x.items()}), subs)
        x['path'] = k
        x['reachable'] = False
        x['impl_self_adt'] = _ty_adt(conc[0])
        x['impl_self'] = conc[0]
        if g.in_trait:
            x['impl_trait'] = g.in_trait
            x['in_trait'] = None
        x['mono_of'] = d
        for bi, blk in enumerate(x['mir']['blocks']):
            t = blk['term']
            if t['k'] == 'call' and str(bi) in inst.get('calls', {}):
                t['callee'] = dict(inst['calls'][str(bi)])
        made[k] = x
    # keep the copies somebody calls: from a function of the program, or from a copy that is kept
    wanted = set()
    for f in facts.fns.values():
        for b, t in f.body.calls():
            if t['callee'].get('key') in made:
                wanted.add(t['callee']['key'])
    work = list(wanted)
    while work:
        k = work.pop()
        for blk in made[k]['mir']['blocks']:
            t = blk['term']
            if t['k'] == 'call' and t['callee'].get('key') in made and t['callee']['key'] not in wanted:
                wanted.add(t['callee']['key'])
                work.append(t['callee']['key'])
    made = {k: x for k, x in made.items() if k in wanted}
    if not made:
        return 0
    for k, x in made.items():
        facts.fns[k] = Fn(facts, x)
    # point every call of an instantiated generic at its copy
    for f in list(facts.fns.values()):
        res = defaultdict(set)
        for b, t in f.body.calls():
            cal = t['callee']
            key = cal.get('key')
            if key in made and cal.get('path') != key:
                cal['mono_from'] = cal.get('path')
                cal['path'] = key
            if cal.get('decl'):
                res[cal['decl']].add(cal.get('path'))
        if f.hir is None:
            continue
        uniq = {dcl: list(ps)[0] for dcl, ps in res.items() if len(ps) == 1 and list(ps)[0] != dcl and list(ps)[0] in facts.fns}
        if not uniq:
            continue

        def visit(nd, parents):
            if nd.get('k') in ('mcall', 'path') and nd.get('path') in uniq:
                nd['mono_from'] = nd['path']
                nd['path'] = uniq[nd['path']]
        hir_walk(f.hir, visit)
    facts._cg = None
    return len(made)


def inline_trivial_constructors(facts):
    """`WorkRegion::new(base, count)` whose whole body is `Self { base_pos: base, count }` is the struct literal: calls of such
    private constructors become aggregate assignments (MIR) and struct expressions (HIR), so that the normalisations for private
    structs built by a literal (parameter splitting, flattening of private aggregates) apply to them as well."""
    ctors = {}
    for p, g in facts.fns.items():
        if g.reachable or g.impl_trait or g.in_trait or g.kind not in ('Fn', 'AssocFn') or not g.hir:
            continue
        mir = g.body.mir
        blocks = [b for b in mir['blocks'] if not b.get('cleanup')]
        if len(blocks) != 1 or blocks[0]['term']['k'] != 'return':
            continue
        sts = [st for st in blocks[0]['stmts'] if st['k'] not in ('storage_live', 'storage_dead', 'nop')]
        # copies of parameters into temporaries, then one aggregate into _0
        tmp = {}
        agg = None
        ok = True
        for st in sts:
            if st['k'] != 'assign' or st['lhs']['p']:
                ok = False
                break
            rv = st['rv']
            if st['lhs']['l'] == 0 and rv['k'] == 'agg' and rv.get('agg') == 'adt' and agg is None:
                agg = rv
            elif rv['k'] == 'use' and op_place(rv['op']) is not None and not op_place(rv['op'])['p'] and 1 <= op_place(rv['op'])['l'] <= mir['arg_count'] and agg is None:
                tmp[st['lhs']['l']] = op_place(rv['op'])['l']
            else:
                ok = False
                break
        if not ok or agg is None or _ty_adt(mir['locals'][0]['ty']) != agg.get('adt') or agg.get('adt') not in facts.adts or facts.adts[agg['adt']].get('reachable'):
            continue
        srcs = []
        for o in agg['ops']:
            if 'const' in o:
                srcs.append(('const', o))
                continue
            pl = op_place(o)
            if pl is None or pl['p']:
                srcs = None
                break
            l = tmp.get(pl['l'], pl['l'])
            if not (1 <= l <= mir['arg_count']):
                srcs = None
                break
            srcs.append(('arg', l - 1))
        if srcs is None or sorted(x[1] for x in srcs if x[0] == 'arg') != list(range(mir['arg_count'])):
            continue        # every parameter is used exactly once (nothing is dropped or duplicated)
        ctors[p] = (agg, srcs)
    if not ctors:
        return 0
    n = 0
    for f in list(facts.fns.values()):
        mir = f.body.mir
        changed = False
        for blk in mir['blocks']:
            t = blk['term']
            if t['k'] != 'call' or t.get('target') is None or (t['callee'].get('path') not in ctors) or f.path == t['callee'].get('path'):
                continue
            agg, srcs = ctors[t['callee']['path']]
            ops = [(x[1] if x[0] == 'const' else t['args'][x[1]]) for x in srcs]
            rv = dict(agg)
            rv['ops'] = ops
            blk['stmts'] = list(blk['stmts']) + [{'k': 'assign', 'lhs': t['dest'], 'rv': rv, 'line': t['line'], 'exp': False, 'modelled': 'constructor'}]
            blk['term'] = {'k': 'goto', 'target': t['target'], 'line': t['line'], 'exp': False}
            changed = True
            n += 1
        if changed:
            f.body = Body(facts, mir, f.path)
        if f.hir:
            def rec(nd):
                if isinstance(nd, list):
                    return [rec(x) for x in nd]
                if not isinstance(nd, dict):
                    return nd
                out = {k: (rec(v) if isinstance(v, (dict, list)) else v) for k, v in nd.items()}
                if out.get('k') == 'call' and isinstance(out.get('f'), dict) and out['f'].get('k') == 'path' and out['f'].get('path') in ctors:
                    agg, srcs = ctors[out['f']['path']]
                    g = facts.fns[out['f']['path']]
                    if len(out['args']) == g.body.mir['arg_count']:
                        flds = []
                        for name, x in zip(agg.get('fields', []), srcs):
                            e = out['args'][x[1]] if x[0] == 'arg' else {'k': 'lit', 'int': x[1]['const'].get('val'), 'ty': x[1]['const'].get('ty')}
                            flds.append({'name': name, 'e': e})
                        return {'k': 'struct', 'path': {'res': 'def', 'def_kind': 'Struct', 'path': agg['adt'], 'local': True}, 'adt': agg['adt'], 'fields': flds,
                                'ty': out.get('ty'), 'line': out.get('line'), 'modelled': 'constructor'}
                return out
            f.hir = rec(f.hir)
            f.x['hir'] = f.hir
    facts._cg = None
    return n


def inline_unit_tries(hir, facts, depth=0, counter=None):
    """`helper(args)?;` whose value is discarded, helper a private crate function returning Result<_, Error>: the statement is
    replaced by the helper's body in early-return form (`Ok(_)` in result position -> nothing, `Err(e)` -> `return Err(e)`,
    if / match / block position-wise), recursively.  The `?` applies no conversion (same error type), so the outer function
    returns exactly what it returned before.  Used by rules that read a validator's decision atoms from its typed HIR."""
    counter = counter if counter is not None else [0]

    def result_form(e):
        """statement list equivalent to `e?;` for a Result-valued expression e, or None"""
        e0 = strip_refs(e)
        k = e0.get('k')
        if k == 'call' and isinstance(e0.get('f'), dict) and e0['f'].get('k') == 'path':
            pth = e0['f'].get('path') or ''
            if pth.endswith('::Ok'):
                return []
            if pth.endswith('::Err'):
                return [{'k': 'expr', 'e': {'k': 'ret', 'x': e0, 'line': e0.get('line')}}]
            g = facts.fns.get(pth)
            if g is not None and depth < 3:
                inl = inline_call(e0, g)
                if inl is not None:
                    return inl
            return None
        if k == 'block' and not e0.get('unsafe'):
            body = rec_block(e0)
            if body.get('tail') is None:
                return None
            t = result_form(body['tail'])
            if t is None:
                return None
            return list(body.get('stmts', [])) + t
        if k == 'if' and 'else' in e0:
            a, b = result_form(e0['then']), result_form(e0['else'])
            if a is None or b is None:
                return None
            n2 = dict(e0)
            n2['then'] = {'k': 'block', 'stmts': a, 'tail': None, 'ty': '()'}
            n2['else'] = {'k': 'block', 'stmts': b, 'tail': None, 'ty': '()'}
            n2['ty'] = '()'
            return [{'k': 'expr', 'e': n2}]
        if k == 'match' and not str(e0.get('source', '')).startswith(('TryDesugar', 'ForLoopDesugar')):
            arms = []
            for a in e0.get('arms', []):
                r = result_form(a['body'])
                if r is None:
                    return None
                a2 = dict(a)
                a2['body'] = {'k': 'block', 'stmts': r, 'tail': None, 'ty': '()'}
                arms.append(a2)
            n2 = dict(e0)
            n2['arms'] = arms
            n2['ty'] = '()'
            return [{'k': 'expr', 'e': n2}]
        return None

    def inline_call(call, g):
        if g.reachable or g.impl_trait or g.in_trait or g.kind not in ('Fn', 'AssocFn') or not g.hir \
                or not (g.output or '').startswith('std::result::Result<') or not (g.output or '').endswith(', Error>'):
            return None
        params = g.hir.get('params', [])
        args = call.get('args', [])
        if len(params) != len(args) or not all(p.get('k') == 'bind' and p.get('mode', '').endswith('Not)') for p in params):
            return None
        if hir_find(g.hir['value'], lambda m: m.get('k') == 'closure'):
            return None
        from .c05 import subst_hir
        counter[0] += 1
        body = subst_hir(g.hir['value'], {p['id']: a for p, a in zip(params, args)}, 3000000 + 10000 * counter[0])
        sub = inline_unit_tries(body, facts, depth + 1, counter)
        return result_form_of(sub)

    def result_form_of(body):
        return result_form(body)

    def try_parts(e):
        e0 = strip_refs(e) if isinstance(e, dict) else None
        if not isinstance(e0, dict) or e0.get('k') != 'match' or not str(e0.get('source', '')).startswith('TryDesugar'):
            return None
        sc = e0.get('scrut', {})
        if sc.get('k') == 'call' and sc['f'].get('k') == 'path' and (sc['f'].get('path') or '').endswith('Try::branch') and len(sc.get('args', [])) == 1:
            inner = strip_refs(sc['args'][0])
            if inner.get('k') == 'call' and isinstance(inner.get('f'), dict) and inner['f'].get('k') == 'path' and inner['f'].get('path') in facts.fns:
                return inner
        return None

    def rec_block(b):
        out = dict(b)
        stmts = []
        for st in b.get('stmts', []):
            done = False
            if st.get('k') == 'expr':
                inner = try_parts(st.get('e'))
                if inner is not None and depth < 3:
                    r = inline_call(inner, facts.fns[inner['f']['path']])
                    if r is not None:
                        stmts.extend(r)
                        done = True
            if not done:
                stmts.append(rec(st))
        out['stmts'] = stmts
        if b.get('tail') is not None:
            out['tail'] = rec(b['tail'])
        return out

    def rec(n):
        if isinstance(n, list):
            return [rec(x) for x in n]
        if not isinstance(n, dict):
            return n
        if n.get('k') == 'block':
            return rec_block(n)
        return {k: (rec(v) if isinstance(v, (dict, list)) else v) for k, v in n.items()}
    return rec(hir)


def _subst_local_hir(n, lid, repl):
    if isinstance(n, list):
        return [_subst_local_hir(x, lid, repl) for x in n]
    if not isinstance(n, dict):
        return n
    if n.get('k') == 'path' and n.get('res') == 'local' and n.get('id') == lid:
        return dict(repl)
    return {k: (_subst_local_hir(v, lid, repl) if isinstance(v, (dict, list)) else v) for k, v in n.items()}


def specialise_on_enum_consts(facts):
    """`fn add_shard(&mut self, kind: ShardKind, ..)` with `match kind { Original => .., Recovery => .. }` inside, called only
    with literal variants of a private field-less enum, is the pair `add_shard#Original` / `add_shard#Recovery` it was folded
    from: one copy per variant used, the `match`es on the parameter resolved (HIR: the arm's body; MIR: the discriminant read
    becomes the constant and the switch a goto), every call site pointed at its copy.  The generic original is dropped when no
    other use remains."""
    enums = {}
    for ap, a in facts.adts.items():
        if a.get('kind') == 'enum' and not a.get('reachable') and a.get('variants') and all(not v.get('fields') for v in a['variants']):
            enums[ap] = [v['name'] for v in a['variants']]
    if not enums:
        return 0
    sites = defaultdict(list)
    for f in facts.fns.values():
        for b, t in f.body.calls():
            q = t['callee'].get('path')
            if q in facts.fns and t['callee'].get('local'):
                sites[q].append((f, b, t))
    made = 0
    for gp, g in sorted(list(facts.fns.items())):
        if g.reachable or g.impl_trait or g.in_trait or g.kind not in ('Fn', 'AssocFn') or not g.hir or not sites.get(gp) or g.x.get('mono_of'):
            continue
        mir = g.body.mir
        eparams = [i for i in range(1, mir['arg_count'] + 1) if mir['locals'][i]['ty'] in enums and i not in (g.x.get('specialised_params') or [])]
        if len(eparams) != 1 or len(g.hir.get('params', [])) != mir['arg_count']:
            continue
        pi = eparams[0]
        E = mir['locals'][pi]['ty']
        ppat = g.hir['params'][pi - 1]
        if ppat.get('k') != 'bind' or not ppat.get('mode', '').endswith('Not)'):
            continue
        # the parameter is only ever matched on / its discriminant read
        # the parameter is only matched on (discriminant reads) or handed on by value (whole-local copies / moves)
        only_discr = True

        def scan_uses(n, ctx_key=None):
            nonlocal only_discr
            if isinstance(n, list):
                for x_ in n:
                    scan_uses(x_, ctx_key)
            elif isinstance(n, dict):
                if n.get('l') == pi and 'p' in n and isinstance(n['p'], list):
                    if n['p'] or ctx_key not in ('copy', 'move', 'discr_place'):
                        only_discr = False
                    return
                for k_, v_ in n.items():
                    if isinstance(v_, (dict, list)):
                        scan_uses(v_, 'discr_place' if (k_ == 'place' and n.get('k') == 'discr') else k_)
        for blk in mir['blocks']:
            for st in blk['stmts']:
                if st['k'] in ('storage_live', 'storage_dead'):
                    continue
                if st['k'] == 'assign' and st['lhs'].get('l') == pi:
                    only_discr = False
                scan_uses(st.get('rv'))
                if st['k'] == 'assign' and st['lhs'].get('p'):
                    scan_uses(st['lhs']['p'])
            tm = blk['term']
            scan_uses(tm.get('args', []))
            scan_uses(tm.get('discr', {}))
            if tm.get('dest', {}).get('l') == pi:
                only_discr = False
        if not only_discr:
            continue
        # every call site passes a literal variant
        variants = {}
        okk = True
        for (f, b, t) in sites[gp]:
            if len(t['args']) != mir['arg_count']:
                okk = False
                break
            pl = op_place(t['args'][pi - 1])
            v = None
            hops = 0
            while pl is not None and not pl['p'] and hops < 5:
                hops += 1
                ds = [d for d in f.body.defs().get(pl['l'], []) if d[0] == 'stmt']
                if len(ds) != 1 or len(f.body.defs().get(pl['l'], [])) != 1:
                    break
                rv = f.body.blocks[ds[0][1]]['stmts'][ds[0][2]]['rv']
                if rv['k'] == 'agg' and rv.get('adt') == E and not rv.get('ops'):
                    v = (rv['variant'], rv['vi'])
                    break
                pl = op_place(rv['op']) if rv['k'] == 'use' else None
            if v is None:
                okk = False
                break
            variants[(f.path, b)] = v
        if not okk or not variants:
            continue

        def spec_hir(n, vname):
            if isinstance(n, list):
                return [spec_hir(x, vname) for x in n]
            if not isinstance(n, dict):
                return n
            out = {k: (spec_hir(v, vname) if isinstance(v, (dict, list)) else v) for k, v in n.items()}
            if out.get('k') == 'match' and not str(out.get('source', '')).startswith(('TryDesugar', 'ForLoopDesugar')):
                sc = strip_refs(out['scrut'])
                if sc.get('k') == 'path' and sc.get('res') == 'local' and sc.get('id') == ppat['id']:
                    def pick(arms):
                        # the arms that can match this variant, in order; a guarded one falls through to the rest when its
                        # guard is false: `V if g => a, .., V => b`  is  `if g { a } else { b }`
                        for i_, a in enumerate(arms):
                            pt = a['pat']
                            pth = (pt.get('path') or {}).get('path') if isinstance(pt.get('path'), dict) else pt.get('path')
                            if pt.get('k') == 'wild' or (pt.get('k') in ('patexpr', 'path') and pth == '%s::%s' % (E, vname)):
                                if 'guard' not in a:
                                    return a['body']
                                if not isinstance(a['guard'], dict) or a['guard'].get('k') == 'let':
                                    return None
                                rest = pick(arms[i_ + 1:])
                                if rest is None:
                                    return None
                                return {'k': 'if', 'cond': a['guard'], 'then': a['body'], 'else': rest, 'ty': out.get('ty'),
                                        'line': a.get('line') or out.get('line'), 'span': out.get('span'), 'specialised': True}
                            elif pt.get('k') not in ('patexpr', 'path'):
                                return None
                        return None
                    r_ = pick(out['arms'])
                    return out if r_ is None else r_
            return out
        for vname, vi in sorted(set(variants.values())):
            x = copy.deepcopy({k: v for k, v in g.x.items()})
            x['path'] = '%s#%s' % (gp, vname)
            x['specialised_from'] = gp
            x['specialised_params'] = list(g.x.get('specialised_params') or []) + [pi]
            x['hir'] = spec_hir(x['hir'], vname)
            vpath = {'k': 'path', 'res': 'def', 'def_kind': 'Ctor(Variant, Const)', 'path': '%s::%s' % (E, vname), 'local': True, 'ty': E}
            x['hir'] = dict(x['hir'], value=_subst_local_hir(x['hir']['value'], ppat['id'], vpath))
            ctmp = len(x['mir']['locals'])
            x['mir']['locals'].append({'ty': E, 'user': False, 'mut': False, 'specialised_const': vname})

            def rewrite_ops(n):
                if isinstance(n, list):
                    return [rewrite_ops(y_) for y_ in n]
                if isinstance(n, dict):
                    for key_ in ('copy', 'move'):
                        if key_ in n and isinstance(n[key_], dict) and n[key_].get('l') == pi and not n[key_].get('p'):
                            return {'copy': {'l': ctmp, 'p': []}}
                    return {k_: (rewrite_ops(v_) if isinstance(v_, (dict, list)) else v_) for k_, v_ in n.items()}
                return n
            for blk in x['mir']['blocks']:
                blk['stmts'] = [(dict(st, rv=rewrite_ops(st['rv'])) if st['k'] == 'assign' and st['rv'].get('k') != 'discr' else st) for st in blk['stmts']]
                if 'args' in blk['term']:
                    blk['term'] = dict(blk['term'], args=rewrite_ops(blk['term']['args']))
            b0 = x['mir']['blocks'][0]
            b0['stmts'] = [{'k': 'assign', 'lhs': {'l': ctmp, 'p': []}, 'rv': {'k': 'agg', 'agg': 'adt', 'adt': E, 'variant': vname, 'vi': vi, 'adt_args': [], 'fields': [], 'ops': []},
                            'line': b0['term'].get('line'), 'exp': False, 'specialised': True}] + list(b0['stmts'])
            for blk in x['mir']['blocks']:
                for st in blk['stmts']:
                    if st['k'] == 'assign' and st['rv'].get('k') == 'discr' and st['rv']['place'] == {'l': pi, 'p': []}:
                        st['rv'] = {'k': 'use', 'op': {'const': {'ty': 'isize', 'val': vi}}}
                        dl = st['lhs']['l'] if not st['lhs']['p'] else None
                        t = blk['term']
                        if dl is not None and t['k'] == 'switch' and op_place(t['discr']) == {'l': dl, 'p': []}:
                            tgt = [tg for (val, tg) in t['targets'] if val == vi]
                            blk['term'] = {'k': 'goto', 'target': tgt[0] if tgt else t['otherwise'], 'line': t['line'], 'exp': False, 'specialised': True}
            # arms that can no longer be reached assign nothing (their definitions would blur single-definition lookups)
            succ = lambda bb_: ([bb_['term'].get('target')] if bb_['term'].get('target') is not None else []) + [tg for (_, tg) in bb_['term'].get('targets', [])] \
                + ([bb_['term']['otherwise']] if bb_['term'].get('otherwise') is not None else []) + ([bb_['term']['unwind']] if isinstance(bb_['term'].get('unwind'), int) else []) \
                + ([bb_['term']['cleanup']] if isinstance(bb_['term'].get('cleanup'), int) else [])
            seen_, todo_ = {0}, [0]
            while todo_:
                for nx in succ(x['mir']['blocks'][todo_.pop()]):
                    if isinstance(nx, int) and nx not in seen_ and 0 <= nx < len(x['mir']['blocks']):
                        seen_.add(nx)
                        todo_.append(nx)
            for bi_, bb_ in enumerate(x['mir']['blocks']):
                if bi_ not in seen_ and not bb_.get('cleanup'):
                    bb_['stmts'] = []
                    bb_['term'] = {'k': 'unreachable', 'line': bb_['term'].get('line'), 'exp': False}
            facts.fns[x['path']] = Fn(facts, x)
            made += 1
            # the instance-level call graph knows the copy under its own name
            for ik, rec in list(facts.instances.items()):
                if rec.get('def') == gp:
                    r2 = copy.deepcopy(rec)
                    r2['def'] = x['path']
                    facts.instances[ik.replace(gp, x['path'], 1) if gp in ik else x['path']] = r2
        for (f, b, t) in sites[gp]:
            vname = variants[(f.path, b)][0]
            t['callee'] = dict(t['callee'], path='%s#%s' % (gp, vname), key='%s#%s' % (gp, vname), specialised_from=gp)
            for rec in facts.instances.values():
                if rec.get('def') == f.path and str(b) in rec.get('calls', {}):
                    c0 = rec['calls'][str(b)]
                    if c0.get('path') == gp:
                        rec['calls'][str(b)] = dict(c0, path='%s#%s' % (gp, vname), key=(c0.get('key') or gp).replace(gp, '%s#%s' % (gp, vname), 1))
            if f.hir:
                def visit(nd, parents):
                    if nd.get('k') in ('mcall', 'call'):
                        pth = nd.get('path') if nd.get('k') == 'mcall' else (nd['f'].get('path') if isinstance(nd.get('f'), dict) else None)
                        if pth != gp:
                            return
                        args = ([nd['recv']] + list(nd['args'])) if nd.get('k') == 'mcall' else list(nd['args'])
                        if len(args) >= pi:
                            a = strip_refs(args[pi - 1])
                            if a.get('k') == 'path' and (a.get('path') or '').startswith(E + '::'):
                                vn = a['path'][len(E) + 2:]
                                if nd.get('k') == 'mcall':
                                    nd['path'] = '%s#%s' % (gp, vn)
                                else:
                                    nd['f'] = dict(nd['f'], path='%s#%s' % (gp, vn))
                hir_walk(f.hir, visit)
        dict.__delitem__(facts.fns, gp)
    facts._cg = None
    return made


# --------------------------------------------------------------------------- private parameter structs


def sroa_private_params(facts):
    """A private function that takes a private struct by value, built by a struct literal at every call site
    (`work.reset(.., Layout { a, b, c })`, `self.fft_private(data, Span { pos, size, .. })`), is normalised to the same function
    taking the fields as separate parameters, in field order: MIR (the old parameter becomes a local assigned the aggregate of
    the new parameters at entry, so every use stays valid), HIR (parameter list, destructuring `let`, field reads), and every
    call site (arguments spliced).  Grouping positional parameters into a struct is a matter of notation."""
    structs = {}
    for pth, a in facts.adts.items():
        if a.get('kind') == 'struct' and not a.get('reachable') and len(a.get('variants', [])) == 1 and a['variants'][0]['fields']:
            structs[pth] = [(fl['name'], fl['ty']) for fl in a['variants'][0]['fields']]
    if not structs:
        return
    sites = defaultdict(list)
    for p, fn in facts.fns.items():
        for b, t in fn.body.calls():
            q = t['callee'].get('path')
            if q in facts.fns:
                sites[q].append((p, b))
    for gp, g in sorted(facts.fns.items()):
        if g.reachable or g.impl_trait or g.in_trait or g.kind == 'Closure' or not sites.get(gp):
            continue
        mir = g.body.mir
        todo = []
        for i in range(1, mir['arg_count'] + 1):
            ty = mir['locals'][i]['ty']
            if ty not in structs:
                continue
            ok = True
            for (cp, b) in sites[gp]:
                cb = facts.fns[cp].body
                t = cb.term(b)
                if len(t['args']) != mir['arg_count']:
                    ok = False
                    break
                rv = _agg_def(cb, op_place(t['args'][i - 1]))
                if not (rv is not None and rv.get('agg') == 'adt' and rv.get('adt') == ty and rv.get('fields') == [n for n, _ in structs[ty]]):
                    ok = False
                    break
            if ok:
                todo.append(i)
        if not todo:
            continue
        # ---- callee MIR
        old_locals = mir['locals']
        new_locals = [old_locals[0]]
        lmap = {0: 0}
        newparams = {}
        # field names become parameter names; when two split parameters (or a split one and a plain one) would collide, the
        # names are qualified by the old parameter (`original.count`, `recovery.count`)
        cand = [fname for i in todo for (fname, _) in structs[old_locals[i]['ty']]] + [old_locals[i].get('name') for i in range(1, mir['arg_count'] + 1) if i not in todo]
        qualify = len(cand) != len(set(cand))
        g.x['sroa_qualified'] = qualify
        for i in range(1, mir['arg_count'] + 1):
            if i in todo:
                ids = []
                for (fname, fty) in structs[old_locals[i]['ty']]:
                    ids.append(len(new_locals))
                    if qualify:
                        fname = '%s.%s' % (old_locals[i].get('name'), fname)
                    new_locals.append({'ty': fty, 'name': fname, 'user': True, 'mut': False, 'sroa_of': old_locals[i].get('name')})
                newparams[i] = ids
            else:
                lmap[i] = len(new_locals)
                new_locals.append(old_locals[i])
        new_argc = len(new_locals) - 1
        for i in range(mir['arg_count'] + 1, len(old_locals)):
            lmap[i] = len(new_locals)
            new_locals.append(old_locals[i])
        for i in todo:
            lmap[i] = len(new_locals)
            lo = dict(old_locals[i])
            lo['user'] = False
            lo.pop('name', None)
            new_locals.append(lo)
        blocks = _remap_mir(mir['blocks'], lambda l: lmap[l], lambda b: b)
        # where the old parameter is only ever read field by field, the reads go straight to the new parameters (field-precise);
        # otherwise it becomes a local holding the aggregate of the new parameters
        direct = set()
        for i in todo:
            fnames = [n for n, _ in structs[old_locals[i]['ty']]]
            whole = [False]

            def scan(n, tgt=lmap[i]):
                if isinstance(n, list):
                    for x in n:
                        scan(x)
                elif isinstance(n, dict):
                    if 'l' in n and 'p' in n and isinstance(n['p'], list):
                        if n['l'] == tgt and not (n['p'] and isinstance(n['p'][0], dict) and n['p'][0].get('f') in fnames):
                            whole[0] = True
                        for e in n['p']:
                            if isinstance(e, dict) and e.get('idx') == tgt:
                                whole[0] = True
                        return
                    for v in n.values():
                        if isinstance(v, (dict, list)):
                            scan(v)
            scan(blocks)
            if not whole[0]:
                direct.add(i)
                fidx = {n: newparams[i][k] for k, n in enumerate(fnames)}

                def rew(n, tgt=lmap[i], fidx=fidx):
                    if isinstance(n, list):
                        return [rew(x) for x in n]
                    if not isinstance(n, dict):
                        return n
                    if 'l' in n and 'p' in n and isinstance(n['p'], list):
                        if n['l'] == tgt:
                            d = dict(n)
                            d['l'] = fidx[n['p'][0]['f']]
                            d['p'] = list(n['p'][1:])
                            return d
                        return n
                    return {k: (rew(v) if isinstance(v, (dict, list)) else v) for k, v in n.items()}
                blocks = rew(blocks)
        entry = []
        for i in todo:
            if i in direct:
                continue
            sty = old_locals[i]['ty']
            entry.append({'k': 'assign', 'lhs': {'l': lmap[i], 'p': []}, 'line': g.span, 'exp': False, 'sroa': True,
                          'rv': {'k': 'agg', 'agg': 'adt', 'adt': sty, 'variant': sty.split('::')[-1], 'vi': 0, 'adt_args': [],
                                 'fields': [n for n, _ in structs[sty]], 'ops': [{'copy': {'l': x, 'p': []}} for x in newparams[i]]}})
        blocks[0] = dict(blocks[0])
        blocks[0]['stmts'] = entry + list(blocks[0]['stmts'])
        nm = dict(mir)
        nm['blocks'], nm['locals'], nm['arg_count'] = blocks, new_locals, new_argc
        g.x['mir'] = nm
        g.body = Body(facts, nm, gp)
        ninputs = []
        for i, ty in enumerate(g.inputs, start=1):
            if i in todo:
                ninputs.extend(t_ for _, t_ in structs[ty])
            else:
                ninputs.append(ty)
        g.inputs = ninputs
        g.x['inputs'] = ninputs
        # ---- callee HIR
        if g.hir and len(g.hir.get('params', [])) == mir['arg_count']:
            hp = g.hir['params']
            body = g.hir['value']
            nparams = []
            for i, pt in enumerate(hp, start=1):
                if i not in todo or pt.get('k') != 'bind':
                    nparams.append(pt)
                    continue
                sty = old_locals[i]['ty']
                fields = structs[sty]
                ids = {}
                # a destructuring `let S { a, b: c, .. } = param;` at the top of the body gives the field locals their ids
                stmts = body.get('stmts', []) if isinstance(body, dict) and body.get('k') == 'block' else []
                keep = []
                for st in stmts:
                    init = strip_refs(st.get('init')) if st.get('k') == 'let' and isinstance(st.get('init'), dict) else None
                    if init is not None and init.get('k') == 'path' and init.get('id') == pt['id'] and st['pat'].get('k') == 'struct' and 'else' not in st:
                        for fp in st['pat'].get('fields', []):
                            if fp['pat'].get('k') == 'bind':
                                ids[fp['name']] = (fp['pat']['id'], fp['pat']['name'])
                        continue
                    keep.append(st)
                if ids and isinstance(body, dict):
                    body = dict(body)
                    body['stmts'] = keep
                fresh = 9000000 + 1000 * i
                fmap = {}
                for k_, (fname, fty) in enumerate(fields):
                    fid, fnm = ids.get(fname, (fresh + k_, fname))
                    if g.x.get('sroa_qualified'):
                        fnm = '%s.%s' % (pt.get('name'), fname)
                    fmap[fname] = (fid, fnm, fty)
                    nparams.append({'k': 'bind', 'name': fnm, 'id': fid, 'mode': 'BindingMode(No, Not)', 'ty': fty})
                body = _hir_param_fields(body, pt['id'], fmap)
            g.hir = {'params': nparams, 'value': body}
            g.x['hir'] = g.hir
        # ---- call sites
        for (cp, b) in sites[gp]:
            cf = facts.fns[cp]
            cb = cf.body
            t = cb.term(b)
            nargs = []
            for i, a in enumerate(t['args'], start=1):
                if i in todo:
                    rv = _agg_def(cb, op_place(a))
                    nargs.extend(rv['ops'])
                else:
                    nargs.append(a)
            t['args'] = nargs
            cb._defs = None
            if cf.hir:
                fo = {i: structs[old_locals[i]['ty']] for i in todo}
                # `let x = S { .. }; f(.., x)`: the struct-valued local becomes one local per field
                lets = {}
                for (m_, _) in hir_find(cf.hir, lambda m: m.get('k') == 'let' and isinstance(m.get('pat'), dict) and m['pat'].get('k') == 'bind'
                                        and isinstance(m.get('init'), dict) and strip_refs(m['init']).get('k') == 'struct' and 'else' not in m):
                    sn = strip_refs(m_['init'])
                    for i in todo:
                        if (sn.get('path') or {}).get('path', '').split('::')[-1] == old_locals[i]['ty'].split('::')[-1] and \
                                sorted(f['name'] for f in sn.get('fields', [])) == sorted(n for n, _ in fo[i]):
                            lets[m_['pat']['id']] = (m_, sn, fo[i])
                if lets:
                    cf.hir = _hir_split_struct_lets(cf.hir, lets)
                cf.hir = _hir_splice_args(cf.hir, gp, todo, fo, mir['arg_count'], {lid: v[2] for lid, v in lets.items()})
                cf.x['hir'] = cf.hir
        facts.sroa.append((gp, [old_locals[i].get('name') for i in todo]))


def _agg_def(body, pl, hops=0):
    """the aggregate rvalue a plain local was built by (through single-definition copies / moves)"""
    if pl is None or pl['p'] or hops > 4:
        return None
    ds = body.defs().get(pl['l'], [])
    if len(ds) != 1 or ds[0][0] != 'stmt':
        return None
    rv = body.blocks[ds[0][1]]['stmts'][ds[0][2]]['rv']
    if rv['k'] == 'agg':
        return rv
    if rv['k'] == 'use':
        return _agg_def(body, op_place(rv['op']), hops + 1)
    return None


def _hir_param_fields(n, pid, fmap):
    """`param.f` -> the new parameter for field f"""
    if isinstance(n, list):
        return [_hir_param_fields(x, pid, fmap) for x in n]
    if not isinstance(n, dict):
        return n
    if n.get('k') == 'field':
        x = strip_refs(n.get('x')) if isinstance(n.get('x'), dict) else None
        if x is not None and x.get('k') == 'path' and x.get('res') == 'local' and x.get('id') == pid and n.get('name') in fmap:
            fid, fnm, fty = fmap[n['name']]
            return {'k': 'path', 'res': 'local', 'name': fnm, 'id': fid, 'ty': fty}
    return {k: (_hir_param_fields(v, pid, fmap) if isinstance(v, (dict, list)) else v) for k, v in n.items()}


def _split_id(lid, k):
    return 8000000 + (lid % 100000) * 16 + k


def _hir_split_struct_lets(n, lets):
    """`let x = S { a: e1, b: e2 }` -> `let x.a = e1; let x.b = e2;` (field order of S); `x.a` -> the new local"""
    if isinstance(n, list):
        out = []
        for x in n:
            if isinstance(x, dict) and x.get('k') == 'let' and isinstance(x.get('pat'), dict) and x['pat'].get('k') == 'bind' and x['pat'].get('id') in lets \
                    and lets[x['pat']['id']][0] is x:
                _, sn, fields = lets[x['pat']['id']]
                byname = {f['name']: f['e'] for f in sn['fields']}
                for k, (fname, fty) in enumerate(fields):
                    out.append({'k': 'let', 'pat': {'k': 'bind', 'name': '%s.%s' % (x['pat']['name'], fname), 'id': _split_id(x['pat']['id'], k),
                                                    'mode': 'BindingMode(No, Not)', 'ty': fty},
                                'init': _hir_split_struct_lets(byname[fname], lets), 'line': x.get('line')})
            else:
                out.append(_hir_split_struct_lets(x, lets))
        return out
    if not isinstance(n, dict):
        return n
    if n.get('k') == 'field':
        x = strip_refs(n.get('x')) if isinstance(n.get('x'), dict) else None
        if x is not None and x.get('k') == 'path' and x.get('res') == 'local' and x.get('id') in lets:
            fields = lets[x['id']][2]
            for k, (fname, fty) in enumerate(fields):
                if fname == n.get('name'):
                    return {'k': 'path', 'res': 'local', 'name': '%s.%s' % (x.get('name'), fname), 'id': _split_id(x['id'], k), 'ty': fty}
    return {k: (_hir_split_struct_lets(v, lets) if isinstance(v, (dict, list)) else v) for k, v in n.items()}


def _hir_splice_args(n, callee, todo, fields_of, argc, split_locals=None):
    split_locals = split_locals or {}
    if isinstance(n, list):
        return [_hir_splice_args(x, callee, todo, fields_of, argc, split_locals) for x in n]
    if not isinstance(n, dict):
        return n
    out = {k: (_hir_splice_args(v, callee, todo, fields_of, argc, split_locals) if isinstance(v, (dict, list)) else v) for k, v in n.items()}
    is_m = out.get('k') == 'mcall' and out.get('path') == callee
    is_c = out.get('k') == 'call' and isinstance(out.get('f'), dict) and out['f'].get('k') == 'path' and out['f'].get('path') == callee
    if not (is_m or is_c):
        return out
    args = ([out['recv']] if is_m else []) + list(out['args'])
    if len(args) != argc:
        return out
    nargs = []
    for i, a in enumerate(args, start=1):
        a0 = strip_refs(a) if isinstance(a, dict) else a
        if i in todo and isinstance(a0, dict) and a0.get('k') == 'struct':
            byname = {f['name']: f['e'] for f in a0.get('fields', [])}
            if all(fn_ in byname for fn_, _ in fields_of[i]):
                nargs.extend(byname[fn_] for fn_, _ in fields_of[i])
                continue
        if i in todo and isinstance(a0, dict) and a0.get('k') == 'path' and a0.get('res') == 'local' and a0.get('id') in split_locals:
            for k, (fname, fty) in enumerate(split_locals[a0['id']]):
                nargs.append({'k': 'path', 'res': 'local', 'name': '%s.%s' % (a0.get('name'), fname), 'id': _split_id(a0['id'], k), 'ty': fty})
            continue
        nargs.append(a)
    if is_m:
        out['recv'], out['args'] = nargs[0], nargs[1:]
    else:
        out['args'] = nargs
    return out
