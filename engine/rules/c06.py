"""C06 — invalid use yields a truthful documented Err; no panics on caller-supplied scalars."""
import re
from . import core, taint, roles as roles_mod
from .core import hcanon, hshow

EXPLANATION = (
    "(a) check-before-use: forward may-taint dataflow over MIR for every integer parameter of the "
    "public codec API (one-shot functions, ReedSolomon*, all Rate/RateEncoder/RateDecoder impls and "
    "provided methods, result accessors), interprocedural through call arguments into crate helpers; "
    "a value is cleared only on the bounding edge of an ordering comparison, on an equality test, or "
    "on the success edge of a crate function whose own computed summary says the parameter is checked "
    "on every successful exit; sinks are MIR Assert terminators (overflow/bounds/div — the dev profile "
    "makes every arithmetic panic site explicit), range-sensitive std/fixedbitset calls and explicit "
    "panics governed by a tainted condition.  (b) truthful errors: each Error::V{..} construction site "
    "(typed HIR) is matched against a per-variant table: the governing path condition must be the "
    "documented violated precondition and every field must be the same canonical value as the "
    "corresponding operand of that condition.  (c) errors of callees are propagated unchanged.")
DECIDES = "the clause 'for all argument values up to usize::MAX: checked before used' and 'Err variant and fields truthfully describe a violated precondition'."
NOT_DECIDED = "absence of every panic (bounds checks deep in the transforms are arithmetic over validated counts); 'valid use never fails' beyond the structure of the checks."
TRUSTED = ["overflow checks and bounds checks appear as MIR Assert terminators in the analysed dev-profile build",
           "table of range-sensitive external functions in engine/rules/taint.py"]
ASSUMPTIONS = ["taint does not flow through memory: object fields are written only after validation (C07/C08 check that discipline)"]

API_PREFIX = ('reed_solomon::', 'rate::', '<rate::', 'encoder_result::', 'decoder_result::',
              '<encoder_result', '<decoder_result')


def source_params(fn):
    if not fn.reachable:
        return []
    p = fn.path
    if not (p in ('encode', 'decode') or p.startswith(API_PREFIX)):
        return []
    return [i for i in range(fn.body.arg_count) if fn.body.local_ty(i + 1) == 'usize']


def run(ctx):
    cfgs = ['x86_64'] if ctx.tier == 'quick' else ['x86_64', 'i686', 'aarch64']
    ctx.rule('C06.a-sources', 'integer parameters of the public codec API are taint sources')
    ctx.rule('C06.a-check-before-use', 'no panic-capable sink is reached by an unchecked caller-supplied scalar')
    ctx.rule('C06.b-truthful', 'each Error construction is governed by the documented violated precondition and its fields equal the operands of that condition')
    ctx.rule('C06.c-passthrough', 'errors of callees are propagated by bare `?` / tail return, never re-mapped')
    ctx.rule('C06.d-config-handover', 'the counts and shard size stored in the work object (against which indexes and sizes are later checked) are exactly the caller\'s original_count, recovery_count, shard_bytes')
    ctx.rule('C06.d-store-geometry', 'the shard store rewrites its whole geometry on every resize, so that valid adds after any valid reset index inside the store (clause shared with C04.d)')
    ctx.rule('C06.e-one-shot-items-validated', 'one-shot encode/decode hand every item of the caller iterators to the validating add_*_shard: no invalid entry is silently skipped (clause shared with C10.b)')
    ctx.rule('C06.f-round-state-cleared', 'counters and bitmap against which too-few / too-many / duplicate are judged are cleared when a round ends (Drop of the result) and at every explicit reset, so that misuse in the next round is reported (clause shared with C05.a/b)')
    ctx.rule('C06.g-panic-census', 'every explicit non-debug panic site (assert!, panic!, unreachable!, unwrap, expect) in the library belongs to one of the discharged categories: placeholder variant of the default-rate inner codec (C07), shard-size assert of the work reset (C08.c), ShardsRefMut::new contract, one-time table initialisation, Error::eq')
    from . import c04, c10, resetrules
    f0 = ctx.facts(cfgs[0])
    ctx.guard('C06.analysable', ctx.shared, {'X.full': 'C06.f-round-state-cleared', 'X.recv': 'C06.f-round-state-cleared', 'X.drop': 'C06.f-round-state-cleared'},
              resetrules.check_reset_discipline, ctx, f0, cfgs[0], 'X.drop', 'X.recv', 'X.full')
    ctx.guard('C06.analysable', panic_census, ctx, f0, cfgs[0])
    ctx.rule('C06.i-one-predicate-per-codec', 'supports/validate of every encoder, decoder and rate type of one kind resolve to one predicate (associated types included): none of them reports a supported configuration as unsupported (clause shared with C08.a)')
    from . import c08 as c08_
    ctx.guard('C06.analysable', ctx.shared, {'C08.a-one-definition': 'C06.i-one-predicate-per-codec'}, c08_.one_definition, ctx, f0, cfgs[0])
    ctx.rule('C06.h-validated-by-the-selected-rate', 'every use of a dedicated codec by the default rate (validate included) is governed by the rate decision for the same counts: a supported configuration is never rejected by the other rate\'s predicate (clause shared with C09.b)')
    from . import c09
    ctx.guard('C06.analysable', ctx.shared, {'C09.b-single-source': 'C06.h-validated-by-the-selected-rate'}, c09.check, ctx, f0, cfgs[0])
    ctx.guard('C06.analysable', c04.store_resize_complete, ctx, f0, cfgs[0], 'C06.d-store-geometry')
    ctx.rule('C06.k-rejected-call-changes-nothing', 'a call that returns Err leaves the object as it was, so that the valid calls that follow are judged against the configuration and shards they were made for (no spurious DifferentShardSize / TooMany..., no panic on a half-applied configuration; clause shared with C07.atomic)')
    from . import c07 as c07_
    ctx.guard('C06.analysable', ctx.shared, {'C07.atomic': 'C06.k-rejected-call-changes-nothing'}, c07_.check_cfg, ctx, f0, cfgs[0])
    ctx.rule('C06.j-engines-run-one-schedule', 'valid use does not panic whichever engine runs it: the slicing and split arithmetic of the transform schedules, in range for the reference form, is the same in every optimised engine (clause shared with C03.a)')
    from . import c03 as c03_
    for c_ in ('x86_64',):      # the Neon schedule is compared by C03 / C09 / C14 (aarch64 facts); here the x86 engines
        ctx.guard('C06.analysable', ctx.shared, {'C03.a-schedule-siblings': 'C06.j-engines-run-one-schedule'}, c03_.schedules, ctx, ctx.facts(c_), c_)
    ctx.guard('C06.analysable', ctx.shared, {'C10.b-iterators': 'C06.e-one-shot-items-validated', 'C10.b-items-reach-add': 'C06.e-one-shot-items-validated', 'C10.l-inputs-drained': 'C06.e-one-shot-items-validated'}, c10.both, ctx, f0, cfgs[0])
    for cfg in cfgs:
        facts = ctx.facts(cfg)
        ctx.guard('C06.analysable', check_taint, ctx, facts, cfg)
        if cfg == cfgs[0]:
            ctx.guard('C06.analysable', check_truthful, ctx, facts, cfg)
            ctx.guard('C06.analysable', check_passthrough, ctx, facts, cfg)
            ctx.guard('C06.analysable', check_config_handover, ctx, facts, cfg)


# ------------------------------------------------------------------------------ (a)

def check_taint(ctx, facts, cfg, rule='C06.a-check-before-use', only_param=None):
    T = taint.Taint(facts, source_params)
    fts = T.run()
    nsrc = sum(len(source_params(fn)) for fn in facts.fns.values())
    ctx.floor('C06.a-sources', 60, nsrc, 'public integer parameters (cfg %s)' % cfg, cfg=cfg)
    for fn in facts.fns.values():
        for i in source_params(fn):
            ctx.ok('C06.a-sources', '%s#%s@%s' % (fn.path, fn.body.local_name(i + 1), cfg), None, nontrivial=False)
    nfun = 0
    for p, ft in sorted(fts.items()):
        nfun += 1
        seen = set()
        for (b, kind, detail, line, names) in ft.sinks:
            nm = sorted(n[1] for n in names)
            key = '%s:%s:%s' % (kind, ','.join(nm), re.sub(r'\s+', ' ', detail)[:80])
            if key in seen:
                continue
            seen.add(key)
            ctx.violation(rule, key,
                          'caller-supplied %s reaches %s `%s` without a dominating range check (taint entered %s through %s)'
                          % ('/'.join(nm), kind, detail[:120], p, sorted(ft.tainted_params)),
                          site=line, fn=p, cfg=cfg)
        if not ft.sinks:
            ctx.ok(rule, '%s@%s' % (p, cfg),
                   {'tainted_params_at_entry': sorted(ft.tainted_params)} if nfun <= 6 else None)
    ctx.floor(rule, 40, nfun, 'functions reached by caller-supplied scalars (cfg %s)' % cfg, cfg=cfg)
    # validation summaries actually relied upon
    for k, v in sorted(T._checked.items()):
        if v and ('validate' in k or 'supports' in k or 'use_high_rate' in k) and 'DefaultEngine' not in k:
            ctx.ok(rule, 'summary:%s@%s' % (k, cfg), {'params_checked_on_success': sorted(v)}, nontrivial=False)


# ------------------------------------------------------------------------------ (b)

def is_self_field(c, name=None):
    ok = isinstance(c, tuple) and c[0] == 'field' and c[1] == ('local', 'self')
    return ok and (name is None or c[2] == name)


def find_atom(atoms, pred):
    for (c, pol) in atoms:
        r = pred(c, pol)
        if r:
            return r
    return None


def cmp_atom(c, pol):
    """normalise comparison atom to (rel, a, b) with rel in lt/le/eq/ne meaning a rel b holds"""
    if not (isinstance(c, tuple) and c and c[0] == 'bin' and c[1] in ('Lt', 'Le', 'Eq', 'Ne')):
        return None
    op, a, b = c[1], c[2], c[3]
    if pol:
        return ({'Lt': 'lt', 'Le': 'le', 'Eq': 'eq', 'Ne': 'ne'}[op], a, b)
    # negation: !(a<b) == b<=a ; !(a<=b) == b<a
    if op == 'Lt':
        return ('le', b, a)
    if op == 'Le':
        return ('lt', b, a)
    return ('ne' if op == 'Eq' else 'eq', a, b)


def check_truthful(ctx, facts, cfg):
    R = 'C06.b-truthful'
    RL = roles_mod.roles(facts)

    arg_sites = []

    def pseudo_site(path, canon_fields):
        return {'k': 'struct', 'adt': 'Error', 'path': {'path': path}, 'fields': [], 'canon': canon_fields, 'line': 'argument:%s' % path.split('::')[-1]}

    def collect(inline):
        sites = []

        def mk(fn):
            # `let err = Error::X { .. };` used at several `Err(err)` exits: the value is judged where it is used
            bound = {}
            deferred = set()
            for g_ in [fn] + [facts.fns[q] for q in inline if q in facts.fns]:
                if not g_.hir:
                    continue
                for (m_, _) in core.hir_find(g_.hir, lambda m: m.get('k') == 'let' and isinstance(m.get('pat'), dict) and m['pat'].get('k') == 'bind'
                                             and m['pat'].get('mode', '').endswith('Not)') and isinstance(m.get('init'), dict) and 'else' not in m):
                    sn = core.strip_refs(m_['init'])
                    if sn.get('k') == 'struct' and sn.get('adt') == 'Error':
                        bound[m_['pat']['id']] = sn
                        deferred.add(id(sn))

            # `self.add_shard(pos, shard, Error::X { .. })`: an error value handed to a private helper is judged where the
            # helper returns it (the helper is walked in this caller's context, its parameter standing for the value)
            for g_ in [fn] + [facts.fns[q] for q in inline if q in facts.fns]:
                if not g_.hir:
                    continue
                for (m_, _) in core.hir_find(g_.hir, lambda m: m.get('k') in ('call', 'mcall')):
                    pc = core.private_callee(facts, m_)
                    if not pc:
                        continue
                    for a_ in pc[1]:
                        sn = core.strip_refs(a_) if isinstance(a_, dict) else None
                        if sn is not None and sn.get('k') == 'struct' and sn.get('adt') == 'Error' and id(sn) not in deferred:
                            deferred.add(id(sn))
                            arg_sites.append((pc[0], pseudo_site((sn['path'].get('path') or ''), None)))

            def visit(e, conds, env):
                if e.get('k') == 'struct' and e.get('adt') == 'Error' and id(e) not in deferred:
                    sites.append((W.root_fn, W.cur_fn, e, conds, dict(env)))
                elif e.get('k') == 'path' and e.get('res') == 'local' and e.get('id') in bound:
                    sites.append((W.root_fn, W.cur_fn, bound[e['id']], conds, dict(env)))
                elif e.get('k') == 'path' and e.get('res') == 'local' and W.cur_fn is not W.root_fn:
                    v_ = env.get(e.get('id'))
                    if isinstance(v_, tuple) and v_ and v_[0] == 'struct' and re.search(r'(^|::)Error::\w+$', str(v_[1])):
                        sites.append((W.root_fn, W.cur_fn, pseudo_site(v_[1], dict(v_[2])), conds, dict(env)))
            W = core.PathWalker(visit, facts, inline)
            return W
        for fn in facts.fns.values():
            if fn.path in inline:
                continue          # judged in the context of its callers
            W = mk(fn)
            W.walk_fn(fn)
        return sites

    def judge_site(root, cur, e, conds, env):
        variant = (e['path'].get('path') or '').split('::')[-1]
        fields = {f['name']: RL.norm(core.inline_calls(hcanon(f['e'], env), facts), root.path) for f in e['fields']}
        if e.get('canon'):
            fields = {n_: RL.norm(core.inline_calls(c_, facts), root.path) for n_, c_ in e['canon'].items()}
        atoms = inlined_atoms(conds, env, facts, RL, root.path)
        cmps = [x for x in (cmp_atom(c, p) for c, p in atoms) if x]
        return variant, fields, atoms, judge(root, variant, fields, atoms, cmps, conds, env, RL)

    # pass 1: every site judged where it stands
    sites = collect(set())
    variants_seen = {(e['path'].get('path') or '').split('::')[-1] for (_, _, e, _, _) in sites} | {ps_['path']['path'].split('::')[-1] for _, ps_ in arg_sites}
    ctx.floor(R, 10, len(variants_seen), 'Error variants constructed somewhere', cfg=cfg)
    failing_helpers = set()
    results = []
    for (root, cur, e, conds, env) in sites:
        variant, fields, atoms, err = judge_site(root, cur, e, conds, env)
        results.append((root, cur, e, variant, fields, atoms, err))
        if err and (not root.reachable or root.kind == 'Closure'):
            failing_helpers.add(root.path)
    seen_arg = set()
    for (h_, ps_) in list(arg_sites):
        if (h_.path, ps_['line']) in seen_arg:
            continue
        seen_arg.add((h_.path, ps_['line']))
        results.append((h_, h_, ps_, ps_['path']['path'].split('::')[-1], {}, [], 'the value is handed to %s as an argument and has to be justified where that returns it' % core.short(h_.path)))
        failing_helpers.add(h_.path)
    del arg_sites[:]
    # pass 2: sites in private helpers / closures / error constructors that cannot be justified on their own are
    # re-judged in the context of every call site (helper body walked with the caller's conditions and arguments)
    ctx_results = {}
    if failing_helpers:
        for (root, cur, e, conds, env) in collect(failing_helpers):
            if cur.path in failing_helpers and root.path not in failing_helpers:
                variant, fields, atoms, err = judge_site(root, cur, e, conds, env)
                ctx_results.setdefault((cur.path, e.get('line')), []).append((root, variant, fields, atoms, err))
    per_fn_count = {}
    for (root, cur, e, variant, fields, atoms, err) in results:
        per_fn_count[(root.path, variant)] = per_fn_count.get((root.path, variant), 0) + 1
        ident = '%s#%s' % (variant, per_fn_count[(root.path, variant)])
        shown = {k: hshow(v) for k, v in fields.items()}
        if err and root.path in failing_helpers:
            ctxs = ctx_results.get((root.path, e.get('line')), [])
            if ctxs and all(c[4] is None for c in ctxs):
                ctx.ok(R, '%s:%s' % (root.path, ident), {'site': e['line'], 'justified_at_call_sites': sorted({c[0].path for c in ctxs})})
                continue
            bad = [c for c in ctxs if c[4]]
            if bad:
                c = bad[0]
                err = 'in the context of caller %s: %s' % (c[0].path, c[4])
                shown = {k: hshow(v) for k, v in c[2].items()}
                atoms = c[3]
            elif not ctxs:
                err = err + ' (helper is never called where this could be justified)'
        if err:
            ctx.violation(R, ident, 'Error::%s built at %s is not truthful: %s (fields %s; governing atoms %s)'
                          % (variant, e['line'], err, shown, [(hshow(c), p) for c, p in atoms][:6]),
                          site=e['line'], fn=root.path, cfg=cfg)
        else:
            ctx.ok(R, '%s:%s' % (root.path, ident), {'site': e['line'], 'fields': shown,
                                                   'governing': [('' if p else 'not ') + hshow(c) for c, p in atoms][-3:]})


def inlined_atoms(conds, env, facts, RL, fnpath):
    """governing atoms with single-expression helper predicates inlined (and re-flattened), private names mapped to roles"""
    out = []

    def add(c, pol):
        if isinstance(c, tuple) and c and c[0] == 'and' and pol:
            add(c[1], True)
            add(c[2], True)
        elif isinstance(c, tuple) and c and c[0] == 'or' and not pol:
            add(c[1], False)
            add(c[2], False)
        elif isinstance(c, tuple) and c and c[0] == 'un' and c[1] == 'Not':
            add(c[2], not pol)
        else:
            out.append((RL.norm(c, fnpath), pol))
    for c, pol in core.flatten_conds(conds, env):
        add(core.inline_calls(c, facts), pol)
    return out


def lit0(c):
    return c == ('const', 0)


def judge(fn, variant, fields, atoms, cmps, conds, env, RL):
    pm = RL.params.get(fn.path, {})
    pnames = [pm.get(n, n) for n in fn.param_names()]

    def usize_params():
        return [n for i, n in enumerate(pnames) if fn.body.local_ty(i + 1) == 'usize']

    m = re.match(r'Invalid(Original|Recovery)ShardIndex$', variant)
    if m:
        kind = m.group(1).lower()
        cnt, idx = fields.get('%s_count' % kind), fields.get('index')
        if not is_self_field(cnt, '%s_count' % kind):
            return 'field %s_count is not the configured self.%s_count' % (kind, kind)
        for rel, a, b in cmps:
            if rel == 'le' and a == cnt and b == idx:
                return None
        return 'no governing condition `index >= %s_count` over the same operands' % kind
    m = re.match(r'Duplicate(Original|Recovery)ShardIndex$', variant)
    if m:
        kind = m.group(1).lower()
        idx = fields.get('index')
        want = core.norm_bin('Add', ('field', ('local', 'self'), '%s_base_pos' % kind), idx)
        for c, pol in atoms:
            if not pol:
                continue
            bit = None
            if isinstance(c, tuple) and c[0] == 'index' and is_self_field(c[1], 'received'):
                bit = c[2]
            if isinstance(c, tuple) and c[0] == 'call' and isinstance(c[1], str) and \
                    re.search(r'FixedBitSet::(contains|put)$', c[1]) and is_self_field(c[2][0], 'received'):
                bit = c[2][1]
            if bit is not None:
                if bit == want:
                    return None
                return 'bit tested is %s, expected self.%s_base_pos + index' % (hshow(bit), kind)
        return 'no governing test of the received bitmap'
    if variant == 'DifferentShardSize':
        sb, got = fields.get('shard_bytes'), fields.get('got')
        if not is_self_field(sb, 'shard_bytes'):
            return 'field shard_bytes is not self.shard_bytes'
        if not (isinstance(got, tuple) and got[0] == 'call' and str(got[1]).endswith('::len')):
            return 'field got is not the length of the given shard'
        inner = got[2][0]
        leaves = leaf_locals(inner)
        shardp = [n for i, n in enumerate(pnames) if n and 'shard' in n and fn.body.local_ty(i + 1) != 'usize']
        if not (leaves & set(shardp)):
            return 'field got is not the length of the shard parameter'
        for rel, a, b in cmps:
            if rel == 'ne' and {a, b} == {sb, got}:
                return None
        return 'no governing condition `shard.len() != shard_bytes` over the same operands'
    if variant == 'InvalidShardSize':
        sb = fields.get('shard_bytes')
        Z, NZ = core.norm_bin('Eq', sb, ('const', 0)), core.norm_bin('Ne', sb, ('const', 0))
        ODD = (core.norm_bin('Ne', core.norm_bin('BitAnd', sb, ('const', 1)), ('const', 0)),
               core.norm_bin('Ne', ('bin', 'Rem', sb, ('const', 2)), ('const', 0)),
               core.norm_bin('Eq', core.norm_bin('BitAnd', sb, ('const', 1)), ('const', 1)),
               core.norm_bin('Eq', ('bin', 'Rem', sb, ('const', 2)), ('const', 1)))
        EVEN = (core.norm_bin('Eq', core.norm_bin('BitAnd', sb, ('const', 1)), ('const', 0)),
                core.norm_bin('Eq', ('bin', 'Rem', sb, ('const', 2)), ('const', 0)))

        def ev(c, z, odd):
            """three-valued: None = does not speak about the reported value"""
            if isinstance(c, tuple) and c and c[0] in ('and', 'or'):
                x, y = ev(c[1], z, odd), ev(c[2], z, odd)
                if c[0] == 'and':
                    return False if (x is False or y is False) else (True if (x and y) else None)
                return True if (x is True or y is True) else (False if (x is False and y is False) else None)
            if isinstance(c, tuple) and c and c[0] == 'un' and c[1] == 'Not':
                x = ev(c[2], z, odd)
                return None if x is None else (not x)
            if c == Z:
                return z
            if c == NZ:
                return not z
            if c in ODD:
                return odd
            if c in EVEN:
                return not odd
            return None
        # truthful iff the site cannot be reached with a valid size (non-zero and even): some governing atom is then false;
        # and it speaks about nothing else: every assignment that violates the precondition can reach it as far as the size atoms go
        blocked = any(ev(c, False, False) is (not pol) for c, pol in atoms)
        if blocked:
            return None
        return 'no governing condition `shard_bytes == 0 || shard_bytes is odd` over the reported value'
    if variant == 'NotEnoughShards':
        oc, orc, rrc = fields.get('original_count'), fields.get('original_received_count'), fields.get('recovery_received_count')
        if fn.impl_self_adt:
            if not (is_self_field(oc, 'original_count') and is_self_field(orc, 'original_received_count')
                    and is_self_field(rrc, 'recovery_received_count')):
                return 'fields are not (self.original_count, self.original_received_count, self.recovery_received_count)'
            want = core.norm_bin('Add', orc, rrc)
            for rel, a, b in cmps:
                if rel == 'lt' and a == want and b == oc:
                    return None
                # `recovery_received < original_count - original_received`: the same inequality, and the subtraction cannot
                # wrap because original_received <= original_count is kept by the add path (TooManyOriginalShards is reported
                # at equality, before the counter is incremented; that site is judged by this rule too).  The mirrored form
                # `original_received < original_count - recovery_received` has no such invariant: recovery_received is bounded
                # by recovery_count only, so it is not accepted.
                if rel == 'lt' and a == rrc and b == ('bin', 'Sub', oc, orc):
                    return None
            return 'no governing condition `original_received + recovery_received < original_count` (or `recovery_received < original_count - original_received`)'
        # one-shot: both caller iterators empty, literal zeros
        if oc != ('local', 'original_count') or 'original_count' not in usize_params():
            return 'original_count field is not the original_count parameter'
        if not (lit0(orc) and lit0(rrc)):
            return 'one-shot NotEnoughShards must report the literal counts 0/0 of two empty inputs'
        if both_iterators_empty(conds, env, fn):
            return None
        return 'literal 0/0 counts but the governing condition is not "both shard iterators yielded nothing"'
    if variant == 'TooFewOriginalShards':
        oc, orc = fields.get('original_count'), fields.get('original_received_count')
        if fn.impl_self_adt:
            if not (is_self_field(oc, 'original_count') and is_self_field(orc, 'original_received_count')):
                return 'fields are not (self.original_count, self.original_received_count)'
            for rel, a, b in cmps:
                if rel in ('ne', 'lt') and {a, b} == {oc, orc}:
                    if rel == 'lt' and not (a == orc and b == oc):
                        continue
                    return None
            return 'no governing condition `original_received_count != original_count`'
        if oc != ('local', 'original_count'):
            return 'original_count field is not the original_count parameter'
        if not lit0(orc):
            return 'one-shot TooFewOriginalShards must report literal 0'
        for cd in conds:
            if cd[0] == 'let' and cd[3] is False and is_next_of_param_iter(cd[2], env, fn):
                return None
        return 'literal 0 count but the governing condition is not "the originals iterator yielded nothing"'
    if variant == 'TooManyOriginalShards':
        oc = fields.get('original_count')
        if not is_self_field(oc, 'original_count'):
            return 'field is not self.original_count'
        for rel, a, b in cmps:
            if rel in ('eq',) and {a, b} == {oc, ('field', ('local', 'self'), 'original_received_count')}:
                return None
            if rel == 'le' and a == oc and b == ('field', ('local', 'self'), 'original_received_count'):
                return None
        return 'no governing condition `original_received_count == original_count`'
    if variant == 'UnsupportedShardCount':
        o, r = fields.get('original_count'), fields.get('recovery_count')
        up = usize_params()
        if len(up) < 2:
            return 'enclosing fn does not take (original_count, recovery_count) first'
        if fn.reachable and (up[0] != 'original_count' or up[1] != 'recovery_count'):
            return 'enclosing public fn does not take (original_count, recovery_count) first'
        if o != ('local', up[0]) or r != ('local', up[1]):
            return 'fields are not the (original_count, recovery_count) parameters in that order'
        # governed by failing support predicate on (o, r) in order ...
        for c, pol in atoms:
            if (not pol) and isinstance(c, tuple) and c[0] == 'call' and isinstance(c[1], str) \
                    and c[1].split('::')[-1] == 'supports' and tuple(c[2]) == (o, r):
                return None
        # ... or this is the decision predicate itself: condition mentions only o, r and constants
        if fn.output and fn.output.startswith('std::result::Result<bool'):
            pos = [c for c, pol in atoms if pol]
            if pos and leaf_locals(pos[-1]) <= {up[0], up[1]}:
                return None
            # `if !is_supported(o, r) { return Err(..) }`: the failing edge of a conjunction, inlined
            if atoms and not atoms[-1][1] and isinstance(atoms[-1][0], tuple) and atoms[-1][0][:1] == ('and',) and leaf_locals(atoms[-1][0]) <= {up[0], up[1]}:
                return None
        return 'not governed by the failing edge of supports(original_count, recovery_count)'
    return 'unknown Error variant %s: extend the table in engine/rules/c06.py after reading the new site' % variant


def flatten_or(c, out):
    if isinstance(c, tuple) and c and c[0] == 'or':
        flatten_or(c[1], out)
        flatten_or(c[2], out)
    else:
        out.append(c)


def leaf_locals(c, out=None):
    if out is None:
        out = set()
    if isinstance(c, tuple):
        if c and c[0] == 'local':
            out.add(c[1])
        else:
            for x in c:
                leaf_locals(x, out)
    return out


def is_next_of_param_iter(e, env, fn):
    c = hcanon(e, env)
    if isinstance(c, tuple) and c[0] == 'call' and str(c[1]).endswith('Iterator::next'):
        return True
    # a local initialised from an expression whose only non-None leaves are `next()` calls
    e0 = core.strip_refs(e) if isinstance(e, dict) else None
    if e0 and e0.get('k') == 'path' and e0.get('res') == 'local':
        for (st, _) in core.hir_find(fn.hir['value'], lambda n: n.get('k') == 'let' and n.get('pat', {}).get('k') == 'bind' and n['pat'].get('id') == e0.get('id')):
            init = st.get('init')
            if init is not None and core.hir_find(init, lambda n: n.get('k') == 'mcall' and (n.get('path') or '').endswith('Iterator::next')):
                return True
    return False


def both_iterators_empty(conds, env, fn):
    for cd in conds:
        if cd[0] == 'arm':
            pat = cd[2]
            if pat.get('k') == 'tuple' and len(pat['pats']) == 2 and all(is_none_pat(p) for p in pat['pats']):
                return True
    # or nested: two failed `let Some(..) = it.next()`
    n = sum(1 for cd in conds if cd[0] == 'let' and cd[3] is False and is_next_of_param_iter(cd[2], env, fn))
    return n >= 2


def is_none_pat(p):
    if p.get('k') == 'patexpr' and 'path' in p:
        return (p['path'].get('path') or '').endswith('::None')
    if p.get('k') == 'ref':
        return is_none_pat(p['pat'])
    return False


# ------------------------------------------------------------------------------ (c)

def check_passthrough(ctx, facts, cfg):
    R = 'C06.c-passthrough'
    n = 0
    for fn in facts.fns.values():
        if not (fn.output or '').startswith('std::result::Result<') or not (fn.output or '').rstrip('>').endswith('Error'):
            continue
        if not (fn.path in ('encode', 'decode') or fn.path.startswith(API_PREFIX)):
            continue
        bad = []
        for b, t in fn.body.calls():
            p = t['callee'].get('path') or ''
            if re.search(r'Result::<.*>::(map_err|or_else|or|unwrap_or|unwrap_or_else|unwrap_or_default|ok|err)$', p):
                a0 = fn.body.local_ty(core.op_place(t['args'][0])['l']) if core.op_place(t['args'][0]) else ''
                if 'Error' in a0:
                    bad.append((p, t['line']))
            if t['callee'].get('decl') == 'std::ops::FromResidual::from_residual':
                ck = t['callee'].get('key') or ''
                # residual error type must be Error -> Error (no From conversion to another type)
                if 'FromResidual<std::result::Result<std::convert::Infallible, Error>>' not in ck:
                    bad.append((ck, t['line']))
        n += 1
        if bad:
            for p, line in bad:
                ctx.violation(R, 'remapped:%s' % core.short(p)[:60], 'error value is re-mapped / swallowed by %s' % p,
                              site=line, fn=fn.path, cfg=cfg)
        else:
            ctx.ok(R, fn.path, None)
    ctx.floor(R, 40, n, 'Result-returning API functions', cfg=cfg)


# ------------------------------------------------------------------------------ (d)

def check_config_handover(ctx, facts, cfg):
    R = 'C06.d-config-handover'
    RL = roles_mod.roles(facts)
    n = 0
    for side in ('enc', 'dec'):
        full = RL.fn.get(side + '.reset')
        if full is None:
            ctx.violation(R, 'role-missing:%s.reset' % side, 'unrecognised idiom: explicit reset of the work object not identified', fn=side, cfg=cfg)
            continue
        for p, fn in sorted(facts.fns.items()):
            for b, t in fn.body.calls():
                if t['callee'].get('path') != full:
                    continue
                n += 1
                pn = fn.param_names()
                usz = [x for i, x in enumerate(pn) if fn.body.local_ty(i + 1) == 'usize']
                # which reset parameter is which follows the roles (positions today; by flow when the signature was regrouped)
                rp_ = getattr(RL, 'reset_param_roles', {}).get(side) or {}
                inv_ = {r_: i_ for i_, r_ in rp_.items()}
                pos_ = [inv_.get('original_count', 1), inv_.get('recovery_count', 2), inv_.get('shard_bytes', 3)]
                if max(pos_) >= len(t['args']):
                    pos_ = [1, 2, 3]
                got = [fn.body.canon_op(t['args'][i_]) for i_ in pos_]
                want = [('param', x) for x in usz[:3]]
                # the caller's own (o, r, sb) must in turn be the public trait arguments: callers are reached by
                # forwarding from RateEncoder/RateDecoder::{new,reset} (checked by C08.c: validate on the same triple)
                if len(usz) >= 3 and got == want:
                    ctx.ok(R, '%s->%s@%s' % (p, core.short(full), cfg), {'site': t['line']})
                else:
                    ctx.violation(R, 'altered-config:%s' % core.short(p)[:60],
                                  '%s configures the work object with (%s) instead of its own (original_count, recovery_count, shard_bytes) = (%s): later index / size checks and error values use the altered numbers'
                                  % (p, ', '.join(core.show(g) for g in got), ', '.join(usz[:3])), site=t['line'], fn=p, cfg=cfg)
    ctx.floor(R, 4, n, 'call sites of the explicit reset', cfg=cfg)


PANICKY = re.compile(r'(core|std)::panicking::|::unwrap$|::expect$|unwrap_failed|assert_failed|rt::begin_panic|panic_fmt|::unreachable')


def panic_census(ctx, facts, cfg):
    """C06.g.  debug assertions (`if <cfg literal> {..}` from a macro expansion) are not counted: they do not exist in release
    builds and state invariants the other rules establish."""
    R = 'C06.g-panic-census'
    RL = roles_mod.roles(facts)
    cg = core.callgraph(facts)
    # functions only reachable from the initialisers of the lazy tables
    init_roots = []

    def fn_consts(n):
        if isinstance(n, list):
            for x in n:
                fn_consts(x)
        elif isinstance(n, dict):
            c = n.get('const')
            if isinstance(c, dict) and c.get('fn') in facts.fns:
                init_roots.append(c['fn'])
            for v in n.values():
                if isinstance(v, (dict, list)):
                    fn_consts(v)
    for p, s_ in facts.statics.items():
        fn_consts(s_['body'].blocks)
    init_only, _ = cg.reachable(init_roots) if init_roots else (set(), None)
    reset_roles = {RL.fn.get('enc.reset'), RL.fn.get('dec.reset')} - {None}

    def sites(n, dbg, out):
        if isinstance(n, list):
            for x in n:
                sites(x, dbg, out)
            return
        if not isinstance(n, dict):
            return
        if n.get('k') == 'expr' and core.is_debug_assert_stmt(n):
            dbg = True
        p = None
        if n.get('k') == 'call' and isinstance(n.get('f'), dict) and n['f'].get('k') == 'path':
            p = n['f'].get('path')
        if n.get('k') == 'mcall':
            p = n.get('path')
        if p and PANICKY.search(p) and not dbg:
            out.append((core.short(p), n.get('line')))
        for v in n.values():
            if isinstance(v, (dict, list)):
                sites(v, dbg, out)
    n = 0
    cats = {}
    for p, fn in sorted(facts.fns.items()):
        if not fn.hir:
            continue
        out = []
        sites(fn.hir, False, out)
        for (what, line) in out:
            n += 1
            adt = fn.impl_self_adt or ''
            host = p
            if fn.kind == 'Closure' and fn.closure_parent:
                host = fn.closure_parent
            hf = facts.fns.get(host) or fn
            if (hf.impl_self_adt or '').startswith('rate::rate_default::'):
                cat = 'placeholder variant of the default-rate inner codec'
            elif host in reset_roles or (facts.fns.get(host) is not None and host in {q for r in reset_roles for q in getattr(core.inlined_fn(facts, r, core.self_helper(facts.fns[r].impl_self_adt)), 'inlined', [])}):
                cat = 'shard-size assert of the work reset'
            elif (hf.impl_self_adt or '') == 'engine::shards::ShardsRefMut' and hf.name == 'new':
                cat = 'ShardsRefMut::new contract'
            elif host in init_only:
                cat = 'one-time table initialisation'
            elif hf.impl_trait == 'std::cmp::PartialEq' and (hf.impl_self_adt or '').endswith('Error'):
                cat = 'Error::eq'
            else:
                cat = None
            if cat is None:
                ctx.violation(R, 'undischarged:%s' % what, 'explicit panic site `%s` at %s in %s is not in any discharged category: a call the documentation allows may now panic instead of returning (no-panic clause of C06)'
                              % (what, line, p), site=line, fn=p, cfg=cfg)
            else:
                cats[cat] = cats.get(cat, 0) + 1
    for c_, k in sorted(cats.items()):
        ctx.ok(R, '%s@%s' % (c_, cfg), {'sites': k})
    ctx.floor(R, 5, n, 'explicit non-debug panic sites', cfg=cfg)
