"""Instance-level summaries shared by several properties:
   M4 mutation through &mut params, M5 fail-sources, M6 purity."""
import re
from . import core
from .core import op_place

STATE_ADTS_RE = re.compile(
    r'(EncoderWork|DecoderWork|RateEncoder<|RateDecoder<|ReedSolomonEncoder|ReedSolomonDecoder|'
    r'InnerEncoder<|InnerDecoder<|Shards\b|ShardsRefMut|FixedBitSet)')

# external callees taking &mut: do they write through it?
EXT_MUTATORS = [
    r'^std::mem::(take|replace|swap)',
    r'^std::vec::Vec::<.*>::(resize|push|clear|truncate|extend|insert|remove|pop|drain|append|reserve|shrink|set_len|retain|dedup|resize_with|fill)',
    r'^alloc::vec::Vec::<.*>::(resize|push|clear|truncate)',
    r'^fixedbitset::FixedBitSet::(set|clear|grow|insert|put|toggle|set_range|insert_range|toggle_range|union_with|intersect_with|difference_with|symmetric_difference_with|copy_bit|remove)',
    r'^core::slice::<impl \[T\]>::(copy_from_slice|copy_within|fill|swap|reverse|sort|clone_from_slice|rotate_left|rotate_right|fill_with)',
    r'^core::array::<impl \[T; N\]>::(fill)',
    r'^core::ptr::(write|copy|copy_nonoverlapping|swap|replace)',
    r'^std::collections::.*::(insert|remove|clear|push|pop)',
]
# external callees taking &mut that only derive another &mut / read
EXT_DERIVE = [
    r'^core::slice::<impl \[T\]>::(split_at_mut|iter_mut|as_mut_ptr|as_flattened_mut|chunks_mut|get_mut|first_mut|last_mut|split_first_mut|as_mut_ptr_range)',
    r'^core::slice::<impl \[\[T; N\]\]>::as_flattened_mut',
    r'^core::array::<impl \[T; N\]>::(split_at_mut|iter_mut|as_mut_slice|each_mut)',
    r'std::ops::IndexMut.*::index_mut$',
    r'std::ops::DerefMut.*::deref_mut$',
    r'std::convert::AsMut.*::as_mut$',
    r'std::borrow::BorrowMut.*::borrow_mut$',
    r'std::iter::IntoIterator.*::into_iter$',
    r'std::iter::Iterator.*::next$',
    r'^std::iter::zip',
    r'std::iter::Iterator.*::(zip|enumerate|map|by_ref)$',
    r'^std::vec::Vec::<.*>::(as_mut_slice|as_mut_ptr|iter_mut)',
    r'^core::slice::iter::<impl std::iter::IntoIterator for &mut \[T\]>::into_iter',
    r'^std::option::Option::<.*>::(as_mut|unwrap|expect|unwrap_or_default|map|ok_or)$',
    r'^std::result::Result::<.*>::(unwrap|expect|map|ok|as_mut)$',
    r'std::ops::Try.*::branch$',
    r'std::ops::FromResidual.*::from_residual$',
    r'std::convert::Into.*::into$',
    r'std::convert::From.*::from$',
]
EXT_MUT_RE = [re.compile(x) for x in EXT_MUTATORS]
EXT_DER_RE = [re.compile(x) for x in EXT_DERIVE]

PURE_EXT = [
    r'^core::num::', r'^std::cmp::(min|max)', r'std::cmp::Ord.*::(cmp|min|max)$', r'std::cmp::PartialOrd.*::(lt|le|gt|ge|partial_cmp)$',
    r'std::cmp::PartialEq.*::(eq|ne)$', r'^std::result::Result::<.*>::(is_ok|is_err)$', r'^std::option::Option::<.*>::(is_some|is_none)$',
    r'^core::panicking::', r'^std::rt::', r'^core::fmt::', r'^std::fmt::', r'^core::slice::<impl \[T\]>::(len|is_empty)$',
    r'std::convert::AsRef.*::as_ref$', r'std::ops::Deref.*::deref$', r'std::convert::From.*::from$', r'std::convert::Into.*::into$',
    r'std::ops::Try.*::branch$', r'std::ops::FromResidual.*::from_residual$', r'^std::intrinsics::', r'^core::intrinsics::',
    r'^std::ops::Range(Inclusive)?::<Idx>::(new|contains|start|end|is_empty)$',
]
PURE_EXT_RE = [re.compile(x) for x in PURE_EXT]


def ext_kind(path):
    for r in EXT_MUT_RE:
        if r.search(path):
            return 'mut'
    for r in EXT_DER_RE:
        if r.search(path):
            return 'derive'
    return None


class Inst:
    """An instance node: MIR of the definition + callee overlay resolved for this instance."""

    def __init__(self, S, key):
        self.S = S
        self.key = key
        facts = S.facts
        rec = facts.instances.get(key)
        if rec is not None:
            self.fn = facts.fns.get(rec['def'])
            self.overlay = rec['calls']
        else:
            self.fn = facts.fns.get(key)
            self.overlay = {}

    def callee(self, bb):
        c = self.overlay.get(str(bb))
        if c is not None:
            return c
        return self.fn.body.term(bb)['callee']

    def callee_key(self, bb):
        c = self.callee(bb)
        return c.get('key') or c.get('path')


class Summaries:
    def __init__(self, facts):
        self.facts = facts
        self._inst = {}
        self._mut = {}
        self._mut_sites = {}
        self._pure = {}
        self._fs = {}
        self.unknown_ext = set()

    def inst(self, key):
        if key not in self._inst:
            self._inst[key] = Inst(self, key)
        return self._inst[key]

    def identity_key(self, fn):
        """instance key of a definition with its own (symbolic) generics"""
        if fn.path in self.facts.instances:
            return fn.path
        # trait-impl methods print as <T as Trait>::m for both def path and key
        for k, rec in self.facts.instances.items():
            if rec['def'] == fn.path:
                return k
        return fn.path

    # ------------------------------------------------------------------ forwarding wrappers
    def forward_target(self, key):
        """instance key K' when instance `key` does nothing but call K' with its own parameters in order and return
        the result (a provided trait method such as Rate::encoder forwarding to Self::RateEncoder::new); else None"""
        inst = self.inst(key)
        fn = inst.fn
        if fn is None:
            return None
        b = fn.body
        calls = [(bb, t) for bb, t in b.calls()]
        if len(calls) != 1:
            return None
        bb, t = calls[0]
        if [b.canon_op(a) for a in t['args']] != [('param', n) for n in fn.param_names()]:
            return None
        if not (t['dest']['l'] == 0 and not t['dest']['p']):
            return None
        for blk in b.blocks:
            if blk['cleanup']:
                continue
            for st in blk['stmts']:
                if st['k'] == 'assign' and st['lhs']['p'] and st['lhs']['p'][0] == '*':
                    return None
        c = inst.callee(bb)
        return c.get('key') or c.get('path')

    def through_forwarders(self, key, hops=3):
        for _ in range(hops):
            nxt = self.forward_target(key) if key else None
            if not nxt:
                break
            key = nxt
        return key

    # ------------------------------------------------------------------ derived &mut locals
    def derived_locals(self, body, roots, seeds=None):
        """locals holding a (re)borrow / projection pointer derived from *root for root in roots
        (plus `seeds`: local -> root, e.g. call results that carry the borrow on).
        returns dict local -> root param local"""
        der = {r: r for r in roots}
        if seeds:
            der.update(seeds)
        changed = True
        while changed:
            changed = False
            for b in range(body.n):
                blk = body.blocks[b]
                if blk['cleanup']:
                    continue
                for st in blk['stmts']:
                    if st['k'] != 'assign' or st['lhs']['p']:
                        continue
                    tgt = st['lhs']['l']
                    if tgt in der:
                        continue
                    rv = st['rv']
                    src = None
                    if rv['k'] in ('ref', 'rawptr') and rv['mut']:
                        pl = rv['place']
                        if pl['l'] in der and any(p == '*' for p in pl['p']):
                            src = pl['l']
                        elif pl['l'] in der and not is_mut_ptr_ty(body.local_ty(pl['l'])):
                            # &mut of a by-value carrier (e.g. &mut ShardsRefMut local)
                            src = pl['l']
                    elif rv['k'] in ('use', 'cast'):
                        pl = op_place(rv['op'])
                        if pl is not None and pl['l'] in der and carries_borrow(body.local_ty(tgt)):
                            src = pl['l']
                    elif rv['k'] == 'agg':
                        for o in rv['ops']:
                            pl = op_place(o)
                            if pl is not None and pl['l'] in der and carries_borrow(body.local_ty(pl['l'])):
                                src = pl['l']
                    if src is not None:
                        der[tgt] = der[src]
                        changed = True
        return der

    # ------------------------------------------------------------------ M4
    def mutation_sites(self, key):
        """list of dicts {bb, idx|'term', root(param local), what, line} for writes through
        &mut params of instance `key` (callee summaries computed recursively; recursion
        through a cycle is treated optimistically, the crate has no recursive fns)."""
        if key in self._mut_sites:
            return self._mut_sites[key]
        self._mut_sites[key] = []
        inst = self.inst(key)
        if inst.fn is None:
            return []
        body = inst.fn.body
        roots = [i for i in range(1, body.arg_count + 1) if body.local_ty(i).startswith('&mut ')]
        if not roots:
            return []
        seeds = {}
        sites = []
        for _round in range(8):
            der = self.derived_locals(body, roots, seeds)
            sites = []
            extra = {}
            for b in range(body.n):
                blk = body.blocks[b]
                if blk['cleanup']:
                    continue
                for i, st in enumerate(blk['stmts']):
                    if st['k'] in ('assign', 'setdiscr'):
                        l = st['lhs']
                        if l['l'] in der and ('*' in l['p'] or (l['p'] and not is_mut_ptr_ty(body.local_ty(l['l'])) and l['l'] not in roots and False)):
                            sites.append({'bb': b, 'idx': i, 'root': der[l['l']], 'line': st['line'],
                                          'what': 'write %s' % place_str(body, l)})
                t = blk['term']
                if t['k'] == 'drop':
                    pl = t['place']
                    if pl['l'] in der and '*' in pl['p']:
                        sites.append({'bb': b, 'idx': 'term', 'root': der[pl['l']], 'line': t['line'],
                                      'what': 'drop-in-place %s' % place_str(body, pl)})
                    elif pl['l'] in der and not pl['p'] and pl['l'] not in roots:
                        # RAII guard holding the borrow: does its Drop impl write through it?
                        dfn = self.drop_impl(t.get('ty') or body.local_ty(pl['l']))
                        if dfn is not None and self.mutates(dfn) :
                            sites.append({'bb': b, 'idx': 'term', 'root': der[pl['l']], 'line': t['line'],
                                          'what': 'drop of %s (its Drop impl writes through the borrow)' % (body.local_name(pl['l']) or core.short(t.get('ty') or '?')),
                                          'callee': dfn, 'kind': 'drop'})
                if t['k'] != 'call':
                    continue
                passed = []
                for ai, a in enumerate(t['args']):
                    pl = op_place(a)
                    if pl is not None and pl['l'] in der and not pl['p'] and carries_borrow(body.local_ty(pl['l'])):
                        passed.append((ai, pl['l']))
                if not passed:
                    continue
                cal = inst.callee(b)
                ck = cal.get('key') or cal.get('path') or '?'
                kind, writes = self.callee_effect(cal, [ai for ai, _ in passed])
                for ai, l in passed:
                    if ai in writes:
                        sites.append({'bb': b, 'idx': 'term', 'root': der[l], 'line': t['line'],
                                      'what': 'call %s (writes through arg %d)' % (core.short(ck), ai),
                                      'callee': ck, 'kind': kind})
                dest = t['dest']
                if not dest['p'] and carries_borrow(body.local_ty(dest['l'])) and dest['l'] not in der:
                    extra[dest['l']] = der[passed[0][1]]
            if all(k in seeds for k in extra):
                break
            seeds.update(extra)
        self._mut_sites[key] = sites
        return sites

    def drop_impl(self, ty):
        """path of `<T as Drop>::drop` for a local type `T<..>` defined in this crate, if any"""
        base = re.sub(r'<.*$', '', ty)
        for p, f in self.facts.fns.items():
            if f.impl_trait == 'std::ops::Drop' and f.impl_self_adt == base:
                return p
        return None

    def mutates(self, key):
        """set of 0-based param positions written through"""
        inst = self.inst(key)
        if inst.fn is None:
            return set()
        return {s['root'] - 1 for s in self.mutation_sites(key)}

    def callee_effect(self, cal, passed_idx):
        """returns (kind, set(arg indexes written through))"""
        if cal.get('indirect'):
            return ('indirect', set(passed_idx))
        path = cal.get('path') or '?'
        key = cal.get('key') or path
        if cal.get('unresolved') or cal.get('virtual'):
            if cal.get('local'):
                # CHA: union over in-crate impls
                cg = core.callgraph(self.facts)
                out = set()
                for ip in cg.impl_methods.get(cal['decl'], []):
                    out |= (self.mutates(ip) & set(passed_idx))
                if cal['decl'] in self.facts.fns:
                    out |= (self.mutates(cal['decl']) & set(passed_idx))
                return ('cha', out)
            k = ext_kind(path)
            if k == 'mut':
                return ('ext', set(passed_idx))
            if k == 'derive':
                return ('ext', set())
            self.unknown_ext.add(path)
            return ('ext?', set(passed_idx))
        if cal.get('local'):
            return ('crate', self.mutates(key) & set(passed_idx))
        k = ext_kind(path)
        if k == 'mut':
            return ('ext', set(passed_idx))
        if k == 'derive':
            return ('ext', set())
        self.unknown_ext.add(path)
        return ('ext?', set(passed_idx))

    # ------------------------------------------------------------------ M6
    def pure(self, key, stack=()):
        if key in self._pure:
            return self._pure[key]
        if key in stack:
            return True
        inst = self.inst(key)
        if inst.fn is None:
            return False
        body = inst.fn.body
        ok = True
        why = None
        for i in range(1, body.arg_count + 1):
            if '&mut' in body.local_ty(i):
                ok, why = False, 'has &mut parameter'
        if ok:
            for b in range(body.n):
                blk = body.blocks[b]
                if blk['cleanup']:
                    continue
                for st in blk['stmts']:
                    if st['k'] == 'assign' and 'static' in repr(st['rv']):
                        if '"static"' in __import__('json').dumps(st['rv']):
                            ok, why = False, 'touches a static'
                t = blk['term']
                if t['k'] == 'call':
                    cal = inst.callee(b)
                    ck = cal.get('key') or cal.get('path') or '?'
                    if cal.get('unresolved') or cal.get('virtual') or cal.get('indirect'):
                        ok, why = False, 'dynamic call %s' % ck
                    elif cal.get('local'):
                        if not self.pure(ck, stack + (key,)):
                            ok, why = False, 'calls impure %s' % ck
                    else:
                        if not any(r.search(cal.get('path') or '') for r in PURE_EXT_RE):
                            ok, why = False, 'calls extern %s' % cal.get('path')
                if not ok:
                    break
        self._pure[key] = ok
        if not ok:
            self._pure_why = getattr(self, '_pure_why', {})
            self._pure_why[key] = why
        return ok

    def canon_pred(self, key, depth=0):
        """follow forwarding wrappers (single tail call passing the own parameters in order) so that
        `<HighRateEncoder<E> as RateEncoder<E>>::validate` and `<HighRate<E> as Rate<E>>::validate` are one predicate"""
        if depth > 5:
            return key
        inst = self.inst(key)
        fn = inst.fn
        if fn is None:
            return key
        body = fn.body
        calls = [(b, t) for b, t in body.calls() if inst.callee(b).get('local')]
        if len(calls) != 1:
            return key
        b, t = calls[0]
        if not (t['dest']['l'] == 0 and not t['dest']['p']):
            return key
        if [body.canon_op(a) for a in t['args']] != [('param', n) for n in fn.param_names()]:
            return key
        ck = inst.callee_key(b)
        if not ck or ck == key:
            return key
        return self.canon_pred(ck, depth + 1)

    # ------------------------------------------------------------------ M5
    def fail_sources(self, key, stack=()):
        """set of leaves: ('pred', pred_key, args(tuple of canon over this instance's params))
                          ('own', fn path, variant)   -- error constructed here
                          ('opaque', callee)          -- unknown failing callee"""
        if key in self._fs:
            return self._fs[key]
        if key in stack:
            return set()
        inst = self.inst(key)
        out = set()
        if inst.fn is None:
            return {('opaque', key)}
        fn = inst.fn
        body = fn.body
        errs, oks = core.result_exits(body)
        for (b, kind, detail) in errs:
            if kind == 'ctor':
                st = body.blocks[b]['stmts'][detail]
                v = '?'
                rv = st['rv']
                c = body.canon_rv(rv)
                try:
                    inner = c[3][0][1]
                    v = inner[2] if inner[0] == 'adt' else core.show(inner)
                except Exception:
                    pass
                out.add(('own', fn.path, v))
        for ts in core.try_sites(body):
            if ts['call_bb'] is None:
                out.add(('opaque', 'try-on-non-call@%s' % fn.path))
                continue
            out |= self._callee_fs(inst, ts['call_bb'], stack + (key,))
        for (b, kind, detail) in oks:
            if kind == 'tailcall':
                t = body.term(b)
                rt = body.local_ty(0)
                if rt.startswith('std::result::Result<'):
                    out |= self._callee_fs(inst, b, stack + (key,))
        self._fs[key] = out
        return out

    def _callee_fs(self, inst, call_bb, stack):
        body = inst.fn.body
        t = body.term(call_bb)
        cal = inst.callee(call_bb)
        ck = cal.get('key') or cal.get('path') or '?'
        # error adaptors: the failures of `r.map(f)` / `r.map_err(g)` / `o.ok_or(e)` are the failures of what produced r
        if re.search(r'^std::result::Result::<.*>::(map|map_err|inspect|inspect_err)$', cal.get('path') or '') and t['args']:
            pl = op_place(t['args'][0])
            if pl is not None and not pl['p']:
                ds = [d for d in body.defs().get(pl['l'], []) if d[0] in ('call', 'stmt')]
                if len(ds) == 1 and ds[0][0] == 'call':
                    mapper = body.canon_op(t['args'][1]) if len(t['args']) > 1 else None
                    # the mapper must be a constructor / fn item (cannot fail): a closure could panic but not return Err here
                    return self._callee_fs(inst, ds[0][1], stack)
        if cal.get('unresolved') or cal.get('virtual') or cal.get('indirect') or not cal.get('local'):
            return {('opaque', ck)}
        args = tuple(core.strip_var_ids(body.canon_op(a)) for a in t['args'])
        callee = self.inst(ck)
        if callee.fn is None:
            return {('opaque', ck)}
        if self.pure(ck):
            inner = self.fail_sources(ck, stack)
            if not (inner and all(l[0] == 'pred' for l in inner)):
                return {('pred', self.canon_pred(ck), args)}
            # a pure function that constructs no error itself fails exactly when the predicates it consults fail
            # (`RateKind::select(o, r)` = `decision(o, r)?` mapped to an enum): it is transparent
        pn = callee.fn.param_names()
        sub = {}
        for i, n in enumerate(pn):
            if n is not None and i < len(args):
                sub[n] = args[i]
        out = set()
        for leaf in self.fail_sources(ck, stack):
            if leaf[0] == 'pred':
                out.add(('pred', leaf[1], tuple(subst(a, sub) for a in leaf[2])))
            else:
                out.add(leaf)
        return out


def subst(c, sub):
    if not isinstance(c, tuple):
        return c
    if c and c[0] == 'param' and c[1] in sub:
        return sub[c[1]]
    return tuple(subst(x, sub) for x in c)


def is_mut_ptr_ty(ty):
    return ty.startswith('&mut ') or ty.startswith('*mut ')


def carries_borrow(ty):
    return ('&mut' in ty) or ("<'" in ty) or ty.startswith('&') or ('IterMut' in ty) or ('ShardsRefMut' in ty)


def place_str(body, pl):
    base = body.local_name(pl['l']) or ('_%d' % pl['l'])
    return base + ''.join(core.proj_str(p) for p in pl['p'])


def summaries(facts):
    if not hasattr(facts, '_summ'):
        facts._summ = Summaries(facts)
    return facts._summ
