"""Runs the type-level witnesses (witness/src/lib.rs) against the repo tree under analysis:
a throw-away harness crate path-depending on it, `cargo +nightly test --doc` (compile only)."""
import os, re, shutil, subprocess, tempfile, fcntl
from . import runner

_cache = {}


def run_witnesses(repo):
    """returns dict name -> (ok: bool, line) ; name = '<section> #n (compile_fail|no_run)'"""
    if repo in _cache:
        return _cache[repo]
    verif = runner.VERIF
    th, _ = runner.tree_hash(repo)
    cache_file = os.path.join(runner.CACHE, 'witness-%s.txt' % th[:24])
    src = os.path.join(verif, 'witness', 'src', 'lib.rs')
    wh = runner.hashlib.sha256(open(src, 'rb').read()).hexdigest()[:12]
    cache_file = cache_file.replace('.txt', '-%s.txt' % wh)
    os.makedirs(runner.CACHE, exist_ok=True)
    out = None
    if os.path.exists(cache_file) and os.environ.get('VERIF_NO_CACHE') != '1':
        out = open(cache_file).read()
    if out is None:
        lock = open(os.path.join(runner.CACHE, 'lock-witness'), 'w')
        fcntl.flock(lock, fcntl.LOCK_EX)
        tmp = tempfile.mkdtemp(prefix='rswit_', dir='/tmp')
        try:
            # every analysed tree leaves its own build of the crate behind: start over when the directory has grown large
            wt = os.path.join(runner.CACHE, 'witness-target')
            try:
                sz = int(subprocess.run(['du', '-sm', wt], capture_output=True, text=True).stdout.split()[0]) if os.path.isdir(wt) else 0
            except Exception:
                sz = 0
            if sz > 3000:
                shutil.rmtree(wt, ignore_errors=True)
            os.makedirs(os.path.join(tmp, 'src'))
            shutil.copy(src, os.path.join(tmp, 'src', 'lib.rs'))
            toml = open(os.path.join(verif, 'witness', 'Cargo.toml.in')).read().replace('@REPO@', repo)
            open(os.path.join(tmp, 'Cargo.toml'), 'w').write(toml)
            shutil.copy(os.path.join(repo, 'Cargo.lock'), os.path.join(tmp, 'Cargo.lock'))
            env = dict(os.environ, CARGO_NET_OFFLINE='true',
                       CARGO_TARGET_DIR=os.path.join(runner.CACHE, 'witness-target'))
            r = subprocess.run(['cargo', '+nightly', 'test', '--doc', '--offline'], cwd=tmp, env=env,
                               capture_output=True, text=True)
            out = r.stdout + '\n' + r.stderr
            if 'test result:' not in out:
                raise runner.Infra('witness harness did not build (does %s compile as a dependency?):\n%s' % (repo, out[-2500:]))
            open(cache_file, 'w').write(out)
        finally:
            shutil.rmtree(tmp, ignore_errors=True)
            fcntl.flock(lock, fcntl.LOCK_UN)
            lock.close()
    res = {}
    for m in re.finditer(r'^test (src/lib\.rs - \(line (\d+)\)( - compile fail)?( - compile)?) \.\.\. (\w+)', out, re.M):
        res[int(m.group(2))] = (m.group(5) == 'ok', m.group(1))
    # map line numbers to sections
    lines = open(src).read().splitlines()
    named = {}
    sect = '?'
    counters = {}
    for i, l in enumerate(lines, 1):
        mm = re.match(r'//! # (\S+)', l)
        if mm:
            sect = mm.group(1)
        if re.match(r'//! ```(compile_fail|no_run)', l):
            kind = 'compile_fail' if 'compile_fail' in l else 'twin'
            counters[(sect, kind)] = counters.get((sect, kind), 0) + 1
            name = '%s:%s#%d' % (sect, kind, counters[(sect, kind)])
            if i in res:
                named[name] = res[i]
            else:
                named[name] = (False, 'doctest at witness/src/lib.rs:%d did not run' % i)
    _cache[repo] = named
    return named
