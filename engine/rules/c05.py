"""C05 — results never depend on what the codec object did before."""
import re
from . import core, resetrules
from .core import hcanon, hshow, callgraph, op_place

EXPLANATION = (
    "Reset/zeroing discipline decided on the type-checked program. (a) the explicit reset rewrites every field "
    "of the work object on every path (config from parameters, counters to 0, bitmap clear, shard store resize); "
    "a newly added field that is not reset is reported by name. (b) Drop of the result types calls the implicit "
    "reset on every path and it clears every field the add_* methods write. (c) truncated-IFFT contract: every "
    "Engine::ifft / ifft_skew_end whose truncated_size is not canonically its size is preceded, on every path and "
    "on the same buffer, by ShardsRefMut::zero(range) with range.start == pos + truncated_size and range.end == "
    "pos + size or open, with no assignment to a variable of those expressions in between. (d) decoder tiling: "
    "before the first transform the region operations on the work buffer (zero(a..b), and `for i in a..b` loops "
    "that write work[i] on every path of their body) tile [0, end-of-buffer) without gap. (e) every successful "
    "constructor passes the working space that ends up in the codec through the explicit reset. (f) no function "
    "reachable from the API reads a static other than the LazyLock tables, a thread-local, or a clock/env/"
    "thread-id/random source.")
DECIDES = "that every per-round and per-configuration piece of state is cleared/rewritten before reuse and that every truncated transform sees zeroed padding (the structural prerequisites of history independence)."
NOT_DECIDED = "numerical sufficiency of the zeroed regions for the multi-chunk high-rate encoder; lane-level leakage inside a partial last block (C04's arithmetic part)."
TRUSTED = ["Engine::ifft trait contract as documented (output valid iff data[pos+truncated..pos+size] was zero)", "FixedBitSet::clear clears all bits"]
ASSUMPTIONS = ["shard contents are, by design, not cleared on reset; correctness therefore rests on rules c and d"]


def run(ctx):
    cfgs = ['x86_64'] if ctx.tier == 'quick' else ['x86_64', 'aarch64', 'i686']
    ctx.rule('C05.a-explicit-reset', 'the explicit reset rewrites every field of the work object on every path')
    ctx.rule('C05.b-drop-resets', 'Drop of the result types calls the implicit reset of its work on every path')
    ctx.rule('C05.b-implicit-reset-clears', 'the implicit reset clears every per-round field on every path')
    ctx.rule('C05.c-truncated-ifft-zeroed', 'every truncated IFFT is preceded by zeroing of exactly its tail on the same buffer')
    ctx.rule('C05.d-decoder-tiling', 'decoder region operations tile the work buffer before the first transform')
    ctx.rule('C05.e-handover-through-reset', 'a constructor returns Ok only after the explicit reset ran on the work object it stores')
    ctx.rule('C05.f-no-hidden-inputs', 'no reachable function reads a non-table static, a thread-local or a nondeterminism source')
    ctx.rule('C05.g-failed-call-leaves-no-trace', 'no mutation of codec state reaches an Err exit: results cannot depend on failed calls made in between (clause shared with C07.atomic)')
    from . import c07
    for c_ in ('x86_64', 'x86_64+release'):      # +release: what cfg(debug_assertions) hides from a dev build
        ctx.guard('C05.analysable', ctx.shared, {'C07.atomic': 'C05.g-failed-call-leaves-no-trace'}, c07.check_cfg, ctx, ctx.facts(c_), c_)
    ctx.rule('C05.j-store-geometry-rewritten', 'the shard store rewrites its whole geometry (every field, on every path) at each resize, so that nothing of an earlier configuration (stride, byte length) shapes a later round (clause shared with C04.d)')
    from . import c04 as c04_
    ctx.guard('C05.analysable', c04_.store_resize_complete, ctx, ctx.facts('x86_64'), 'x86_64', 'C05.j-store-geometry-rewritten')
    ctx.rule('C05.k-insert-always-stores', 'the shard store copies an added shard into its slot on every path: no data-dependent skip ("all zero, the buffer is zero anyway") can leave the bytes of an earlier round in a slot that the bitmap then marks as received')
    ctx.guard('C05.analysable', insert_always_stores, ctx, ctx.facts('x86_64'), 'x86_64')
    ctx.rule('C05.i-new-and-reset-decide-alike', 'new and reset of the default rate take the rate from the one decision function on (original_count, recovery_count): a reset codec is the codec a fresh one would be (clause shared with C09.b)')
    from . import c09 as c09_
    ctx.guard('C05.analysable', ctx.shared, {'C09.b-single-source': 'C05.i-new-and-reset-decide-alike'}, c09_.check, ctx, ctx.facts('x86_64'), 'x86_64')
    ctx.rule('C05.h-grow-only-lengths', 'the length of the grow-only bitmap and the capacity of the store (which remember the largest configuration ever used) are read only to decide whether to grow')
    for cfg in cfgs:
        facts = ctx.facts(cfg)
        ctx.guard('C05.analysable', resetrules.check_reset_discipline, ctx, facts, cfg, 'C05.b-drop-resets', 'C05.b-implicit-reset-clears', 'C05.a-explicit-reset')
        ctx.guard('C05.analysable', ifft_rule, ctx, facts, cfg)
        ctx.guard('C05.analysable', tiling_rule, ctx, facts, cfg)
        ctx.guard('C05.analysable', handover_rule, ctx, facts, cfg)
        ctx.guard('C05.analysable', hidden_inputs, ctx, facts, cfg)
        ctx.guard('C05.analysable', grow_only_lengths, ctx, facts, cfg)


# ------------------------------------------------------------------ linear normal form

def lin(c):
    """linear normal form of a canonical expr: (const, ((term, coeff), ...))"""
    terms = {}
    const = 0

    def add(c, k):
        nonlocal const
        if isinstance(c, tuple) and c and c[0] == 'const' and isinstance(c[1], int):
            const += k * c[1]
        elif isinstance(c, tuple) and c and c[0] == 'bin' and c[1] == 'Add':
            add(c[2], k)
            add(c[3], k)
        elif isinstance(c, tuple) and c and c[0] == 'bin' and c[1] == 'Sub':
            add(c[2], k)
            add(c[3], -k)
        else:
            terms[c] = terms.get(c, 0) + k
    add(c, 1)
    return (const, tuple(sorted(((repr(t), v) for t, v in terms.items() if v != 0))))


def locals_in(c, out=None):
    if out is None:
        out = set()
    if isinstance(c, tuple):
        if c and c[0] == 'local':
            out.add(c[1])
        else:
            for x in c:
                locals_in(x, out)
    return out


# ------------------------------------------------------------------ event linearisation

subst_hir = core.subst_hir


class Events:
    """Pre-order linearisation of a fn body: statement-level events with nesting paths.  Calls of private
    statement-like helpers (crate fns returning (), not trait methods) are expanded in place, parameters
    replaced by the caller's argument expressions, so that extracting a loop into a helper changes nothing."""

    def __init__(self, fn):
        self.fn = fn
        self.facts = fn.facts
        self.events = []    # dict(kind, node, path, order, env, cond_depth)
        self.order = 0
        self.env = {}
        self.inline_depth = 0
        self._block(fn.hir['value'], (), 0)

    def _try_inline(self, n, p, nest):
        if self.inline_depth >= 2:
            return False
        path = None
        args = None
        if n.get('k') == 'call' and n['f'].get('k') == 'path':
            path, args = n['f'].get('path'), list(n['args'])
        elif n.get('k') == 'mcall':
            path, args = n.get('path'), [n['recv']] + list(n['args'])
        g = self.facts.fns.get(path) if path else None
        if g is None or g.impl_trait or g.in_trait or g.output not in ('()', None) or g.path == self.fn.path:
            return False
        if g.reachable:
            return False        # public functions are contracts of their own (zero, copy_within, ...)
        params = g.hir.get('params', [])
        if len(params) != len(args) or not all(pt.get('k') == 'bind' for pt in params):
            return False
        self.inline_depth += 1
        shift = 100000 * self.inline_depth + 1000 * (self.order % 90)
        mapping = {pt['id']: a for pt, a in zip(params, args)}
        body = subst_hir(g.hir['value'], mapping, shift)
        self._block(body, p, nest, flat=True)
        self.inline_depth -= 1
        return True

    def _emit(self, kind, node, path, nest, **kw):
        self.order += 1
        d = dict(kind=kind, node=node, path=path, order=self.order, env=dict(self.env), nest=nest)
        d.update(kw)
        self.events.append(d)

    def _block(self, b, path, nest, flat=False):
        """flat: the statements of an inlined helper stand at the position of the call statement itself"""
        b = core.strip_refs(b)
        if b.get('k') != 'block':
            self._expr_stmt(b, path if flat else path + (0,), nest)
            return
        bid = id(b)
        i = 0
        for s in b.get('stmts', []):
            p = path if flat else path + ((bid, i),)
            if s['k'] == 'let':
                if 'init' in s:
                    self._scan(s['init'], p, nest)
                    pat = s['pat']
                    if pat.get('k') == 'bind' and pat.get('mode', '').endswith('Not)'):
                        self.env[pat['id']] = hcanon(s['init'], self.env)
                if 'else' in s:
                    self._block(s['else'], p, nest + 1)
            else:
                self._expr_stmt(s['e'], p, nest)
            i += 1
        if b.get('tail') is not None:
            self._expr_stmt(b['tail'], path if flat else path + ((bid, i),), nest)

    def _expr_stmt(self, e, p, nest):
        e0 = core.strip_refs(e)
        k = e0.get('k')
        fl = core.for_loop_parts(e0)
        if fl:
            pat, it, body = fl
            self._emit('for', e0, p, nest, pat=pat, iter=it, body=body)
            self._block(body, p, nest + 1)
            return
        if k == 'if':
            self._scan(e0['cond'], p, nest)
            self._emit('if', e0, p, nest)
            self._block(e0['then'], p + ('then',), nest + 1)
            if 'else' in e0:
                self._block(e0['else'], p + ('else',), nest + 1)
            return
        if k == 'loop':
            self._emit('loop', e0, p, nest)
            self._block(e0['body'], p, nest + 1)
            return
        if k == 'block':
            self._block(e0, p, nest, flat=bool(e0.get('modelled')))
            return
        if k == 'match':
            self._scan(e0['scrut'], p, nest)
            for j, a in enumerate(e0['arms']):
                self._block(a['body'], p + ('arm%d' % j,), nest + 1)
            return
        self._scan(e0, p, nest)

    def _scan(self, e, p, nest):
        """calls / assignments inside an expression statement"""
        def visit(n, parents):
            k = n.get('k')
            if k in ('mcall', 'call'):
                if self._try_inline(n, p, nest):
                    return False
                self._emit('call', n, p, nest)
            elif k in ('assign', 'assignop'):
                self._emit('assign', n, p, nest, target=hcanon(n['l'], {}))
            elif k == 'closure':
                return False
        core.hir_walk(e, visit)


_WRAP = {}


def transform_wrapper(facts, path):
    """If crate fn `path` only forwards to Engine::fft / Engine::ifft, return
    (kind, {role: own param position}) for roles data,pos,size,truncated; else None."""
    key = (id(facts), path)
    if key in _WRAP:
        return _WRAP[key]
    res = None
    fn = facts.fns.get(path)
    if fn is not None:
        eng = [(b, t) for b, t in fn.body.calls() if t['callee'].get('decl') in ('engine::Engine::fft', 'engine::Engine::ifft')]
        others = [(b, t) for b, t in fn.body.calls() if t['callee'].get('local') and t['callee'].get('decl') not in ('engine::Engine::fft', 'engine::Engine::ifft')]
        if len(eng) == 1 and not others:
            t = eng[0][1]
            pn = fn.param_names()
            pos = {}
            for role, ai in (('data', 1), ('pos', 2), ('size', 3), ('truncated', 4)):
                c = fn.body.canon_op(t['args'][ai])
                if c[0] == 'param' and c[1] in pn:
                    pos[role] = pn.index(c[1])
            if len(pos) == 4:
                res = (t['callee']['decl'].split('::')[-1], pos)
    _WRAP[key] = res
    return res


def transform_call(facts, n, env):
    """(kind, data, pos, size, truncated) if HIR call node n is an FFT/IFFT (direct or through a forwarding wrapper)"""
    path, args = call_info(n, env)
    if path in ('engine::Engine::ifft', 'engine::Engine::fft') and len(args) >= 5:
        return (path.split('::')[-1], args[1], args[2], args[3], args[4])
    w = transform_wrapper(facts, path) if isinstance(path, str) else None
    if w:
        kind, pos = w
        try:
            return (kind, args[pos['data']], args[pos['pos']], args[pos['size']], args[pos['truncated']])
        except IndexError:
            return None
    return None


def call_info(n, env):
    """(callee path, [canonical args incl. receiver])"""
    if n['k'] == 'mcall':
        return n.get('path') or n['name'], [hcanon(n['recv'], env)] + [hcanon(a, env) for a in n['args']]
    f = n['f']
    return (f.get('path') if f.get('k') == 'path' else None), [hcanon(a, env) for a in n['args']]


def precedes_on_every_path(z, i):
    """event z is a direct statement of a block that encloses (or is) the block of event i, earlier in it,
    and z is not nested inside a conditional/loop relative to that block"""
    zp, ip = z['path'], i['path']
    if zp == ip:
        # statements of one helper body inlined in place of the call share the call's position: they run in order
        return z['order'] < i['order']
    if len(zp) > len(ip):
        return False
    if zp[:-1] != ip[:len(zp) - 1]:
        return False
    a, b = zp[-1], ip[len(zp) - 1]
    if not (isinstance(a, tuple) and isinstance(b, tuple) and a[0] == b[0]):
        return False
    return a[1] < b[1]


# (floors: what any implementation must contain -- at least one truncated IFFT per codec function; how many call sites the
# chunks are spread over is a matter of loop structure)
CODEC_FNS = [('<rate::rate_high::HighRateEncoder<E> as rate::RateEncoder<E>>::encode', 1),
             ('<rate::rate_low::LowRateEncoder<E> as rate::RateEncoder<E>>::encode', 1),
             ('<rate::rate_high::HighRateDecoder<E> as rate::RateDecoder<E>>::decode', 1),
             ('<rate::rate_low::LowRateDecoder<E> as rate::RateDecoder<E>>::decode', 1)]


def guarded_by_nonempty_tail(ev, z, i, size, trunc):
    """`if trunc < size { work.zero(pos + trunc..pos + size) }` in front of the transform: when the condition is false the tail
    is empty (Engine::ifft requires truncated_size <= size), so nothing needs zeroing.  z sits directly in the then-block of an
    else-less `if` whose condition is exactly `trunc < size` / `trunc != size` / `size > trunc`, and that `if` precedes the
    transform on every path."""
    zp = z['path']
    if len(zp) < 2 or zp[-2] != 'then':
        return False
    for f in ev.events:
        if f['kind'] != 'if' or f['order'] > z['order'] or f['path'] != zp[:-2]:
            continue
        nd = f['node']
        if 'else' in nd:
            return False
        c = hcanon(nd['cond'], f['env'])
        ok = False
        if isinstance(c, tuple) and c[0] == 'bin':
            a, b = lin(c[2]), lin(c[3])
            if c[1] in ('Lt', 'Ne') and a == lin(trunc) and b == lin(size):
                ok = True
            if c[1] in ('Gt', 'Ne') and a == lin(size) and b == lin(trunc):
                ok = True
        if ok and precedes_on_every_path(f, i):
            return True
    return False


def ifft_rule(ctx, facts, cfg):
    R = 'C05.c-truncated-ifft-zeroed'
    total = 0
    for p, expected in CODEC_FNS:
        fn = ctx.anchor(facts, p, R)
        if fn is None:
            continue
        ev = Events(fn)
        n_here = 0
        iffts = []
        for e in ev.events:
            if e['kind'] != 'call':
                continue
            tc = transform_call(facts, e['node'], e['env'])
            if tc and tc[0] == 'ifft':
                iffts.append((e, tc[1], tc[2], tc[3], tc[4]))
        for (e, data, pos, size, trunc) in iffts:
            if lin(trunc) == lin(size):
                ctx.ok(R, '%s:full:%s@%s' % (core.short(p), hshow(pos), cfg), None, nontrivial=False)
                continue
            n_here += 1
            want_start = lin(('bin', 'Add', pos, trunc))
            want_end = lin(('bin', 'Add', pos, size))
            found = None
            why = 'no ShardsRefMut::zero call precedes it on every path'
            for z in ev.events:
                if z['kind'] != 'call' or z['order'] >= e['order']:
                    continue
                zpath, zargs = call_info(z['node'], z['env'])
                if not (zpath or '').endswith('ShardsRefMut::<\'a>::zero') and not (zpath or '').endswith('ShardsRefMut::zero') and 'ShardsRefMut' not in (zpath or '') or not (zpath or '').endswith('zero'):
                    continue
                if zargs[0] != data and strip_mutref(zargs[0]) != strip_mutref(data):
                    continue
                rng = core.is_range_struct(z['node']['args'][0])
                if rng is None:
                    why = 'zero() argument at %s is not a range literal' % z['node'].get('line')
                    continue
                st, en, inc = rng
                stc = lin(hcanon(st, z['env'])) if st is not None else lin(('const', 0))
                enc = lin(hcanon(en, z['env'])) if en is not None else None
                if stc != want_start:
                    why = 'zero(%s..) starts at %s, the transform needs zeros from %s' % (hshow(hcanon(st, z['env'])) if st else '', hshow(hcanon(st, z['env'])) if st else 0, hshow(('bin', 'Add', pos, trunc)))
                    continue
                if enc is not None and enc != want_end or inc:
                    why = 'zero range ends at %s, the transform needs zeros up to %s' % (hshow(hcanon(en, z['env'])), hshow(('bin', 'Add', pos, size)))
                    continue
                if not precedes_on_every_path(z, e) and not guarded_by_nonempty_tail(ev, z, e, size, trunc):
                    why = 'the matching zero() at %s is conditional relative to the transform' % z['node'].get('line')
                    continue
                # no assignment to a variable of the expressions in between
                vars_ = locals_in(pos) | locals_in(size) | locals_in(trunc)
                bad = [a for a in ev.events if a['kind'] == 'assign' and z['order'] < a['order'] < e['order']
                       and a['target'][0] == 'local' and a['target'][1] in vars_]
                if bad:
                    why = '`%s` is reassigned between the zero() and the transform' % bad[0]['target'][1]
                    continue
                found = z
            ident = '%s:ifft(pos=%s,size=%s,trunc=%s)' % (core.short(p), hshow(pos), hshow(size), hshow(trunc))
            if found:
                ctx.ok(R, ident + '@' + cfg, {'ifft_at': e['node'].get('line'), 'zero_at': found['node'].get('line')})
            else:
                ctx.violation(R, 'unzeroed:%s' % re.sub(r'\s+', '', 'pos=%s,trunc=%s' % (hshow(pos), hshow(trunc)))[:70],
                              'truncated IFFT (pos=%s, size=%s, truncated_size=%s) reads data[pos+truncated..pos+size] as zero padding but %s: stale bytes of an earlier round or configuration leak into the result'
                              % (hshow(pos), hshow(size), hshow(trunc), why), site=e['node'].get('line'), fn=p, cfg=cfg)
        total += n_here
        if n_here < expected:
            ctx.violation(R, 'floor:%s' % core.short(p), 'expected instance missing: %d truncated IFFT(s) found in %s, floor %d' % (n_here, p, expected), fn=p, cfg=cfg)
    ctx.floor(R, 4, total, 'truncated IFFT call sites', cfg=cfg)


def strip_mutref(c):
    while isinstance(c, tuple) and c and c[0] in ('ref', 'deref'):
        c = c[1]
    return c


def writes_work_elem(node, work, ivar):
    """does this HIR subtree write work[ivar] (via &mut work[i] argument or method on work[i])?"""
    hit = []

    def visit(n, parents):
        if n.get('k') == 'index':
            b = hcanon(n['base'], {})
            i = hcanon(n['idx'], {})
            if strip_mutref(b) == work and i == ('local', ivar):
                # must be in a mutable position: &mut work[i] or receiver of a mutating method
                for pr in reversed(parents):
                    if pr.get('k') == 'addrof' and pr.get('mut'):
                        hit.append(n)
                        break
                    if pr.get('k') == 'mcall' and pr.get('name') in ('fill', 'copy_from_slice', 'fill_with'):
                        hit.append(n)
                        break
    core.hir_walk(node, visit)
    return bool(hit)


def writes_on_every_path(block, work, ivar):
    block = core.strip_refs(block)
    if block.get('k') == 'block':
        items = [s['e'] for s in block.get('stmts', []) if s['k'] == 'expr']
        if block.get('tail') is not None:
            items.append(block['tail'])
        return any(writes_on_every_path(x, work, ivar) for x in items)
    if block.get('k') == 'if':
        return 'else' in block and writes_on_every_path(block['then'], work, ivar) and writes_on_every_path(block['else'], work, ivar)
    if block.get('k') in ('mcall', 'call'):
        return writes_work_elem(block, work, ivar)
    return False


def guarded_write(block, work, ivar):
    """(repr of the bitmap, polarity) when the loop body is `if [!]bitmap[ivar] { .. writes work[ivar] on every path .. }` and
    nothing else; None for any other shape"""
    b = core.strip_refs(block)
    while b.get('k') == 'block':
        items = [s_['e'] for s_ in b.get('stmts', []) if s_['k'] == 'expr'] + ([b['tail']] if b.get('tail') is not None else [])
        if len(items) != 1 or any(s_['k'] != 'expr' for s_ in b.get('stmts', [])):
            return None
        b = core.strip_refs(items[0])
    if b.get('k') != 'if' or b.get('else') is not None or not writes_on_every_path(b['then'], work, ivar):
        return None
    c = hcanon(b['cond'], {})
    pol = True
    while isinstance(c, tuple) and c[:2] == ('un', 'Not'):
        pol = not pol
        c = c[2]
    if isinstance(c, tuple) and c[0] == 'index' and c[2] == ('local', ivar):
        return (repr(strip_mutref(c[1])), pol)
    return None


def tiling_rule(ctx, facts, cfg):
    R = 'C05.d-decoder-tiling'
    for p, _ in CODEC_FNS[2:]:
        fn = ctx.anchor(facts, p, R)
        if fn is None:
            continue
        ev = Events(fn)
        first_tx = None
        for e in ev.events:
            if e['kind'] == 'call':
                if transform_call(facts, e['node'], e['env']):
                    first_tx = e
                    break
        if first_tx is None:
            ctx.violation(R, 'no-transform', 'no IFFT/FFT call found in %s' % p, fn=p, cfg=cfg)
            continue
        data = strip_mutref(transform_call(facts, first_tx['node'], first_tx['env'])[1])
        regions = []   # (start lin, end lin|None, descr, line)
        partials, ones_loops = [], set()
        for e in ev.events:
            if e['order'] >= first_tx['order']:
                break
            if e['kind'] == 'call':
                path, args = call_info(e['node'], e['env'])
                if (path or '').endswith('zero') and 'ShardsRefMut' in (path or '') and strip_mutref(args[0]) == data:
                    rng = core.is_range_struct(e['node']['args'][0])
                    if rng is None or not precedes_on_every_path(e, first_tx):
                        continue
                    st, en, inc = rng
                    s_c = hcanon(st, e['env']) if st is not None else ('const', 0)
                    e_c = hcanon(en, e['env']) if en is not None else None
                    regions.append((s_c, e_c, 'zero', e['node'].get('line')))
            elif e['kind'] == 'for':
                rng = core.is_range_struct(e['iter'])
                it0 = core.strip_refs(e['iter'])
                if rng is None and it0.get('k') == 'mcall' and it0.get('name') == 'ones' and (it0.get('path') or '').endswith('FixedBitSet::ones') \
                        and e['pat'].get('k') == 'bind' and precedes_on_every_path(e, first_tx) and writes_on_every_path(e['body'], data, e['pat']['name']):
                    # `for pos in bitmap.ones() { write work[pos] }`: every position whose bit is set is written
                    ones_loops.add(repr(hcanon(it0['recv'], {})))
                    continue
                if rng is None or e['pat'].get('k') != 'bind' or not precedes_on_every_path(e, first_tx):
                    continue
                st, en, inc = rng
                ivar = e['pat']['name']
                if st is None or en is None or inc:
                    continue
                if writes_on_every_path(e['body'], data, ivar):
                    regions.append((hcanon(st, e['env']), hcanon(en, e['env']), 'for-loop writing %s[%s] on every path' % (hshow(data), ivar), e['node'].get('line')))
                elif writes_work_elem(e['body'], data, ivar):
                    partials.append((hcanon(st, e['env']), hcanon(en, e['env']), guarded_write(e['body'], data, ivar), ivar, e['node'].get('line')))
        # two loops over the same positions that write under complementary tests of one bitmap, or one that writes where the bit is
        # clear next to a loop over the set bits, define every position between them
        for i_, (st_c, en_c, gw, ivar, line) in enumerate(partials):
            mate = None
            if gw is not None:
                for j_, (st2, en2, gw2, _, _) in enumerate(partials):
                    if j_ != i_ and gw2 is not None and lin(st2) == lin(st_c) and lin(en2) == lin(en_c) and gw2[0] == gw[0] and gw2[1] != gw[1]:
                        mate = 'the loop writing under the opposite test'
                if mate is None and gw[1] is False and gw[0] in ones_loops:
                    mate = 'the loop over the set bits'
            if mate is not None:
                regions.append((st_c, en_c, 'for-loop writing %s[%s] where the bit is %s, with %s' % (hshow(data), ivar, 'set' if gw[1] else 'clear', mate), line))
            else:
                ctx.violation(R, 'partial-loop:%s' % hshow(st_c),
                              'loop over %s..%s writes %s[%s] only on some paths of its body (missing shards keep stale bytes from an earlier round)'
                              % (hshow(st_c), hshow(en_c), hshow(data), ivar), site=line, fn=p, cfg=cfg)
        # tile
        by_start = {}
        for r in regions:
            by_start.setdefault(lin(r[0]), []).append(r)
        cur = lin(('const', 0))
        chain = []
        okk = True
        steps = 0
        while steps < 20:
            steps += 1
            nxt = by_start.get(cur)
            if not nxt:
                okk = False
                break
            r = nxt[0]
            chain.append(r)
            if r[1] is None:
                break
            cur = lin(r[1])
        if okk and chain and chain[-1][1] is None:
            ctx.ok(R, '%s@%s' % (core.short(p), cfg), {'tiles': ['%s..%s (%s)' % (hshow(r[0]), hshow(r[1]) if r[1] is not None else '', r[2].split(' ')[0]) for r in chain]})
            # (the chain above runs from position 0 to the open end, so it is never vacuous; some region of it must be filled
            # from data, and the padding behind needs a second one)
            if len(chain) < 2 or not any(r[2].startswith('for-loop') for r in chain):
                ctx.violation(R, 'floor:%s' % core.short(p), 'expected instance missing: %d regions tile the buffer in %s, none of them a loop writing every position, floor 2' % (len(chain), p), fn=p, cfg=cfg)
        else:
            last = chain[-1] if chain else None
            gap_from = hshow(last[1]) if last else '0'
            ctx.violation(R, 'gap-from:%s' % re.sub(r'\s+', '', gap_from)[:60],
                          'before the first transform in %s the work buffer is not fully initialised: nothing zeroes or overwrites it from position %s on (regions found: %s)'
                          % (core.short(p), gap_from, ['%s..%s' % (hshow(r[0]), hshow(r[1]) if r[1] is not None else '') for r in regions]),
                          site=first_tx['node'].get('line'), fn=p, cfg=cfg)


def same_configuration_fast_path(facts, g, gb, pname, full_reset, resets, gok, work_adt):
    """`if work.is_configured(a..) { work.reset_received() } else { work.reset(a..) }`: the full reset may be skipped on the paths
    behind the true edge of a private pure predicate P of the work object when
      * P is a conjunction of equalities `self.f == <its parameter>` (and `self.<store>.len() == <parameter>`),
      * P and the full reset get the same argument list, and P compares, position by position, every field the full reset
        assigns from a parameter and the store's shard count with the parameter the full reset hands to the store's resize,
      * the implicit reset (what Drop of the result calls) runs on those paths.
    Returns the predicate's path, or None."""
    from . import roles as roles_mod
    RL = roles_mod.roles(facts)
    side = 'enc' if work_adt == roles_mod.ENC_WORK else 'dec'
    recv = RL.fn.get(side + '.reset_received')
    fr = facts.fns.get(full_reset or '')
    if len(resets) != 1 or fr is None or recv is None:
        return None
    rb, rt = resets[0]
    rargs = [core.strip_var_ids(gb.canon_op(a)) for a in rt['args'][1:]]
    # what the full reset does with its parameters
    frp = fr.param_names()
    assigned = {}
    for blk in fr.body.blocks:
        for st in blk['stmts']:
            if st['k'] == 'assign' and st['lhs']['l'] == 1 and len(st['lhs']['p']) == 2 and st['lhs']['p'][0] == '*':
                c = fr.body.canon_rv(st['rv'])
                if c[0] == 'param' and c[1] in frp:
                    assigned[st['lhs']['p'][1].get('f')] = frp.index(c[1])
    store_count_param = None
    for b, t in fr.body.calls():
        if t['callee'].get('path') == RL.fn.get('store.resize') and len(t['args']) >= 2:
            c = core.strip_var_ids(fr.body.canon_op(t['args'][1]))
            if c[0] == 'param' and c[1] in frp:
                store_count_param = frp.index(c[1])
    if not assigned or store_count_param is None:
        return None
    for sb in range(gb.n):
        t = gb.term(sb)
        if t['k'] != 'switch' or gb.blocks[sb]['cleanup'] or len(t['targets']) != 1 or t['targets'][0][0] != 0:
            continue
        c = gb.canon_op(t['discr'])
        neg = False
        while c[0] == 'un' and c[1] == 'Not':
            neg, c = (not neg), c[2]
        if c[0] != 'call' or not isinstance(c[1], str):
            continue
        P = facts.fns.get(c[1])
        if P is None or P.reachable or P.impl_self_adt != work_adt or P.output != 'bool' or not P.hir:
            continue
        pargs = [core.strip_var_ids(a) for a in c[2]]
        if not pargs or pargs[0] not in (('param', pname), ('deref', ('param', pname)), ('ref', ('deref', ('param', pname)))) or pargs[1:] != rargs:
            continue
        t_edge = (sb, t['targets'][0][1] if neg else t['otherwise'])
        f_edge = (sb, t['otherwise'] if neg else t['targets'][0][1])
        if not gb.edge_dominates(f_edge, rb):
            continue
        # P: conjunction of equalities over (field of self | store getter) and own parameters
        se = core.simple_expr_fn(P)
        if se is None:
            continue
        conj = []

        def flat(x):
            if isinstance(x, tuple) and x and x[0] == 'and':
                flat(x[1])
                flat(x[2])
            else:
                conj.append(x)
        pids = se[0]
        flat(hcanon(se[1], {pid: ('pparam', i) for i, pid in enumerate(pids)}))
        eq_fields, eq_store, okp = {}, None, True
        for a in conj:
            if not (isinstance(a, tuple) and a[0] == 'bin' and a[1] == 'Eq'):
                okp = False
                break
            for x, y in ((a[2], a[3]), (a[3], a[2])):
                if isinstance(y, tuple) and y[0] == 'pparam':
                    if isinstance(x, tuple) and x[0] == 'field' and x[1] == ('pparam', 0):
                        eq_fields[x[2]] = y[1]
                    elif isinstance(x, tuple) and x[0] == 'call' and x[2] and isinstance(x[2][0], tuple) and x[2][0][0] == 'field' and x[2][0][1] == ('pparam', 0):
                        getter = facts.fns.get(x[1]) if isinstance(x[1], str) else None
                        gse = core.simple_expr_fn(getter) if getter is not None and getter.hir else None
                        # a getter of the store returning its shard count
                        if gse is not None:
                            gv = hcanon(gse[1], {gse[0][0]: ('pparam', 0)})
                            if isinstance(gv, tuple) and gv[0] == 'field' and gv[1] == ('pparam', 0) and 'count' in gv[2]:
                                eq_store = y[1]
        if not okp:
            continue
        if all(eq_fields.get(f) == i for f, i in assigned.items()) and eq_store == store_count_param:
            # the implicit reset runs on every bypassing path
            cleared = [b for b, t2 in gb.calls() if t2['callee'].get('path') == recv and gb.edge_dominates(t_edge, b)]
            stop = frozenset([rb] + cleared)
            reach = gb.reachable_from(0, stop=stop)
            if cleared and not [ob for ob in gok if ob in reach and ob not in stop]:
                return P.path
    return None


def insert_always_stores(ctx, facts, cfg):
    R = 'C05.k-insert-always-stores'
    from . import roles as roles_mod
    RL = roles_mod.roles(facts)
    ins = RL.get(ctx, 'store.insert', R, cfg)
    if ins is None:
        return
    body = ins.body
    rets = [b for b in range(body.n) if body.term(b)['k'] == 'return' and not body.blocks[b]['cleanup']]
    copies = [(b, t) for b, t in body.calls() if re.search(r'::(copy_from_slice|clone_from_slice|copy_within|copy_nonoverlapping|write_bytes|fill)$', t['callee'].get('path') or '')
              and not body.blocks[b]['cleanup']]
    always = [(b, t) for b, t in copies if rets and all(body.dominates(b, r) for r in rets)]
    ctx.floor(R, 1, len(copies), 'copying calls in the store\'s insert', cfg=cfg)
    if always:
        ctx.ok(R, '%s@%s' % (ins.path, cfg), {'copy_on_every_path': always[0][1]['line'], 'copies': len(copies)})
    else:
        ctx.violation(R, 'insert-may-skip', '%s can return without copying anything into the slot (no copying call dominates every return): the slot keeps the bytes of an earlier round'
                      % ins.path, site=ins.span, fn=ins.path, cfg=cfg)


def handover_rule(ctx, facts, cfg):
    R = 'C05.e-handover-through-reset'
    n = 0
    for p, fn in sorted(facts.fns.items()):
        if not (fn.impl_trait in ('rate::RateEncoder', 'rate::RateDecoder') and fn.name == 'new'):
            continue
        if (fn.impl_self_adt or '').startswith('rate::rate_default'):
            continue
        n += 1
        body = fn.body
        work_adt = 'rate::encoder_work::EncoderWork' if fn.impl_trait == 'rate::RateEncoder' else 'rate::decoder_work::DecoderWork'
        errs, oks = core.result_exits(body)
        ok_blocks = [b for (b, k, d) in oks if k == 'ctor']
        good = False
        why = 'no `?`-call receiving &mut work dominates the Ok exit'
        for ts in core.try_sites(body):
            if ts['call_bb'] is None or ts['ok_bb'] is None:
                continue
            t = body.term(ts['call_bb'])
            q = t['callee'].get('path')
            g = facts.fns.get(q)
            if g is None:
                continue
            # argument that is &mut <local work>
            arg_i = None
            for i, a in enumerate(t['args']):
                c = body.canon_op(a, expand_named=False)
                if c[0] == 'ref' and c[1][0] == 'var' and body.local_ty(c[1][2]) == work_adt:
                    arg_i = i
                    wl = c[1][2]
            if arg_i is None:
                continue
            if not all(body.edge_dominates((ts['switch_bb'], ts['ok_bb']), ob) for ob in ok_blocks):
                why = 'the reset helper does not dominate every Ok exit'
                continue
            # the stored work is that local
            stored = False
            for ob in ok_blocks:
                for bb in range(body.n):
                    for st in body.blocks[bb]['stmts']:
                        if st['k'] == 'assign' and st['rv']['k'] == 'agg' and st['rv'].get('adt') == fn.impl_self_adt:
                            d = dict(zip(st['rv']['fields'], st['rv']['ops']))
                            c = body.canon_op(d.get('work'), expand_named=False) if d.get('work') else None
                            if c and c[0] == 'var' and c[2] == wl:
                                stored = True
            if not stored:
                why = 'the work object that was reset is not the one stored in the codec'
                continue
            # helper g: every Ok exit dominated by a call of the full reset on its work param
            gb = g.body
            gerrs, goks = core.result_exits(gb)
            gok = [b for (b, k, d) in goks if k == 'ctor'] + [b for (b, k, d) in goks if k != 'ctor']
            pname = g.param_names()[arg_i] if arg_i < len(g.param_names()) else None
            from . import roles as roles_mod
            full_reset = roles_mod.roles(facts).fn.get(('enc' if work_adt == roles_mod.ENC_WORK else 'dec') + '.reset')
            resets = [(b, t2) for b, t2 in gb.calls()
                      if t2['callee'].get('path') == full_reset and gb.canon_op(t2['args'][0]) == ('param', pname)]
            if resets and all(any(gb.dominates(b, ob) for b, _ in resets) for ob in gok) and gok:
                good = True
                ctx.ok(R, '%s@%s' % (p, cfg), {'via': core.short(q), 'reset_at': resets[0][1]['line']})
                break
            fp = same_configuration_fast_path(facts, g, gb, pname, full_reset, resets, gok, work_adt)
            if fp:
                good = True
                ctx.ok(R, '%s@%s' % (p, cfg), {'via': core.short(q), 'reset_at': resets[0][1]['line'],
                                              'fast_path': 'skipped only behind %s(..) comparing every configured field with the arguments the reset would get; the round state is cleared there' % core.short(fp)})
                break
            why = '%s does not run the explicit reset of its work argument before every Ok return' % core.short(q)
        if not good:
            # direct form: `work.reset(..)` (infallible, after the validation) on the local that the codec stores
            from . import roles as roles_mod
            full_reset = roles_mod.roles(facts).fn.get(('enc' if work_adt == roles_mod.ENC_WORK else 'dec') + '.reset')
            for cb, t in body.calls():
                if t['callee'].get('path') != full_reset or not t['args'] or not ok_blocks:
                    continue
                c = body.canon_op(t['args'][0], expand_named=False)
                if not (c[0] == 'ref' and c[1][0] == 'var' and body.local_ty(c[1][2]) == work_adt):
                    continue
                wl = c[1][2]
                if not all(body.dominates(cb, ob) for ob in ok_blocks):
                    continue
                stored = False
                for bb in range(body.n):
                    for st in body.blocks[bb]['stmts']:
                        if st['k'] == 'assign' and st['rv']['k'] == 'agg' and st['rv'].get('adt') == fn.impl_self_adt:
                            d = dict(zip(st['rv']['fields'], st['rv']['ops']))
                            c2 = body.canon_op(d.get('work'), expand_named=False) if d.get('work') else None
                            if c2 and c2[0] == 'var' and c2[2] == wl:
                                stored = True
                if stored:
                    good = True
                    ctx.ok(R, '%s@%s' % (p, cfg), {'via': 'direct call', 'reset_at': t['line']})
                    break
        if not good:
            # by-value form: `let work = Self::prepare(.., work);` -- the helper takes the work object, runs the explicit reset on
            # it and gives it back; what it returns is what the codec stores
            from . import roles as roles_mod
            full_reset = roles_mod.roles(facts).fn.get(('enc' if work_adt == roles_mod.ENC_WORK else 'dec') + '.reset')
            for cb, t in body.calls():
                g = facts.fns.get(t['callee'].get('path'))
                if g is None or g.reachable or (g.output or '') != work_adt or t['dest']['p']:
                    continue
                arg_i = [i for i, a_ in enumerate(t['args']) if core.op_place(a_) and not core.op_place(a_)['p'] and body.local_ty(core.op_place(a_)['l']) == work_adt]
                if len(arg_i) != 1 or not ok_blocks or not all(body.dominates(cb, ob) for ob in ok_blocks):
                    continue
                dl = t['dest']['l']
                stored = False
                for bb in range(body.n):
                    for st in body.blocks[bb]['stmts']:
                        if st['k'] == 'assign' and st['rv']['k'] == 'agg' and st['rv'].get('adt') == fn.impl_self_adt:
                            d = dict(zip(st['rv']['fields'], st['rv']['ops']))
                            c = body.canon_op(d.get('work'), expand_named=False) if d.get('work') else None
                            pl_ = core.op_place(d.get('work')) if d.get('work') else None
                            if (c and c[0] == 'var' and c[2] == dl) or (pl_ and pl_['l'] == dl and not pl_['p']) or (c and c[0] == 'call' and len(c) > 3 and c[3] == cb):
                                stored = True
                if not stored:
                    continue
                gb = g.body
                pname = g.param_names()[arg_i[0]] if arg_i[0] < len(g.param_names()) else None
                resets = [(b_, t2) for b_, t2 in gb.calls() if t2['callee'].get('path') == full_reset and gb.canon_op(t2['args'][0]) in (('param', pname), ('ref', ('param', pname)))]
                rets = [b_ for b_ in range(gb.n) if gb.term(b_)['k'] == 'return']
                gives_back = len(rets) == 1 and core.strip_var_ids(gb.canon_local(0)) == ('param', pname)
                if resets and rets and gives_back and all(any(gb.dominates(b_, rb_) for b_, _ in resets) for rb_ in rets):
                    good = True
                    ctx.ok(R, '%s@%s' % (p, cfg), {'via': core.short(g.path), 'reset_at': resets[0][1]['line'], 'form': 'work object passed and returned by value'})
                    break
                why = '%s does not run the explicit reset of the work object it is given before returning it' % core.short(g.path)
        if not good:
            ctx.violation(R, 'new-skips-reset', '%s can return Ok without passing the stored working space through the explicit reset (%s): contents and bookkeeping of a work object taken over from another codec survive'
                          % (p, why), site=fn.span, fn=p, cfg=cfg)
    ctx.floor(R, 4, n, 'dedicated constructors', cfg=cfg)


NONDET = re.compile(r'^std::(time|env|thread|process|os|net|fs|io)\b|RandomState|^std::hash::random|::current\(|^std::ptr::(addr|from_exposed)|ThreadId|Instant|SystemTime')


def hidden_inputs(ctx, facts, cfg):
    R = 'C05.f-no-hidden-inputs'
    cg = callgraph(facts)
    roots = [p for p, f in facts.fns.items()
             if f.reachable and (p in ('encode', 'decode') or p.startswith(('reed_solomon::', 'rate::', '<rate::', 'encoder_result::', 'decoder_result::',
                                                                            '<encoder_result', '<decoder_result')))]
    seen, parent = cg.reachable(roots)
    ctx.floor(R, 60, len(roots), 'API entry points', cfg=cfg)
    lazies = {p for p, s in facts.statics.items() if s['ty'].startswith('std::sync::LazyLock<') and not s['mutable']}
    # a once-only table in a OnceLock, touched only through get / get_or_init (first writer's value is everybody's value), is a
    # lazy table too; any other use of a OnceLock (set, take, get_mut) keeps it a hidden input
    other_uses = any(re.match(r'^std::sync::OnceLock::<T>::(?!get$|get_or_init$|new$)', t['callee'].get('path') or '')
                     for f in facts.fns.values() for b, t in f.body.calls())
    if not other_uses:
        lazies |= {p for p, s in facts.statics.items() if s['ty'].startswith('std::sync::OnceLock<') and not s['mutable']
                   and not re.search(r'\b(Cell|RefCell|Atomic\w*|Mutex|RwLock)\b', s['ty'][len('std::sync::OnceLock<'):])}
    from .c16 import static_refs
    nf = 0
    for p in sorted(seen):
        f = facts.fns.get(p)
        if f is None:
            continue
        nf += 1
        for s in sorted(static_refs(f.body)):
            if s not in lazies:
                ctx.violation(R, 'static:%s' % core.short(s), '%s (reachable: %s) reads static %s, which is not one of the immutable lazy tables: a hidden input that survives across calls'
                              % (p, ' -> '.join(core.short(x) for x in cg.chain(parent, p)[-3:]), s), site=f.span, fn=p, cfg=cfg)
        tl = sorted({l['ty'] for l in f.body.locals if re.search(r'\bLocalKey<|thread::local', l['ty'])})
        if tl:
            ctx.violation(R, 'thread-local', '%s uses thread-local storage (%s): state kept between calls' % (p, tl[0][:80]), site=f.span, fn=p, cfg=cfg)
        for (b, e) in cg.ext_sites.get(p, ()):
            if NONDET.search(e):
                ctx.violation(R, 'nondet:%s' % core.short(e)[:50], '%s calls %s (clock / environment / thread identity / randomness)' % (p, e),
                              site=f.body.term(b)['line'], fn=p, cfg=cfg)
        for bb in f.body.blocks:
            for st in bb['stmts']:
                if st['k'] == 'assign' and st['rv']['k'] == 'cast' and 'ExposeProvenance' in st['rv'].get('cast', ''):
                    ctx.violation(R, 'ptr-to-int', '%s converts a pointer to an integer (address-dependent behaviour)' % p, site=st['line'], fn=p, cfg=cfg)
    ctx.ok(R, 'reachable@%s' % cfg, {'functions_examined': nf, 'allowed_statics': sorted(lazies)})


HISTORY_LEN = re.compile(r'^fixedbitset::FixedBitSet::(len|is_empty|count_zeroes|zeroes|as_slice|as_mut_slice|is_full)$|^std::vec::Vec::<.*>::capacity$|^alloc::vec::Vec::<.*>::capacity$')
GROW = re.compile(r'^fixedbitset::FixedBitSet::grow$|^std::vec::Vec::<.*>::(reserve|reserve_exact)$')


def grow_only_lengths(ctx, facts, cfg):
    """C05.h: FixedBitSet::len() of the received bitmap (cleared, never shrunk) and Vec::capacity() are functions of the
    codec's whole history.  The only sanctioned use is `if x.len() < need { x.grow(need) }`."""
    R = 'C05.h-grow-only-lengths'
    n = 0
    for p, f in sorted(facts.fns.items()):
        if f.path.startswith('test_util') or '::tests::' in f.path:
            continue
        body = f.body
        for b, t in body.calls():
            q = t['callee'].get('path') or ''
            if not HISTORY_LEN.search(q):
                continue
            n += 1
            d = t['dest']['l']
            flow = core.forward_flow(body, {d}, through_calls=None, whole_only=True)
            bad = None
            cmp_locals = set()
            for bb in range(body.n):
                blk = body.blocks[bb]
                if blk['cleanup']:
                    continue
                for st in blk['stmts']:
                    if st['k'] != 'assign':
                        continue
                    srcs = set(core.rv_source_locals(st['rv'])) & flow
                    if not srcs or st['lhs']['l'] in (srcs - {st['lhs']['l']}) and False:
                        continue
                    rv = st['rv']
                    if rv['k'] == 'bin' and rv['op'] in ('Lt', 'Le', 'Gt', 'Ge'):
                        cmp_locals.add(st['lhs']['l'])
                    elif rv['k'] in ('use', 'cast') or (rv['k'] == 'ref'):
                        pass        # plain copies stay inside `flow`
                    else:
                        bad = bad or ('used in `%s` at %s' % (rv['k'] + (':' + rv.get('op', '') if rv['k'] == 'bin' else ''), st['line']))
                tt = blk['term']
                if tt['k'] == 'call' and tt is not t:
                    for a in tt['args']:
                        pl = op_place(a)
                        if pl is not None and pl['l'] in flow and pl['l'] not in cmp_locals:
                            bad = bad or ('passed to %s at %s' % (core.short(tt['callee'].get('path') or '?'), tt['line']))
                if tt['k'] == 'switch':
                    pl = op_place(tt['discr'])
                    if pl is not None and pl['l'] in flow and pl['l'] not in cmp_locals:
                        bad = bad or ('branched on at %s' % tt['line'])
            # the comparison must guard a grow
            cflow = core.forward_flow(body, cmp_locals, through_calls=None) if cmp_locals else set()
            guards = [bb for bb in range(body.n) if body.term(bb)['k'] == 'switch' and op_place(body.term(bb)['discr']) is not None
                      and op_place(body.term(bb)['discr'])['l'] in cflow]
            grows = [bb for bb, t2 in body.calls() if GROW.search(t2['callee'].get('path') or '')]
            # an assertion (one side of the comparison can only panic) does not let the value influence any result
            exits_ = set(body.exits())
            asserting = [g for g in guards if any(not (body.reachable_from(sx) & exits_) for sx in body.succs(g))]
            if not bad and cmp_locals and not any(body.dominates(g, gb) for g in guards for gb in grows) and len(asserting) != len(guards):
                bad = 'compared, but the comparison does not guard a grow/reserve of the same object'
            if not bad and not cmp_locals and (flow - {d} or True):
                # never used at all is fine; used only in copies that go nowhere is fine too
                used = any(set(core.rv_source_locals(st['rv'])) & flow for blk in body.blocks if not blk['cleanup'] for st in blk['stmts'] if st['k'] == 'assign')
                if used:
                    bad = 'copied but never compared'
            if bad:
                ctx.violation(R, 'history-length:%s' % core.short(q), '%s reads %s, a quantity that remembers the largest configuration this object ever had, and it is %s: results can depend on earlier rounds or configurations'
                              % (p, q, bad), site=t['line'], fn=p, cfg=cfg)
            else:
                ctx.ok(R, '%s:%s@%s' % (p, core.short(q), cfg), {'at': t['line'], 'use': 'guards a grow'})
    if n == 0:
        ctx.ok(R, 'no-reads@%s' % cfg, {'reads_of_grow_only_lengths': 0})
