"""Path-sensitive second opinion for the iterator protocol (C12.b).

The pattern-based checker in c12.py knows the shapes `while`, `for`, `if let`, `is_some()`.  When it cannot recognise the
shape of `next()` this module enumerates the acyclic paths of its MIR (loop bodies once; a path ends at `return` or when it
comes back to a loop header) with a small symbolic environment — field values of the iterator, Option variants learnt from
aggregates and from the switches taken, call results as opaque symbols — and checks the protocol on every path:

  ended path      no write, no crate call, returns None
  Some(..) path   the payload is the accessor's payload for index i (restored: paired with that same i), i is a scan value
                  (starts at the next index, advances by one, bounded by the count; decided by c12.scan_value on the operand),
                  the only write is next := i + 1
  None path       the only write is ended := true
  back-edge path  (scan continues) no write at all, and the accessor said None for this i

No solver is involved: values are compared by syntactic identity within one path, infeasible paths are those on which a switch
contradicts a variant already known on that path."""
import re
from . import core
from .core import op_place

MAX_PATHS = 4000


class Giveup(Exception):
    pass


def check(facts, fn, F, accessor, kind, RL, scan_value):
    """returns list of problems (empty = protocol established); raises Giveup when the function is outside what this can walk"""
    body = fn.body
    n = body.n
    # loop headers: targets of back edges in a DFS from entry
    headers = set()
    color = {}
    stack = [(0, iter(body.succs(0)))]
    color[0] = 1
    while stack:
        b, it = stack[-1]
        adv = False
        for s in it:
            if color.get(s) == 1:
                headers.add(s)
            elif s not in color:
                color[s] = 1
                stack.append((s, iter(body.succs(s))))
                adv = True
                break
        if not adv:
            color[b] = 2
            stack.pop()
    # locals assigned inside cycles (havoced at the header)
    in_cycle = set()
    for h in headers:
        reach = body.reachable_from(h)
        back = {b for b in reach if h in body.succs(b) or any(h in body.reachable_from(s) for s in body.succs(b))}
        in_cycle |= {b for b in reach if h in body.reachable_from(b)}
    loop_assigned = set()
    for b in in_cycle:
        for st in body.blocks[b]['stmts']:
            if st['k'] == 'assign' and not st['lhs']['p']:
                loop_assigned.add(st['lhs']['l'])
        t = body.term(b)
        if t['k'] == 'call' and not t['dest']['p']:
            loop_assigned.add(t['dest']['l'])
    SELF = 1
    problems = []
    paths = [0]
    uid = [0]

    def fresh():
        uid[0] += 1
        return uid[0]

    class St:
        __slots__ = ('env', 'fields', 'know', 'writes', 'calls', 'seen_headers', 'acc', 'ended_branch')

        def clone(self):
            s = St()
            s.env = dict(self.env)
            s.fields = dict(self.fields)
            s.know = dict(self.know)
            s.writes = list(self.writes)
            s.calls = list(self.calls)
            s.seen_headers = set(self.seen_headers)
            s.acc = list(self.acc)
            s.ended_branch = self.ended_branch
            return s

    def place_val(st, pl):
        v = st.env.get(pl['l'], ('local0', pl['l']))
        pr = pl['p']
        i = 0
        while i < len(pr):
            e = pr[i]
            if e == '*':
                if isinstance(v, tuple) and v[0] == 'ref':
                    v = v[1]
                elif v == ('param', SELF):
                    # field of the iterator
                    if i + 1 < len(pr) and isinstance(pr[i + 1], dict) and 'f' in pr[i + 1]:
                        name = pr[i + 1]['f']
                        v = st.fields.get(name, ('init', name))
                        i += 2
                        continue
                    v = ('self',)
                else:
                    v = ('deref', v)
            elif isinstance(e, dict) and 'down' in e:
                v = ('down', v, e['down'])
            elif isinstance(e, dict) and 'f' in e:
                f = e['f']
                if isinstance(v, tuple) and v[0] == 'down' and v[2] == 'Some' and f == '0':
                    inner = v[1]
                    v = inner[1] if (isinstance(inner, tuple) and inner[0] == 'some') else ('payload', inner)
                elif isinstance(v, tuple) and v[0] == 'down' and v[2] == 'Continue' and f == '0' and isinstance(v[1], tuple) and v[1][0] == 'branch':
                    inner = v[1][1]
                    v = inner[1] if (isinstance(inner, tuple) and inner[0] == 'some') else ('payload', inner)
                elif isinstance(v, tuple) and v[0] == 'tup' and f.isdigit() and int(f) < len(v[1]):
                    v = v[1][int(f)]
                elif isinstance(v, tuple) and v[0] == 'checked' and f in ('0', '1'):
                    v = v[1] if f == '0' else ('overflow', v[1])
                elif isinstance(v, tuple) and v[0] == 'closure' and f.isdigit() and int(f) < len(v[2]):
                    v = v[2][int(f)]
                elif isinstance(v, tuple) and v[0] == 'range' and f in ('start', 'end'):
                    v = v[1] if f == 'start' else v[2]
                else:
                    v = ('field', v, f)
            else:
                v = ('proj', v, repr(e))
            i += 1
        return v

    def operand(st, op):
        c = op.get('const')
        if c is not None:
            if 'val' in c:
                return ('const', c['val'])
            return ('sym', c.get('sym') or c.get('fn'))
        return place_val(st, op_place(op))

    def rvalue(st, rv):
        k = rv['k']
        if k == 'use':
            return operand(st, rv['op'])
        if k in ('ref', 'rawptr'):
            v = place_val(st, rv['place'])
            if isinstance(v, tuple) and v and v[0] == 'deref':
                return v[1]         # reborrow: &*x is x
            return ('ref', v)
        if k == 'cast':
            return operand(st, rv['op'])
        if k == 'bin':
            a, b = operand(st, rv['a']), operand(st, rv['b'])
            op = rv['op']
            if op.endswith('WithOverflow'):
                return ('checked', core.norm_bin(op[:-len('WithOverflow')], a, b))
            return core.norm_bin(op, a, b)
        if k == 'un':
            return ('un', rv['op'], operand(st, rv['a']))
        if k == 'discr':
            v = place_val(st, rv['place'])
            return ('discr', v)
        if k == 'agg':
            ops = tuple(operand(st, o) for o in rv['ops'])
            if rv['agg'] == 'tuple':
                return ('tup', ops)
            if rv['agg'] == 'adt':
                if rv['adt'] == 'std::option::Option':
                    return ('some', ops[0]) if rv['variant'] == 'Some' else ('none',)
                if rv['adt'].endswith('ops::Range'):
                    return ('range', ops[0], ops[1], fresh())
                return ('adt', rv['adt'], rv['variant'], ops)
            if rv['agg'] == 'closure':
                return ('closure', rv.get('closure'), ops)
            return ('agg', rv['agg'], ops)
        return ('other', k)

    def variant_of(st, v):
        """'Some' | 'None' | None (unknown) for an Option-valued symbol"""
        if isinstance(v, tuple) and v[0] == 'some':
            return 'Some'
        if v == ('none',):
            return 'None'
        return st.know.get(v)

    def assign(st, lhs, val, line):
        if lhs['l'] == SELF and lhs['p'] and lhs['p'][0] == '*' and len(lhs['p']) >= 2 and isinstance(lhs['p'][1], dict) and 'f' in lhs['p'][1]:
            name = lhs['p'][1]['f']
            st.fields[name] = val
            st.writes.append((name, val, line))
            return
        if lhs['p']:
            base = st.env.get(lhs['l'])
            st.env[lhs['l']] = ('partial', base, val)
            return
        st.env[lhs['l']] = val

    results = []       # (kind, state, ret)

    def walk(b, st):
        paths[0] += 1
        if paths[0] > MAX_PATHS:
            raise Giveup('too many paths')
        while True:
            if b in headers:
                if b in st.seen_headers:
                    results.append(('back', st, None))
                    return
                st.seen_headers.add(b)
                for l in loop_assigned:
                    st.env[l] = ('scan', l)
            blk = body.blocks[b]
            for sm in blk['stmts']:
                if sm['k'] == 'assign':
                    assign(st, sm['lhs'], rvalue(st, sm['rv']), sm.get('line'))
            t = blk['term']
            k = t['k']
            if k == 'goto':
                b = t['target']
            elif k in ('assert', 'drop'):
                b = t['target']
            elif k == 'return':
                results.append(('ret', st, st.env.get(0, ('unset',))))
                return
            elif k in ('unreachable', 'resume', 'terminate'):
                return
            elif k == 'switch':
                d = operand(st, t['discr'])
                edges = [(v, tgt) for v, tgt in t['targets']] + [(None, t['otherwise'])]
                vals = [v for v, _ in t['targets']]
                taken = None
                if isinstance(d, tuple) and d[0] == 'const':
                    taken = [tgt for v, tgt in t['targets'] if v == d[1]] or [t['otherwise']]
                    b = taken[0]
                    continue
                # discriminant of an Option-like symbol with known variant
                sym_ = None
                mode = None
                if isinstance(d, tuple) and d[0] == 'discr':
                    sym_, mode = d[1], 'discr'
                    if isinstance(sym_, tuple) and sym_[0] == 'branch':
                        sym_, mode = sym_[1], 'branch'
                elif isinstance(d, tuple) and d[0] == 'call' and re.search(r'Option::<.*>::is_(some|none)$', d[1]):
                    sym_, mode = d[2][0], 'is_some' if d[1].endswith('is_some') else 'is_none'
                    while isinstance(sym_, tuple) and sym_[0] == 'ref':
                        sym_ = sym_[1]
                if sym_ is not None:
                    kv = variant_of(st, sym_)
                    for (v, tgt) in edges:
                        if v is None and len(vals) >= 2:
                            continue        # `otherwise` of an exhaustive two-way switch is unreachable
                        if mode == 'discr':
                            var = {0: 'None', 1: 'Some'}.get(v) if v is not None else ('Some' if vals == [0] else 'None' if vals == [1] else None)
                        elif mode == 'branch':
                            var = {0: 'Some', 1: 'None'}.get(v) if v is not None else ('None' if vals == [0] else 'Some' if vals == [1] else None)
                        elif mode == 'is_some':
                            var = ('None' if v == 0 else 'Some') if v is not None else 'Some'
                        else:
                            var = ('Some' if v == 0 else 'None') if v is not None else 'None'
                        if var is None:
                            raise Giveup('switch with unexpected targets at %s' % t.get('line'))
                        if kv is not None and kv != var:
                            continue
                        s2 = st.clone()
                        s2.know[sym_] = var
                        walk(tgt, s2)
                    return
                # the ended flag
                dd = d
                neg = False
                while isinstance(dd, tuple) and dd[0] == 'un' and dd[1] == 'Not':
                    neg, dd = (not neg), dd[2]
                if dd == ('init', F['ended']) or (isinstance(dd, tuple) and dd[0] == 'init' and dd[1] == F['ended']):
                    for (v, tgt) in edges:
                        if v is None and len(vals) >= 2:
                            continue
                        truth = (v != 0) if v is not None else (0 in vals)
                        if v is None:
                            truth = True if vals == [0] else False
                        ended = truth != neg
                        s2 = st.clone()
                        s2.fields.setdefault(F['ended'], ('const', 1 if ended else 0))
                        if ended:
                            s2.ended_branch = True
                        elif s2.ended_branch is None:
                            s2.ended_branch = False
                        walk(tgt, s2)
                    return
                # any other data-dependent branch (loop guard `i < count`, ...): both ways
                for (v, tgt) in edges:
                    if v is None and len(vals) >= 2 and False:
                        continue
                    s2 = st.clone()
                    walk(tgt, s2)
                return
            elif k == 'call':
                cal = t['callee']
                p = cal.get('path') or ''
                args = [operand(st, a) for a in t['args']]
                val = None
                if cal.get('decl') == 'std::ops::Try::branch':
                    v0 = args[0]
                    val = ('branch', v0)
                elif cal.get('decl') == 'std::ops::FromResidual::from_residual':
                    val = ('none',)
                elif cal.get('decl') == 'std::iter::IntoIterator::into_iter':
                    val = args[0]
                elif cal.get('decl') == 'std::iter::Iterator::next':
                    val = ('call', 'next', tuple(args), fresh())
                    st.calls.append(('next', t, args))
                elif p == accessor:
                    val = ('call', accessor, tuple(args), fresh())
                    st.acc.append((val, t, args))
                else:
                    val = ('call', p, tuple(args), fresh())
                    if cal.get('local') and p in facts.fns:
                        st.calls.append((p, t, args))
                assign(st, t['dest'], val, t.get('line'))
                if t['target'] is None:
                    return
                b = t['target']
            else:
                raise Giveup('terminator %s' % k)

    st0 = St()
    st0.env = {SELF: ('param', SELF)}
    st0.fields = {}
    st0.know = {}
    st0.writes = []
    st0.calls = []
    st0.seen_headers = set()
    st0.acc = []
    st0.ended_branch = None
    walk(0, st0)
    if not results:
        raise Giveup('no path')
    fe, fnx, fw = F['ended'], F['next'], F['work']
    saw_some = saw_none = saw_ended = False
    count_getters = set()

    def strip(v):
        while isinstance(v, tuple) and v and v[0] in ('ref', 'deref'):
            v = v[1]
        return v

    def is_work(v):
        v = strip(v)
        return v == ('init', fw)

    for (kind_, st, ret) in results:
        w = [(n_, v) for (n_, v, _) in st.writes]
        if st.ended_branch:
            saw_ended = True
            if w:
                problems.append('state is modified on the ended path')
            if st.acc or [c for c in st.calls if c[0] != 'next']:
                problems.append('the ended path calls into the crate')
            if kind_ == 'ret' and ret != ('none',):
                problems.append('the ended path can return something other than None')
            continue
        if st.ended_branch is None:
            problems.append('next() has a path that does not test the ended flag first')
            continue
        for (val, t, args) in st.acc:
            if not is_work(args[0]):
                problems.append('the accessor is called on %s, not on the borrowed work' % (args[0],))
        if kind_ == 'back':
            if w:
                problems.append('the scan modifies the iterator state before it has found an item (%s)' % [x[0] for x in w])
            for (val, t, args) in st.acc:
                if variant_of(st, val) != 'None':
                    problems.append('the scan moves on although the accessor result for this index was not known to be None')
            continue
        # returning paths
        r = ret
        var = variant_of(st, r)
        payload = None
        if isinstance(r, tuple) and r[0] == 'some':
            payload = r[1]
        elif var == 'Some':
            payload = ('payload', r)
        if var is None and not (isinstance(r, tuple) and r[0] in ('some',)) and r != ('none',):
            problems.append('next() returns a value whose Some/None-ness is not decided on the path (%s)' % (str(r)[:80],))
            continue
        if var == 'None' or r == ('none',):
            saw_none = True
            if [x for x in w if x[0] == fnx]:
                problems.append('the next index is changed on a path that reports None')
            if not any(n_ == fe and v == ('const', 1) for n_, v in w):
                problems.append('None is returned on a path that does not set the ended flag (the iterator could yield again later)')
            if any(n_ == fe and v != ('const', 1) for n_, v in w) or any(n_ == fw for n_, v in w):
                problems.append('the ended flag is assigned something other than true, or the borrowed work is reassigned')
            for (val, t, args) in st.acc:
                if variant_of(st, val) not in ('None',) and kind == 'recovery':
                    problems.append('None is reported although the accessor result was not known to be None')
            continue
        # Some path
        saw_some = True
        if not st.acc:
            problems.append('a Some(..) exit does not obtain its item from %s' % core.short(accessor))
            continue
        found = None
        for (val, t, args) in st.acc:
            idx = args[1]
            pv = ('payload', val)
            if kind == 'recovery':
                if payload == pv or r == val:
                    found = (val, t, idx)
            else:
                if isinstance(payload, tuple) and payload[0] == 'tup' and len(payload[1]) == 2 and payload[1][1] == pv and payload[1][0] == idx:
                    found = (val, t, idx)
                # the whole Option built elsewhere (closure result moved around): payload symbol of a `some`
        if found is None:
            problems.append('a Some(..) exit yields %s, not the accessor result%s' % (str(payload)[:100], '' if kind == 'recovery' else ' paired with its index'))
            continue
        val, t, idx = found
        if variant_of(st, val) != 'Some' and r != val:
            problems.append('an item is yielded although the accessor result was not known to be Some')
        want = core.norm_bin('Add', idx, ('const', 1))
        nw = [v for n_, v in w if n_ == fnx]
        nw = [v[1] if isinstance(v, tuple) and v[0] == 'checked' else v for v in nw]
        if nw != [want]:
            problems.append('on the Some path the next index is assigned %s (expected exactly: yielded index + 1)' % (nw,))
        if any(n_ in (fe, fw) for n_, v in w):
            problems.append('the ended flag or the borrowed work is written on a Some path')
        # the index is a scan value: judged on the MIR operand by the shared recogniser
        if kind == 'recovery':
            if idx != ('init', fnx):
                problems.append('Recovery::next asks for %s, expected its own next index' % (idx,))
        else:
            SELFC = ('deref', ('param', body.local_name(1) or 'self'))
            okv, why = scan_value(body, core.strip_var_ids(body.canon_op(t['args'][1], 0, True)), ('field', SELFC, fnx), ('field', SELFC, fw), RL)
            if not okv:
                problems.append('RestoredOriginal::next asks for an index that is not a scan from the next index upward: %s' % why)
    if not saw_ended:
        problems.append('next() does not test the ended flag first')
    if not saw_some:
        problems.append('no exit yields an item')
    if not saw_none:
        problems.append('no exit reports the end')
    return sorted(set(problems))
