"""C10 — the one-shot encode()/decode() are the streaming sequence on every path."""
import re
from . import core
from .core import op_place

EXPLANATION = (
    "Must-pass-through and value-flow rules over the MIR of reed_solomon_simd::encode / ::decode. "
    "(a) every Ok exit is dominated by the Ok edges of ReedSolomon{En,De}coder::new and ::encode/::decode, "
    "and the returned collection is filled only from that result's recovery_iter()/restored_original_iter(); "
    "(b) the caller's iterators are consumed only by next()/for (any other consumer such as count/skip/last "
    "is a violation) and the payload of every next() that yields Some reaches the matching "
    "add_original_shard/add_recovery_shard of that codec on every path to an Ok exit, the first item first; "
    "(c) the shard size given to new() is len(as_ref(..)) of a first item obtained from those iterators; "
    "(d) no Ok exit exists that bypasses the codec (the 'no recovery shards' shortcut of the pinned tree was "
    "exactly such an exit: defect F4, repaired by fix: dbbf1ef); errors are passed by bare `?` (C06.c).")
DECIDES = "the one-shot functions are implemented as the streaming sequence on every path (statement in full, modulo trusting `?`, Iterator and HashMap/Vec semantics)."
NOT_DECIDED = "nothing behavioural beyond the trusted std semantics."
TRUSTED = ["Iterator::next / for-loop desugaring, `?` desugaring, Vec::collect / HashMap::insert semantics"]
ASSUMPTIONS = []

ADAPT_RE = re.compile(r'(AsRef.*::as_ref|Deref.*::deref|Try.*::branch|Option::<.*>::(as_ref|as_mut|take)|std::convert::identity|IntoIterator.*::into_iter)$')


def run(ctx):
    cfgs = ['x86_64'] if ctx.tier == 'quick' else ['x86_64', 'aarch64', 'i686']
    ctx.rule('C10.a-must-pass', 'every Ok exit of the one-shot fn is dominated by the Ok edges of the streaming new() and encode()/decode()')
    ctx.rule('C10.a-result-source', 'the returned collection is filled only from the streaming result iterator')
    ctx.rule('C10.b-iterators', 'caller iterators are consumed only by next()/for')
    ctx.rule('C10.b-items-reach-add', 'every item obtained reaches the matching add_*_shard on every path to Ok')
    ctx.rule('C10.c-inferred-size', 'shard_bytes passed to new() is len(as_ref(first item))')
    ctx.rule('C10.e-wrappers-forward', 'the ReedSolomon{En,De}coder methods the one-shot functions use (supports, new, add, encode/decode) only forward to the default-rate codec: the pre-check of the one-shot call is the predicate the constructor fails by (clause shared with C09.c)')
    ctx.rule('C10.f-iterator-is-the-accessor', 'the result iterators the one-shot functions collect from yield exactly what the accessors of the streaming result expose (clause shared with C12.b)')
    ctx.rule('C10.g-no-state-between-calls', 'nothing survives from one one-shot call to the next: no non-table static, thread-local or other hidden input is read anywhere below the API (clause shared with C05.f)')
    ctx.rule('C10.k-configuration-handed-over-unaltered', 'the counts and shard size against which both APIs validate indexes and sizes are the caller\'s own: a codec does not register a padded or otherwise altered count with its work object (clause shared with C06.d)')
    from . import c06 as c06__
    ctx.guard('C10.analysable', ctx.shared, {'C06.d-config-handover': 'C10.k-configuration-handed-over-unaltered'}, c06__.check_config_handover, ctx, ctx.facts(cfgs[0]), cfgs[0])
    ctx.rule('C10.i-same-errors', 'every error of the streaming path and the pre-checks of the one-shot functions is governed by its documented condition over the right operands, so both APIs report the same error for the same input (clause shared with C06.b)')
    ctx.rule('C10.j-same-bookkeeping', 'each add records exactly one shard at its position and counts it once, so that the streaming sequence the one-shot call runs sees the shards it was given (clause shared with C11.a)')
    from . import c06 as c06_, c11 as c11_
    ctx.guard('C10.analysable', ctx.shared, {'C06.b-truthful': 'C10.i-same-errors'}, c06_.check_truthful, ctx, ctx.facts(cfgs[0]), cfgs[0])
    ctx.guard('C10.analysable', ctx.shared, {'C11.a-add-effects': 'C10.j-same-bookkeeping'}, c11_.add_effects, ctx, ctx.facts(cfgs[0]), cfgs[0])
    ctx.rule('C10.h-same-validation', 'indexes and counts are validated before use on the streaming path the one-shot functions run through: an input the streaming API rejects cannot be accepted (or panic) in the one-shot call (clause shared with C06.a)')
    from . import c09, c12, c05, c06
    f0 = ctx.facts(cfgs[0])
    ctx.guard('C10.analysable', ctx.shared, {'C06.a-check-before-use': 'C10.h-same-validation'}, c06.check_taint, ctx, f0, cfgs[0])
    ctx.guard('C10.analysable', ctx.shared, {'C05.f-no-hidden-inputs': 'C10.g-no-state-between-calls'}, c05.hidden_inputs, ctx, f0, cfgs[0])
    ctx.guard('C10.analysable', ctx.shared, {'C09.c-delegation': 'C10.e-wrappers-forward'}, c09.check, ctx, f0, cfgs[0])
    ctx.guard('C10.analysable', ctx.shared, {'C12.b-iterators': 'C10.f-iterator-is-the-accessor'}, c12.iterators, ctx, f0, cfgs[0])
    for cfg in cfgs:
        facts = ctx.facts(cfg)
        both(ctx, facts, cfg)


def both(ctx, facts, cfg):
    ctx.guard('C10.analysable', one, ctx, facts, cfg, 'encode', 'reed_solomon::ReedSolomonEncoder', 'encode',
              {'original': 'add_original_shard'}, 'recovery_iter')
    ctx.guard('C10.analysable', one, ctx, facts, cfg, 'decode', 'reed_solomon::ReedSolomonDecoder', 'decode',
              {'original': 'add_original_shard', 'recovery': 'add_recovery_shard'}, 'restored_original_iter')


def iter_keep(cal):
    """calls whose result is an iterator that yields exactly the items of its arguments, in order"""
    decl = cal.get('decl') or ''
    path = cal.get('path') or ''
    return decl in ('std::iter::IntoIterator::into_iter', 'std::iter::Iterator::chain') or \
        re.search(r'^(std|core)::iter::(sources::once::)?once(::<.*>)?$', path) is not None


def callee_name(cal):
    p = cal.get('path') or ''
    return p


def one(ctx, facts, cfg, fname, codec, run_name, feeds, result_iter):
    fn = ctx.anchor(facts, fname, 'C10.a-must-pass')
    if fn is None:
        return
    # private free helpers the one-shot function was split into are analysed in place
    fn = core.inlined_fn(facts, fname, lambda g, t: not g.reachable and not g.impl_trait and not g.in_trait and g.kind != 'Closure' and not g.impl_self_adt)
    body = fn.body
    errs, oks = core.result_exits(body)
    ok_blocks = [b for (b, kind, d) in oks if kind == 'ctor']
    tail_oks = [b for (b, kind, d) in oks if kind != 'ctor']
    for b in tail_oks:
        ctx.violation('C10.a-must-pass', 'tail-ok', 'Ok value produced by a tail call, not by the streaming sequence',
                      site=body.term(b)['line'], fn=fname, cfg=cfg)
    if not ok_blocks:
        ctx.violation('C10.a-must-pass', 'no-ok-exit', 'no Ok exit found', fn=fname, cfg=cfg)
        return
    tsites = core.try_sites(body)

    def try_of(path):
        return [ts for ts in tsites if ts['callee'] and (ts['callee'].get('path') == path)]

    # ---- (a) must pass new() and encode()/decode()
    for what in ('new', run_name):
        path = '%s::%s' % (codec, what)
        tss = try_of(path)
        if not tss:
            for ob in ok_blocks:
                ctx.violation('C10.a-must-pass', 'missing:%s' % what,
                              '%s never calls %s with `?`: an Ok result does not come from the streaming codec' % (fname, path),
                              site=fn.span, fn=fname, cfg=cfg)
            continue
        for ob in ok_blocks:
            line = body.blocks[ob]['stmts'][0]['line'] if body.blocks[ob]['stmts'] else body.term(ob)['line']
            dominated = any(ts['ok_bb'] is not None and body.edge_dominates((ts['switch_bb'], ts['ok_bb']), ob)
                            for ts in tss)
            if not dominated and all(ts['ok_bb'] is not None for ts in tss):
                # several call sites on different branches: together their Ok edges must cut every path to the exit
                cut = frozenset((ts['switch_bb'], ts['ok_bb']) for ts in tss)
                okb = frozenset(ts['ok_bb'] for ts in tss)
                # a path that avoids every Ok edge: walk without crossing those edges; the Ok blocks themselves may be entered
                # only through them when each has the switch as its single predecessor
                if all(body.preds(ob_) == [sw_] for (sw_, ob_) in cut):
                    dominated = ob not in body.reachable_from(0, removed_edges=cut)
            if dominated:
                ctx.ok('C10.a-must-pass', '%s:Ok<-%s@%s' % (fname, what, cfg),
                       {'ok_exit': line, 'dominated_by_ok_edge_of': path})
            else:
                ctx.violation('C10.a-must-pass', 'bypass:%s' % what,
                              'an Ok exit of %s (at %s) is reachable without a successful %s: the one-shot call can report success where the streaming sequence would not have run'
                              % (fname, line, path), site=line, fn=fname, cfg=cfg)
    ctx.floor('C10.a-must-pass', 1, len(ok_blocks), 'Ok exits in %s' % fname, cfg=cfg)

    # ---- (a2) result source: the Ok payload derives from <result>.{recovery_iter,restored_original_iter}
    src_calls = [(b, t) for b, t in body.calls() if (t['callee'].get('path') or '').endswith('::' + result_iter)]
    if not src_calls:
        ctx.violation('C10.a-result-source', 'no-result-iter', '%s does not read %s() of the streaming result' % (fname, result_iter),
                      fn=fname, cfg=cfg)
    else:
        for b, t in src_calls:
            recv = body.canon_op(t['args'][0])
            txt = core.show(recv)
            want = '%s::%s' % (codec.split('::')[-1], run_name)
            if want in txt:
                ctx.ok('C10.a-result-source', '%s:%s@%s' % (fname, result_iter, cfg), {'receiver': txt[:160]})
            else:
                ctx.violation('C10.a-result-source', 'foreign-result', '%s() is read from %s, not from the result of %s'
                              % (result_iter, txt[:120], want), site=t['line'], fn=fname, cfg=cfg)
        # every value stored into the returned collection flows from that iterator
        flow = core.forward_flow(body, {t['dest']['l'] for b, t in src_calls},
                                 through_calls=lambda c: True)
        for ob in ok_blocks:
            for st in body.blocks[ob]['stmts']:
                if st['k'] == 'assign' and st['lhs']['l'] == 0 and st['rv']['k'] == 'agg':
                    for o in st['rv']['ops']:
                        pl = op_place(o)
                        if pl is None:
                            continue
                        # the collection local: written by collect(...) or by insert(&mut coll, ..)
                        coll = pl['l']
                        cc = body.canon_op(o, expand_named=False)
                        if cc[0] == 'var':
                            coll = cc[2]
                        fed = coll in flow or pl['l'] in flow
                        ins = [(b, t) for b, t in body.calls()
                               if re.search(r'(HashMap|BTreeMap|Vec)::<.*>::(insert|push|extend)$', t['callee'].get('path') or '')
                               and op_place(t['args'][0]) is not None
                               and body.canon_op(t['args'][0]) in (('ref', ('var', body.local_name(coll), coll)), ('var', body.local_name(coll), coll))]
                        for b2, t2 in ins:
                            vals = [op_place(a)['l'] for a in t2['args'][1:] if op_place(a) is not None]
                            if all(v in flow for v in vals) and vals:
                                fed = True
                            else:
                                ctx.violation('C10.a-result-source', 'foreign-insert', 'a value not derived from %s() is inserted into the returned collection' % result_iter,
                                              site=t2['line'], fn=fname, cfg=cfg)
                        if fed:
                            ctx.ok('C10.a-result-source', '%s:collection@%s' % (fname, cfg), None)
                        else:
                            ctx.violation('C10.a-result-source', 'collection-not-from-result',
                                          'the returned collection is not filled from %s()' % result_iter,
                                          site=st['line'], fn=fname, cfg=cfg)

    # ---- (b) iterators
    pnames = fn.param_names()
    iters = {}   # param name -> set of iterator locals
    for b, t in body.calls():
        if t['callee'].get('decl') == 'std::iter::IntoIterator::into_iter':
            c = body.canon_op(t['args'][0])
            if c[0] == 'param' and c[1] in feeds:
                iters[c[1]] = {t['dest']['l']}
    for pn in feeds:
        if pn not in iters:
            ctx.violation('C10.b-iterators', 'no-iterator:%s' % pn, 'caller input `%s` is never turned into an iterator' % pn,
                          fn=fname, cfg=cfg)
    next_sites = {}   # param -> [(bb, dest local)]
    for pn, seeds in iters.items():
        flow = core.forward_flow(body, seeds, through_calls=iter_keep)
        uses = core.call_uses(body, flow)
        ns = []
        bad = False
        for (b, t, idx) in uses:
            decl = t['callee'].get('decl') or ''
            if decl == 'std::iter::Iterator::next':
                ns.append((b, t['dest']['l']))
            elif iter_keep(t['callee']):
                pass
            else:
                bad = True
                ctx.violation('C10.b-iterators', 'consumer:%s:%s' % (pn, core.short(decl or t['callee'].get('path') or '?')),
                              'caller iterator `%s` is consumed by %s instead of next()/for: its items never reach the codec'
                              % (pn, decl or t['callee'].get('path')), site=t['line'], fn=fname, cfg=cfg)
        if not bad:
            ctx.ok('C10.b-iterators', '%s:%s@%s' % (fname, pn, cfg), {'next_sites': len(ns)})
        next_sites[pn] = ns

    # ---- (b3) every input is drained: each path to an Ok exit passes the None edge of a next() on that input (the end of the
    # loop that adds its items), so no item is left behind on some branch
    ctx.rule('C10.l-inputs-drained', 'on every path to Ok each caller iterator has been taken from until it returned None: no shard of the input is silently left out on some branch (a one-shot call must equal the streaming sequence that adds every shard)')
    for pn, ns in next_sites.items():
        if not ns:
            continue
        none_edges = set()
        for (nb, dest) in ns:
            flow = core.forward_flow(body, {dest})
            for sb in range(body.n):
                stt = body.term(sb)
                if stt['k'] != 'switch' or body.blocks[sb]['cleanup']:
                    continue
                c = body.canon_op(stt['discr'])
                if c[0] == 'discr' and (root_local(c[1]) in flow or (op_place(stt['discr']) and discr_source(body, stt['discr']) in flow)):
                    vals_ = [v for v, _ in stt['targets']]
                    for v, tgt in stt['targets']:
                        if v == 0:
                            none_edges.add((sb, tgt))
                    if 0 not in vals_ and 1 in vals_ and stt.get('otherwise') is not None:
                        none_edges.add((sb, stt['otherwise']))      # `if let Some(..) = it.next() { .. } else { <None> }`
        reach_nd = body.reachable_from(0, removed_edges=frozenset(none_edges))
        leaked = [ob for ob in ok_blocks if ob in reach_nd]
        if none_edges and not leaked:
            ctx.ok('C10.l-inputs-drained', '%s:%s@%s' % (fname, pn, cfg), {'none_edges': len(none_edges)})
        else:
            ctx.violation('C10.l-inputs-drained', 'not-drained:%s' % pn,
                          'an Ok exit of %s is reachable on a path on which `%s` was never taken from until it was empty: the shards left in it are silently ignored'
                          % (fname, pn), site=body.term(leaked[0])['line'] if leaked else fn.span, fn=fname, cfg=cfg)
    # ---- (b2) items reach add
    reach0 = body.reachable_from(0)
    for pn, ns in next_sites.items():
        add_path = '%s::%s' % (codec, feeds[pn])
        if not ns:
            ctx.violation('C10.b-items-reach-add', 'no-next:%s' % pn, 'no item is ever taken from `%s`' % pn, fn=fname, cfg=cfg)
        for (nb, dest) in ns:
            if nb not in reach0:
                continue
            flow = core.forward_flow(body, {dest}, through_calls=lambda c: re.search(r'Try.*::branch$', c.get('path') or c.get('decl') or '') is not None)
            adds = [(b, t) for (b, t, idx) in core.call_uses(body, flow) if (t['callee'].get('path') == add_path)]
            others = [(b, t) for (b, t, idx) in core.call_uses(body, flow)
                      if t['callee'].get('path') != add_path and not ADAPT_RE.search(t['callee'].get('path') or '')
                      and not re.search(r'Option::<.*>::(is_none|is_some)$|::len$', t['callee'].get('path') or '')]
            for (b, t) in others:
                wrong = (t['callee'].get('path') or '')
                if wrong.startswith(codec + '::add_'):
                    ctx.violation('C10.b-items-reach-add', 'wrong-add:%s' % pn, 'items of `%s` are given to %s' % (pn, wrong),
                                  site=t['line'], fn=fname, cfg=cfg)
            line = body.term(nb)['line']
            # `for x in once(first).chain(rest) { add(x)? }`: the item is handed to an order-preserving adaptor chain whose
            # next() site is itself one of this input's checked next() sites, and that site is on every path to an Ok exit
            onces = [(b, t) for (b, t, idx) in core.call_uses(body, flow) if iter_keep(t['callee']) and t['callee'].get('decl') != 'std::iter::IntoIterator::into_iter']
            if not adds and onces:
                f2 = core.forward_flow(body, {t['dest']['l'] for b, t in onces}, through_calls=iter_keep)
                via = [(b2, d2) for (b2, d2) in ns if (b2, d2) != (nb, dest)
                       and any(op_place(a) is not None and op_place(a)['l'] in f2 for a in body.term(b2)['args'])]
                stopb = frozenset(b2 for b2, _ in via)
                if via:
                    r2 = body.reachable_from(onces[0][0], stop=stopb)
                    leaked2 = [ob for ob in ok_blocks if ob in r2]
                    if not leaked2:
                        ctx.ok('C10.b-items-reach-add', '%s:%s:next#%d-through-chain@%s' % (fname, pn, ns.index((nb, dest)), cfg),
                               {'next_at': line, 'yielded_again_by_next_at': [body.term(b2)['line'] for b2, _ in via]})
                        continue
            if not adds:
                ctx.violation('C10.b-items-reach-add', 'dropped:%s' % pn,
                              'the item obtained from `%s` at %s never reaches %s' % (pn, line, add_path),
                              site=line, fn=fname, cfg=cfg)
                continue
            # Assume this next() yielded Some: prune every edge that tests the same Option for None
            # (the Option is moved/borrowed, never reassigned), then every path from here to an
            # Ok exit must pass an add call that consumes the payload.
            removed = set()
            tested = False
            for sb in range(body.n):
                stt = body.term(sb)
                if stt['k'] != 'switch' or body.blocks[sb]['cleanup']:
                    continue
                c = body.canon_op(stt['discr'])
                neg = False
                while c[0] == 'un' and c[1] == 'Not':
                    neg, c = (not neg), c[2]
                if c[0] == 'discr':
                    root = root_local(c[1])
                    if root in flow or (op_place(stt['discr']) and discr_source(body, stt['discr']) in flow):
                        tested = True
                        vals = [v for v, _ in stt['targets']]
                        for v, tgt in stt['targets']:
                            if v != 1:
                                removed.add((sb, tgt))
                        if 1 in vals:
                            removed.add((sb, stt['otherwise']))
                        # an edge shared with the kept target stays
                        keep = [tgt for v, tgt in stt['targets'] if v == 1] or [stt['otherwise']]
                        removed -= {(sb, k) for k in keep}
                elif c[0] == 'call' and re.search(r'Option::<.*>::(is_none|is_some)$', c[1]):
                    root = root_local(c[2][0]) if c[2] else None
                    if root in flow:
                        tested = True
                        is_none = c[1].endswith('is_none')
                        truth_when_some = (not is_none) != neg
                        for v, tgt in stt['targets']:
                            if v == 0 and truth_when_some:
                                removed.add((sb, tgt))
                        if not truth_when_some:
                            removed.add((sb, stt['otherwise']))
            stop = {b for b, t in adds}
            reach = body.reachable_from(nb, removed_edges=removed, stop=frozenset(stop))
            leaked = [ob for ob in ok_blocks if ob in reach and ob not in stop]
            if leaked or not tested:
                ctx.violation('C10.b-items-reach-add', 'path-skips-add:%s' % pn,
                              'an Ok exit is reachable after `%s` yielded an item (next() at %s) without that item being given to %s'
                              % (pn, line, add_path), site=line, fn=fname, cfg=cfg)
            else:
                ctx.ok('C10.b-items-reach-add', '%s:%s:next#%d@%s' % (fname, pn, ns.index((nb, dest)), cfg),
                       {'next_at': line, 'add_calls': [t['line'] for b, t in adds]})
    # order: the first next() of `original` dominates the other next() sites of `original`
    on = next_sites.get('original') or []
    if len(on) >= 2:
        first = [n for n in on if all(body.dominates(n[0], m[0]) for m in on)]
        if first:
            ctx.ok('C10.b-items-reach-add', '%s:original-order@%s' % (fname, cfg), None)

    # ---- (c) inferred size
    for ts in try_of('%s::new' % codec):
        t = body.term(ts['call_bb'])
        if len(t['args']) < 3:
            continue
        pl = op_place(t['args'][2])
        ok, why = size_origin(body, pl['l'] if pl else None, {d for ns in next_sites.values() for (_, d) in ns})
        if ok:
            ctx.ok('C10.c-inferred-size', '%s@%s' % (fname, cfg), {'shard_bytes': why})
        else:
            ctx.violation('C10.c-inferred-size', 'not-first-item-len', 'shard size given to %s::new is not len(as_ref(first item)): %s' % (codec, why),
                          site=t['line'], fn=fname, cfg=cfg)
        o, r = body.canon_op(t['args'][0]), body.canon_op(t['args'][1])
        if o != ('param', 'original_count') or r != ('param', 'recovery_count'):
            ctx.violation('C10.c-inferred-size', 'counts', '%s::new is not given (original_count, recovery_count) in order' % codec,
                          site=t['line'], fn=fname, cfg=cfg)


def root_local(c):
    while isinstance(c, tuple) and c and c[0] in ('deref', 'ref', 'field', 'down', 'index', 'cast'):
        c = c[1] if c[0] != 'cast' else c[2]
    if isinstance(c, tuple) and c and c[0] in ('var',):
        return c[2]
    if isinstance(c, tuple) and c and c[0] == 'tmp':
        return c[1]
    if isinstance(c, tuple) and c and c[0] == 'call' and len(c) > 3:
        return ('callbb', c[3])
    return None


def discr_source(body, discr_op):
    """local whose discriminant is read by `_n = discriminant(place); switch(_n)`"""
    pl = op_place(discr_op)
    if pl is None:
        return None
    for d in body.defs().get(pl['l'], []):
        if d[0] == 'stmt':
            st = body.blocks[d[1]]['stmts'][d[2]]
            if st['k'] == 'assign' and st['rv']['k'] == 'discr':
                return st['rv']['place']['l']
    return None


def size_origin(body, l, next_dests, depth=0):
    """every definition of local l is `len(as_ref(x))` with x derived from a next() payload"""
    if l is None or depth > 6:
        return False, 'untraceable'
    ds = [d for d in body.defs().get(l, []) if d[0] in ('stmt', 'call')]
    if not ds:
        return False, 'no definition'
    descr = []
    for d in ds:
        if d[0] == 'stmt':
            st = body.blocks[d[1]]['stmts'][d[2]]
            rv = st['rv']
            if rv['k'] == 'use' and op_place(rv['op']) is not None:
                src = op_place(rv['op'])
                ok, why = size_origin(body, src['l'], next_dests, depth + 1)
                if not ok:
                    return False, why
                descr.append(why)
                continue
            if rv['k'] == 'agg':
                # tuple (len, first): follow element 0
                pl = op_place(rv['ops'][0]) if rv['ops'] else None
                ok, why = size_origin(body, pl['l'] if pl else None, next_dests, depth + 1)
                if not ok:
                    return False, why
                descr.append(why)
                continue
            return False, 'defined by %s at %s' % (rv['k'], st['line'])
        else:
            t = body.term(d[1])
            p = t['callee'].get('path') or ''
            if not p.endswith('::len'):
                return False, 'defined by call %s at %s' % (p, t['line'])
            c = body.canon_op(t['args'][0])
            txt = core.show(c)
            if 'as_ref' not in txt:
                return False, 'len() receiver is not as_ref(..) at %s' % t['line']
            # receiver derives from a next() payload
            pl = op_place(t['args'][0])
            anc = backward_locals(body, pl['l'])
            if not (anc & next_dests):
                return False, 'len() receiver does not derive from an item of the caller iterators at %s' % t['line']
            descr.append('len(as_ref(item)) at %s' % t['line'])
    return True, ' | '.join(sorted(set(descr)))


def backward_locals(body, l):
    seen = set()
    work = [l]
    while work:
        x = work.pop()
        if x in seen:
            continue
        seen.add(x)
        for d in body.defs().get(x, []):
            if d[0] == 'stmt' or d[0] == 'part':
                st = body.blocks[d[1]]['stmts'][d[2]]
                if st['k'] == 'assign':
                    work.extend(core.rv_source_locals(st['rv']))
            elif d[0] == 'call':
                t = body.term(d[1])
                if ADAPT_RE.search(t['callee'].get('path') or ''):
                    for a in t['args']:
                        pl = op_place(a)
                        if pl is not None:
                            work.append(pl['l'])
    return seen
