"""C08 — supports() is the envelope and constructors agree with it (agreement clauses)."""
import re, itertools
from . import core, summ, c12
from .core import hcanon, hshow

EXPLANATION = (
    "(a) one definition per rate: no impl overrides the provided Rate::{validate,encoder,decoder} or "
    "Rate{En,De}coder::{supports,validate}; the provided bodies only forward; at instance level "
    "<K-RateEncoder as RateEncoder>::supports, <K-RateDecoder as RateDecoder>::supports and their validate all "
    "resolve to <K-Rate as Rate>::supports / ::validate for K in {High, Low, Default}; DefaultRate::supports is "
    "the rate decision's is_ok(). (b) Rate::validate is Ok exactly when supports(o,r) and shard_bytes != 0 and "
    "shard_bytes even: decision-atom extraction from typed HIR, evaluated over the 2x2x2 truth table, with the "
    "right error variant on each failing row. (c) constructors and reset of the dedicated rates fail exactly "
    "through <that codec>::validate(original_count, recovery_count, shard_bytes) (fail-sources computed "
    "interprocedurally, nothing else can fail, arguments in order) and their Ok exit is dominated by its Ok edge; "
    "for the default rate the fail-sources are a subset of {decision(o,r), HighRate validate, LowRate validate}.")
DECIDES = "agreement between supports, validate, new and reset of every codec kind (success <=> validate for the dedicated rates; success => supported and valid size for the default rate)."
NOT_DECIDED = "that the predicates ARE the README staircase and that every configuration inside really round-trips (integer arithmetic / field arithmetic: evaluating them is execution); the converse for the default rate needs the lemma 'decision high => HighRate supports'."
TRUSTED = []
ASSUMPTIONS = ["purity of supports/validate (checked: no &mut, no statics, only pure callees)"]

KINDS = {'High': 'rate::rate_high', 'Low': 'rate::rate_low', 'Default': 'rate::rate_default'}


def run(ctx):
    cfgs = ['x86_64', 'x86_64+release'] if ctx.tier == 'quick' else ['x86_64', 'x86_64+release', 'aarch64', 'i686']
    ctx.rule('C08.a-one-definition', 'encoder, decoder and rate of one kind answer supports/validate from one predicate; provided methods are not overridden')
    ctx.rule('C08.b-validate-table', 'Rate::validate is Ok iff supports and shard_bytes non-zero and even (8-row truth table)')
    ctx.rule('C08.c-constructors-agree', 'new/reset fail exactly through validate of their own codec on their own arguments')
    ctx.rule('C08.d-wrappers-forward', 'supports/new/reset of ReedSolomon{En,De}coder only forward to the default rate: the wrappers answer from the same predicate and their constructors agree with it (clause shared with C09.c)')
    from . import c09
    ctx.guard('C08.analysable', ctx.shared, {'C09.c-delegation': 'C08.d-wrappers-forward'}, c09.check, ctx, ctx.facts(cfgs[0]), cfgs[0])
    ctx.rule('C08.g-reset-reaches-every-configuration', 'reset() to any supported configuration yields a codec that works like a new one: the explicit reset rewrites every field of the work object on every path, and nothing downstream depends on how large the object has ever been (clauses shared with C05.a and C05.h)')
    from . import resetrules, c05 as c05_
    ctx.guard('C08.analysable', ctx.shared, {'X.full': 'C08.g-reset-reaches-every-configuration'}, resetrules.check_reset_discipline, ctx, ctx.facts(cfgs[0]), cfgs[0], 'X.drop', 'X.recv', 'X.full')
    ctx.guard('C08.analysable', ctx.shared, {'C05.h-grow-only-lengths': 'C08.g-reset-reaches-every-configuration'}, c05_.grow_only_lengths, ctx, ctx.facts(cfgs[0]), cfgs[0])
    ctx.rule('C08.i-envelope-works-on-every-engine', 'a configuration inside the envelope encodes and decodes on every engine: the optimised engines run the transform schedule of the reference form (clause shared with C03.a)')
    from . import c03 as c03_
    for c_ in ('x86_64',):      # the Neon schedule is compared by C03 / C09 / C14 (aarch64 facts); here the x86 engines
        ctx.guard('C08.analysable', ctx.shared, {'C03.a-schedule-siblings': 'C08.i-envelope-works-on-every-engine'}, c03_.schedules, ctx, ctx.facts(c_), c_)
        ctx.guard('C08.analysable', ctx.shared, {'C03.i-byte-order-fixed': 'C08.i-envelope-works-on-every-engine'}, c03_.byte_order, ctx, ctx.facts(c_), c_)
    ctx.rule('C08.j-every-size-repacked-once', 'a supported configuration works for every even shard size: the final-block re-packing runs exactly once on every path that produces a result, for both rates (clause shared with C04.b)')
    from . import c04 as c04_
    ctx.guard('C08.analysable', ctx.shared, {'C04.b-unencode-once-last': 'C08.j-every-size-repacked-once'}, c04_.unencode, ctx, ctx.facts(cfgs[0]), cfgs[0])
    ctx.rule('C08.h-documented-envelope', 'the acceptance conditions of HighRate::supports, LowRate::supports and of the rate decision are, atom by atom, the documented ones (counts non-zero, below / at most 65536, next_power_of_two of one count plus the other at most 65536; default: min of the powers plus max of the counts); comparisons are normalised (direction, strictness, zero tests, range contains, negation), the rate-choosing comparisons of the decision are not part of it')
    ctx.rule('C08.e-space-for-every-position', 'the decoder sizes its received bitmap from the configuration — max(original_base_pos + original_count, recovery_base_pos + recovery_count) — so that every position of every supported configuration, up to the edge of the envelope, can be marked')
    ctx.rule('C08.f-table-passes-cover-the-table', 'a loop that rewrites a fixed-size table in place element by element (t[i] = f(t[i])) runs over the whole table, 0..len: the last entries are read only by configurations at the edge of the envelope')
    for cfg in cfgs:
        facts = ctx.facts(cfg)
        ctx.guard('C08.analysable', bitmap_covers, ctx, facts, cfg)
        ctx.guard('C08.analysable', table_passes_cover, ctx, facts, cfg)
        ctx.guard('C08.analysable', documented_envelope, ctx, facts, cfg)
        ctx.guard('C08.analysable', one_definition, ctx, facts, cfg)
        ctx.guard('C08.analysable', validate_table, ctx, facts, cfg)
        ctx.guard('C08.analysable', constructors, ctx, facts, cfg)


def one_definition(ctx, facts, cfg):
    R = 'C08.a-one-definition'
    provided = {'rate::Rate': ('validate', 'encoder', 'decoder'), 'rate::RateEncoder': ('supports', 'validate'),
                'rate::RateDecoder': ('supports', 'validate')}
    for im in facts.impls:
        tr = im.get('trait')
        if tr in provided:
            for it in im['items']:
                if it['name'] in provided[tr]:
                    ctx.violation(R, 'override:%s' % it['name'], 'impl %s for %s overrides the provided method %s: this codec no longer answers from the shared predicate' % (tr, im['self_ty'], it['name']),
                                  site=im['span'], fn=it['path'], cfg=cfg)
    # provided bodies forward
    fw = {'rate::RateEncoder::supports': 'rate::Rate::supports', 'rate::RateEncoder::validate': 'rate::Rate::validate',
          'rate::RateDecoder::supports': 'rate::Rate::supports', 'rate::RateDecoder::validate': 'rate::Rate::validate',
          'rate::Rate::encoder': 'rate::RateEncoder::new', 'rate::Rate::decoder': 'rate::RateDecoder::new'}
    for p, target in fw.items():
        fn = ctx.anchor(facts, p, R)
        if fn is None:
            continue
        cc = [(b, t) for b, t in fn.body.calls() if t['callee'].get('local')]
        bad = None
        if len(cc) != 1 or cc[0][1]['callee'].get('decl') != target:
            bad = 'calls %s' % [t['callee'].get('decl') for _, t in cc]
        else:
            t = cc[0][1]
            if [fn.body.canon_op(a) for a in t['args']] != [('param', n) for n in fn.param_names()]:
                bad = 'does not pass its own arguments in order'
            if not (t['dest']['l'] == 0 and not t['dest']['p']):
                bad = 'post-processes the result'
        if bad:
            ctx.violation(R, 'provided-not-forwarding', 'provided method %s %s' % (p, bad), site=fn.span, fn=p, cfg=cfg)
        else:
            ctx.ok(R, '%s@%s' % (p, cfg), None)
    # instance-level resolution
    n = 0
    for K, mod in KINDS.items():
        rate = '<%s::%sRate<E> as rate::Rate<E>>' % (mod, K)
        for side in ('Encoder', 'Decoder'):
            codec = '<%s::%sRate%s<E> as rate::Rate%s<E>>' % (mod, K, side, side)
            for meth in ('supports', 'validate'):
                key = '%s::%s' % (codec, meth)
                rec = facts.instances.get(key)
                if rec is None:
                    ctx.violation(R, 'instance-missing:%s%s:%s' % (K, side, meth), 'instance %s not found (is the method still provided by the trait?)' % key, fn=key, cfg=cfg)
                    continue
                calls = [c.get('key') for c in rec['calls'].values() if c.get('local') and (c.get('trait') or '').startswith('rate::Rate')]
                want = '%s::%s' % (rate, meth)
                n += 1
                if calls == [want]:
                    ctx.ok(R, '%s@%s' % (key, cfg), {'resolves_to': want})
                else:
                    ctx.violation(R, 'resolves-elsewhere:%s%s:%s' % (K, side, meth), '%s resolves to %s, expected %s' % (key, calls, want), fn=key, cfg=cfg)
        vk = '%s::validate' % rate
        rec = facts.instances.get(vk)
        if rec is not None:
            def rate_calls(r_, depth=0):
                out_ = []
                for c in r_['calls'].values():
                    if not c.get('local'):
                        continue
                    if (c.get('trait') or '').startswith('rate::Rate'):
                        out_.append(c.get('key'))
                    elif depth < 2:
                        # a private helper instantiated for this rate (`check_supported::<E, HighRate<E>>`): what IT consults
                        g_ = facts.fns.get(c.get('path'))
                        r2 = facts.instances.get(c.get('key') or '')
                        if g_ is not None and r2 is not None and not g_.reachable and not g_.impl_trait and not g_.in_trait:
                            out_ += rate_calls(r2, depth + 1)
                return out_
            calls = rate_calls(rec)
            if calls == ['%s::supports' % rate]:
                ctx.ok(R, '%s@%s' % (vk, cfg), {'uses': '%s::supports' % rate})
            else:
                ctx.violation(R, 'validate-uses-other-supports:%s' % K, '%s uses %s, expected %s::supports' % (vk, calls, rate), fn=vk, cfg=cfg)
    ctx.floor(R, 12, n, 'codec supports/validate instances', cfg=cfg)
    # DefaultRate::supports == decision(o, r).is_ok()
    ds = ctx.anchor(facts, '<rate::rate_default::DefaultRate<E> as rate::Rate<E>>::supports', R)
    if ds is not None:
        tails = core.fn_exits(ds)
        okd = False
        if len(tails) == 1:
            v = hcanon(tails[0][0], {})
            if v[0] == 'call' and str(v[1]).endswith('::is_ok') and v[2] and v[2][0][0] == 'call':
                inner = v[2][0]
                g = facts.fns.get(inner[1]) if isinstance(inner[1], str) else None
                is_dec = g is not None and (g.output or '').startswith('std::result::Result<bool, Error>')
                if g is not None and not is_dec:
                    # a transparent wrapper of the decision (fails exactly when the decision fails, on its own parameters in order)
                    S_ = summ.summaries(facts)
                    fs_ = S_.fail_sources(S_.identity_key(g))
                    pn_ = tuple(('param', n) for n in g.param_names())
                    if len(fs_) == 1:
                        lf = list(fs_)[0]
                        d_ = facts.fns.get(lf[1]) if lf[0] == 'pred' else None
                        is_dec = d_ is not None and (d_.output or '').startswith('std::result::Result<bool, Error>') and tuple(lf[2]) == pn_
                if is_dec and tuple(inner[2]) == (('local', 'original_count'), ('local', 'recovery_count')):
                    okd = True
            t0 = core.fn_exits(ds, delegate=False)
            v = hcanon(t0[0][0], {}) if len(t0) == 1 else ('?',)
            if not okd and v[0] == 'call' and isinstance(v[1], str) and tuple(v[2]) == (('local', 'original_count'), ('local', 'recovery_count')):
                # `is_supported(o, r)`, a private predicate on which the decision fails exactly: decision(o, r).is_ok() under another name
                g = facts.fns.get(v[1])
                decs = [q for q, d_ in facts.fns.items() if (d_.output or '').startswith('std::result::Result<bool, Error>') and d_.file == ds.file and d_.kind != 'Closure']
                if g is not None and g.output == 'bool' and not g.reachable and len(decs) == 1:
                    from . import c09
                    okd = c09.decision_fails_exactly_on(facts, decs[0], {v[1]}) == v[1]
        if okd:
            ctx.ok(R, 'DefaultRate::supports=decision.is_ok()@%s' % cfg, None)
        else:
            ctx.violation(R, 'default-supports-shape', 'DefaultRate::supports is not `decision(original_count, recovery_count).is_ok()`', site=ds.span, fn=ds.path, cfg=cfg)


def validate_table(ctx, facts, cfg):
    R = 'C08.b-validate-table'
    fn = ctx.anchor(facts, 'rate::Rate::validate', R)
    if fn is None:
        return
    # checks written as `helper(..)?;` statements on private helpers are read in place
    h2 = core.inline_unit_tries(fn.hir, facts)
    if h2 != fn.hir:
        import copy as _copy
        fn = _copy.copy(fn)
        fn.hir = h2
    tails = core.fn_exits(fn)
    o, r, sb = ('local', 'original_count'), ('local', 'recovery_count'), ('local', 'shard_bytes')
    Z = core.norm_bin('Eq', sb, ('const', 0))
    NZ = core.norm_bin('Ne', sb, ('const', 0))
    ODD = {core.norm_bin('Ne', core.norm_bin('BitAnd', sb, ('const', 1)), ('const', 0)),
           core.norm_bin('Ne', ('bin', 'Rem', sb, ('const', 2)), ('const', 0)),
           core.norm_bin('Eq', core.norm_bin('BitAnd', sb, ('const', 1)), ('const', 1)),
           core.norm_bin('Eq', ('bin', 'Rem', sb, ('const', 2)), ('const', 1))}
    EVEN = {core.norm_bin('Eq', core.norm_bin('BitAnd', sb, ('const', 1)), ('const', 0)),
            core.norm_bin('Eq', ('bin', 'Rem', sb, ('const', 2)), ('const', 0))}

    class Unknown(Exception):
        pass

    def ev(c, S, z, odd):
        if isinstance(c, tuple) and c[0] == 'and':
            return ev(c[1], S, z, odd) and ev(c[2], S, z, odd)
        if isinstance(c, tuple) and c[0] == 'or':
            return ev(c[1], S, z, odd) or ev(c[2], S, z, odd)
        if isinstance(c, tuple) and c[0] == 'un' and c[1] == 'Not':
            return not ev(c[2], S, z, odd)
        if isinstance(c, tuple) and c[0] == 'call' and str(c[1]).endswith('::supports') and tuple(c[2]) == (o, r):
            return S
        if c == Z:
            return z
        if c == NZ:
            return not z
        if c in ODD:
            return odd
        if c in EVEN:
            return not odd
        raise Unknown(hshow(c))
    rows = 0
    for S, z, odd in itertools.product((True, False), repeat=3):
        if z and odd:
            continue      # 0 is even: infeasible row
        taken = []
        try:
            for (x, conds, env) in tails:
                okp = True
                for cd in conds:
                    if cd[0] == 'if':
                        if ev(hcanon(cd[1], env), S, z, odd) != cd[2]:
                            okp = False
                            break
                if okp:
                    taken.append(core.inline_calls(hcanon(x, env), facts))
        except Unknown as e:
            ctx.violation(R, 'foreign-atom', 'Rate::validate branches on `%s`, which is not supports(o,r) or a zero/parity test of shard_bytes' % e, site=fn.span, fn=fn.path, cfg=cfg)
            return
        rows += 1
        row = 'supports=%s,zero=%s,odd=%s' % (S, z, odd)
        if len(taken) != 1:
            ctx.violation(R, 'ambiguous:%s' % row, 'validate: %d result expressions apply for %s' % (len(taken), row), site=fn.span, fn=fn.path, cfg=cfg)
            continue
        v = taken[0]
        is_ok = v[0] == 'call' and str(v[1]).endswith('::Ok')
        variant = None
        if v[0] == 'call' and str(v[1]).endswith('::Err') and v[2] and v[2][0][0] == 'struct':
            variant = str(v[2][0][1]).split('::')[-1]
        want_ok = S and not z and not odd
        truthful = set()
        if not S:
            truthful.add('UnsupportedShardCount')
        if z or odd:
            truthful.add('InvalidShardSize')
        want_var = sorted(truthful)     # any violated precondition may be reported (C06)
        if is_ok == want_ok and (want_ok or variant in truthful):
            ctx.ok(R, '%s@%s' % (row, cfg), {'result': 'Ok' if is_ok else 'Err(%s)' % variant})
        else:
            ctx.violation(R, 'row:%s' % row, 'validate returns %s for %s, expected %s' % ('Ok' if is_ok else 'Err(%s)' % variant, row, 'Ok' if want_ok else 'Err(%s)' % want_var),
                          site=fn.span, fn=fn.path, cfg=cfg)
    ctx.floor(R, 6, rows, 'truth-table rows', cfg=cfg)


def constructors(ctx, facts, cfg):
    R = 'C08.c-constructors-agree'
    S = summ.summaries(facts)
    n = 0
    dec = None
    for p, f in facts.fns.items():
        if (f.output or '').startswith('std::result::Result<bool, Error>') and p.startswith('rate::rate_default'):
            dec = p
    for K, mod in KINDS.items():
        for side in ('Encoder', 'Decoder'):
            codec = '<%s::%sRate%s<E> as rate::Rate%s<E>>' % (mod, K, side, side)
            for meth in ('new', 'reset'):
                key = '%s::%s' % (codec, meth)
                fn = facts.fns.get(key)
                if fn is None:
                    ctx.violation(R, 'anchor-missing', 'anchor missing: %s' % key, fn=key, cfg=cfg)
                    continue
                n += 1
                fs = S.fail_sources(key)
                args3 = (('param', 'original_count'), ('param', 'recovery_count'), ('param', 'shard_bytes'))
                if K != 'Default':
                    want0 = {('pred', S.canon_pred('%s::validate' % codec), args3)}
                    want = expand_leaves(S, want0)
                    fs = expand_leaves(S, fs)
                    if fs == want:
                        # Ok exit dominated by the Ok edge of a call chain containing that validate: the `?`/tail structure guarantees it
                        body = fn.body
                        errs, oks = core.result_exits(body)
                        okb = [b for (b, k, d) in oks if k == 'ctor']
                        tss = [ts for ts in core.try_sites(body) if ts['ok_bb'] is not None]
                        dom = (not okb) or any(all(body.edge_dominates((ts['switch_bb'], ts['ok_bb']), ob) for ob in okb) for ts in tss)
                        tail = [b for (b, k, d) in oks if k == 'tailcall']
                        if (dom or tail) and all(must_pass(facts, S, key, lf[1]) for lf in (want0 if want == want0 else want)):
                            ctx.ok(R, '%s@%s' % (key, cfg), {'fails_exactly_through': core.short(codec) + '::validate(original_count, recovery_count, shard_bytes)'})
                        elif dom or tail:
                            ctx.violation(R, 'ok-without-validate:%s%s:%s' % (K, side, meth),
                                          '%s can return Ok on a path that never passes a successful %s::validate (e.g. a fast path in a helper): construction/reset succeeds for configurations that supports() rejects'
                                          % (key, core.short(codec)), site=fn.span, fn=key, cfg=cfg)
                        else:
                            ctx.violation(R, 'ok-not-dominated:%s%s:%s' % (K, side, meth), '%s can return Ok without its validation having succeeded' % key, site=fn.span, fn=key, cfg=cfg)
                    else:
                        extra = sorted(fs - want, key=repr)
                        missing = sorted(want - fs, key=repr)
                        ctx.violation(R, 'fail-sources:%s%s:%s' % (K, side, meth),
                                      '%s does not fail exactly through its own validate: %s%s' % (
                                          key, ('extra failure sources %s ' % [fmt_leaf(x) for x in extra]) if extra else '',
                                          ('missing %s' % [fmt_leaf(x) for x in missing]) if missing else ''), site=fn.span, fn=key, cfg=cfg)
                else:
                    allowed = set()
                    for side2 in (side,):
                        for K2, mod2 in (('High', KINDS['High']), ('Low', KINDS['Low'])):
                            allowed.add(('pred', S.canon_pred('<%s::%sRate%s<E> as rate::Rate%s<E>>::validate' % (mod2, K2, side2, side2)), args3))
                    if dec:
                        allowed.add(('pred', dec, args3[:2]))
                    allowed |= expand_leaves(S, allowed)
                    bad = sorted(fs - allowed, key=repr)
                    if bad:
                        ctx.violation(R, 'fail-sources:Default%s:%s' % (side, meth), '%s can fail through %s, which is neither the rate decision nor a dedicated validate on its own arguments'
                                      % (key, [fmt_leaf(x) for x in bad]), site=fn.span, fn=key, cfg=cfg)
                    elif dec and ('pred', dec, args3[:2]) not in fs:
                        ctx.violation(R, 'no-decision:Default%s:%s' % (side, meth), '%s does not fail through the rate decision: unsupported counts may be accepted' % key, site=fn.span, fn=key, cfg=cfg)
                    else:
                        ctx.ok(R, '%s@%s' % (key, cfg), {'fail_sources': sorted(fmt_leaf(x) for x in fs)})
    ctx.floor(R, 12, n, 'constructors / resets', cfg=cfg)
    # purity of the predicates relied upon
    for K, mod in KINDS.items():
        k = '<%s::%sRate<E> as rate::Rate<E>>::supports' % (mod, K)
        if S.pure(k):
            ctx.ok(R, 'pure:%s@%s' % (k, cfg), None, nontrivial=False)
        else:
            ctx.violation(R, 'impure-predicate:%s' % K, '%s is not a pure function of its arguments (%s)' % (k, getattr(S, '_pure_why', {}).get(k)), fn=k, cfg=cfg)


def expand_leaves(S, leaves, depth=0):
    """a pure validator that constructs no error of its own fails exactly when the predicates it consults fail
    (`validate(o, r, s)` = `check_supported(o, r)?; checked_len(s)?; Ok(())`): such leaves are replaced by what they consult"""
    out = set()
    for lf in leaves:
        if lf[0] != 'pred' or depth > 3:
            out.add(lf)
            continue
        inner = S.fail_sources(lf[1])
        inst = S.inst(lf[1])
        if inst.fn is not None and S.pure(lf[1]) and inner and all(x[0] == 'pred' for x in inner):
            pn = inst.fn.param_names()
            sub = {n: lf[2][i] for i, n in enumerate(pn) if n is not None and i < len(lf[2])}
            out |= expand_leaves(S, {('pred', x[1], tuple(summ.subst(a, sub) for a in x[2])) for x in inner}, depth + 1)
        else:
            out.add(lf)
    return out


def must_pass(facts, S, key, pred, depth=0):
    """every Ok exit (ctor or tail) of instance `key` is dominated by the Ok edge of a `?` on `pred` itself or on a
    callee for which the same holds (must-pass-through, interprocedural); tail calls count likewise"""
    if depth > 6:
        return False
    inst = S.inst(key)
    fn = inst.fn
    if fn is None:
        return False
    body = fn.body
    errs, oks = core.result_exits(body)
    ok_ctor = [b for (b, k, d) in oks if k == 'ctor']
    ok_tail = [b for (b, k, d) in oks if k == 'tailcall']
    good_edges = []
    for ts in core.try_sites(body):
        if ts['call_bb'] is None or ts['ok_bb'] is None:
            continue
        ck = inst.callee_key(ts['call_bb'])
        if S.canon_pred(ck) == pred or (ck in facts.instances or ck in facts.fns) and ck != key and must_pass(facts, S, ck, pred, depth + 1):
            good_edges.append((ts['switch_bb'], ts['ok_bb']))
    for ob in ok_ctor:
        if not any(body.edge_dominates(e, ob) for e in good_edges):
            return False
    for tb in ok_tail:
        ck = inst.callee_key(tb)
        direct = (S.canon_pred(ck) == pred) or ((ck in facts.instances or ck in facts.fns) and ck != key and must_pass(facts, S, ck, pred, depth + 1))
        if not direct and not any(body.edge_dominates(e, tb) for e in good_edges):
            return False
    return bool(ok_ctor or ok_tail)


def fmt_leaf(x):
    if x[0] == 'pred':
        return '%s(%s)' % (core.short(x[1]), ', '.join(core.show(a) for a in x[2]))
    return '%s:%s' % (x[0], ':'.join(str(y) for y in x[1:]))


def bitmap_covers(ctx, facts, cfg):
    from . import roles as roles_mod
    R = 'C08.e-space-for-every-position'
    RL = roles_mod.roles(facts)
    rp = RL.get(ctx, 'dec.reset', R, cfg)
    if rp is None:
        return
    fn = core.inlined_fn(facts, rp.path, core.self_helper(rp.impl_self_adt))
    body = fn.body
    grows = [(b, t) for b, t in body.calls() if re.search(r'^fixedbitset::FixedBitSet::(grow|grow_and_insert)$', t['callee'].get('path') or '')]
    if not grows:
        ctx.violation(R, 'no-grow', '%s never grows the received bitmap' % rp.path, site=rp.span, fn=rp.path, cfg=cfg)
        return

    def names(c, out):
        if isinstance(c, tuple):
            if c and c[0] in ('param', 'var') and isinstance(c[1], str):
                out.add(c[1])
            elif c and c[0] == 'field' and isinstance(c[2], str):
                out.add(c[2])
                names(c[1], out)
            else:
                for x in c:
                    names(x, out)
        return out

    def sums(c, out):
        """name sets of the additions occurring in c"""
        if isinstance(c, tuple):
            if c and c[0] == 'checked':
                return sums(c[1], out)
            if c and c[0] == 'bin' and c[1] == 'Add':
                out.append(names(c, set()))
            for x in c:
                sums(x, out)
        return out
    for b, t in grows:
        a = RL.norm(core.strip_var_ids(body.canon_op(t['args'][1])), rp.path)
        ss = sums(a, [])
        has_max = 'max' in core.show(a)
        okO = any({'original_base_pos', 'original_count'} <= x for x in ss)
        okR = any({'recovery_base_pos', 'recovery_count'} <= x for x in ss)
        if has_max and okO and okR:
            ctx.ok(R, '%s@%s' % (rp.path, cfg), {'grown_to': core.show(a)[:160]})
        else:
            ctx.violation(R, 'bitmap-size', '%s grows the received bitmap to `%s`, which is not max(original_base_pos + original_count, recovery_base_pos + recovery_count): some position of a supported configuration may not fit'
                          % (rp.path, core.show(a)[:160]), site=t['line'], fn=rp.path, cfg=cfg)


def table_passes_cover(ctx, facts, cfg):
    """C08.f.  `for i in A..B { t[i] = .. t[i] .. }` with t: [X; N] (directly, boxed or borrowed): A must be 0 and B must be N,
    after folding the crate's integer constants."""
    R = 'C08.f-table-passes-cover-the-table'
    consts = {x['path']: x['val'] for x in facts.other_items if 'val' in x}

    def fold(c):
        if not isinstance(c, tuple):
            return None
        if c[0] == 'const' and isinstance(c[1], int):
            return c[1]
        if c[0] == 'def' and c[1] in consts:
            return consts[c[1]]
        if c[0] == 'cast':
            return fold(c[-1]) if isinstance(c[-1], tuple) else fold(c[1])
        if c[0] == 'bin' and len(c) == 4:
            a, b = fold(c[2]), fold(c[3])
            if a is None or b is None:
                return None
            try:
                return {'Add': a + b, 'Sub': a - b, 'Mul': a * b, 'Shl': a << b, 'Shr': a >> b, 'Div': a // b if b else None}.get(c[1])
            except Exception:
                return None
        return None
    n = 0
    for p, fn in sorted(facts.fns.items()):
        if not fn.hir:
            continue
        for node, _ in core.hir_find(fn.hir, lambda m: m.get('k') == 'match' and m.get('source') == 'ForLoopDesugar'):
            fl = core.for_loop_parts(node)
            if not fl:
                continue
            pat, it, body = fl
            rg = core.is_range_struct(it)
            if rg is None or rg[0] is None or rg[1] is None or pat.get('k') != 'bind':
                continue
            body0 = core.strip_refs(body)
            stmts = list(body0.get('stmts', [])) + ([{'k': 'expr', 'e': body0['tail']}] if body0.get('tail') is not None else [])
            if len(stmts) != 1 or stmts[0].get('k') != 'expr':
                continue
            a = core.strip_refs(stmts[0]['e'])
            if a.get('k') != 'assign':
                continue
            lhs = core.strip_refs(a['l'])
            if lhs.get('k') != 'index':
                continue
            idx = core.strip_refs(lhs['idx'])
            base = core.strip_refs(lhs['base'])
            while base.get('k') == 'un' and base.get('op') == 'Deref':
                base = core.strip_refs(base['x'])
            if not (idx.get('k') == 'path' and idx.get('id') == pat['id'] and base.get('k') == 'path' and base.get('res') == 'local'):
                continue
            # the right-hand side reads the same element
            same = core.hir_find(a['r'], lambda m: m.get('k') == 'index' and core.strip_refs(m['idx']).get('id') == pat['id']
                                 and _root_local(m['base']) == base.get('id'))
            if not same:
                continue
            m_ = re.search(r'\[[^;\[\]]+; (\d+)\]', base.get('ty') or '')
            if not m_:
                continue
            N = int(m_.group(1))
            n += 1
            A, B = fold(hcanon_cast(rg[0])), fold(hcanon_cast(rg[1]))
            if rg[2] and B is not None:
                B += 1
            if A == 0 and B == N:
                ctx.ok(R, '%s:%s@%s' % (p, base.get('name'), cfg), {'table': base.get('ty'), 'range': '0..%d' % N})
            else:
                ctx.violation(R, 'partial-pass:%s' % base.get('name'), 'in %s the in-place pass over `%s` (%s) runs over %s..%s instead of 0..%d: the entries left out keep their unconverted values'
                              % (p, base.get('name'), base.get('ty'), A, B, N), site=node.get('line') or fn.span, fn=p, cfg=cfg)
    ctx.floor(R, 2, n, 'in-place passes over fixed-size tables', cfg=cfg)


def _root_local(e):
    e = core.strip_refs(e)
    while isinstance(e, dict) and e.get('k') == 'un' and e.get('op') == 'Deref':
        e = core.strip_refs(e['x'])
    return e.get('id') if isinstance(e, dict) and e.get('k') == 'path' else None


def hcanon_cast(e):
    return core.hcanon(e)


# ------------------------------------------------------------------ (h)

def _nm(c):
    """min/max in one spelling, arguments sorted"""
    if not isinstance(c, tuple):
        return c
    if c and c[0] == 'call' and isinstance(c[1], str) and re.search(r'::(min|max)$', c[1]) and len(c[2]) == 2:
        return ('call', c[1].rsplit('::', 1)[-1], tuple(sorted((_nm(c[2][0]), _nm(c[2][1])), key=repr)))
    if c and c[0] == 'call' and isinstance(c[1], str) and c[1].endswith('next_power_of_two'):
        inner = tuple(_nm(x) for x in c[2])
        if len(inner) == 1 and isinstance(inner[0], tuple) and inner[0][:1] == ('call',) and inner[0][1] in ('min', 'max'):
            # next_power_of_two is monotonic: it commutes with min / max
            return ('call', inner[0][1], tuple(sorted((('call', 'next_power_of_two', (x,)) for x in inner[0][2]), key=repr)))
        return ('call', 'next_power_of_two', inner)
    if c and c[0] == 'call':
        return ('call', c[1], tuple(_nm(x) for x in c[2]))
    if c and c[0] == 'ref':
        return _nm(c[1])
    return tuple(_nm(x) for x in c)


def _atom(op, a, b, pol):
    """normal form of `a op b` (negated when pol is False) for unsigned integers:
       ('ne0', x) | ('eq0', x) | ('le0', lin(L - R)) meaning L <= R"""
    from .c05 import lin
    a, b = _nm(a), _nm(b)
    if not pol:
        op = {'Lt': 'Ge', 'Le': 'Gt', 'Gt': 'Le', 'Ge': 'Lt', 'Eq': 'Ne', 'Ne': 'Eq'}[op]
    if op in ('Eq', 'Ne'):
        z = b if a == ('const', 0) else (a if b == ('const', 0) else None)
        if z is not None:
            return ('eq0' if op == 'Eq' else 'ne0', z)
        return (op.lower(), lin(('bin', 'Sub', a, b)))
    # to L <= R
    if op == 'Lt':
        L, R = ('bin', 'Add', a, ('const', 1)), b
    elif op == 'Le':
        L, R = a, b
    elif op == 'Gt':
        L, R = ('bin', 'Add', b, ('const', 1)), a
    else:
        L, R = b, a
    n = lin(('bin', 'Sub', L, R))
    # 1 <= x  (x unsigned)  is  x != 0 ;  x <= 0 is x == 0
    if n[0] == 1 and len(n[1]) == 1 and n[1][0][1] == -1:
        return ('ne0', eval(n[1][0][0]))
    if n[0] == 0 and len(n[1]) == 1 and n[1][0][1] == 1:
        return ('eq0', eval(n[1][0][0]))
    return ('le0', n)


def _split_minmax(op, a, b, pol):
    """an upper bound on max(x, y) bounds both, a lower bound on min(x, y) bounds both (unsigned: `min != 0`, `max == 0` too):
    the comparison is the conjunction of the same comparison on x and on y; None if the comparison has another shape"""
    if not pol:
        op = {'Lt': 'Ge', 'Le': 'Gt', 'Gt': 'Le', 'Ge': 'Lt', 'Eq': 'Ne', 'Ne': 'Eq'}[op]
    a, b = _nm(a), _nm(b)

    def mm(v):
        return v[1] if isinstance(v, tuple) and v[:1] == ('call',) and v[1] in ('min', 'max') and len(v[2]) == 2 else None
    if mm(b) and not mm(a):
        a, b = b, a
        op = {'Lt': 'Gt', 'Le': 'Ge', 'Gt': 'Lt', 'Ge': 'Le', 'Eq': 'Eq', 'Ne': 'Ne'}[op]
    k = mm(a)
    if not k or mm(b):
        return None
    both = (k == 'max' and op in ('Lt', 'Le')) or (k == 'min' and op in ('Gt', 'Ge')) \
        or (k == 'min' and op == 'Ne' and b == ('const', 0)) or (k == 'max' and op == 'Eq' and b == ('const', 0))
    if not both:
        return None
    return {_atom(op, a[2][0], b, True), _atom(op, a[2][1], b, True)}


def accept_atoms(c, pol=True):
    """atoms of a condition that is a pure conjunction once negations are pushed inward; None if it is not"""
    if not isinstance(c, tuple) or not c:
        return None
    if c[0] == 'and' and pol or c[0] == 'or' and not pol:
        a, b = accept_atoms(c[1], pol), accept_atoms(c[2], pol)
        return None if a is None or b is None else a | b
    if c[0] in ('and', 'or'):
        return None
    if c[0] == 'un' and c[1] == 'Not':
        return accept_atoms(c[2], not pol)
    if c[0] == 'bin' and c[1] in ('Lt', 'Le', 'Gt', 'Ge', 'Eq', 'Ne'):
        sp = _split_minmax(c[1], c[2], c[3], pol)
        if sp is not None:
            return sp
        return {_atom(c[1], c[2], c[3], pol)}
    if c[0] == 'call' and isinstance(c[1], str) and c[1].endswith('::contains') and len(c[2]) == 2 and pol:
        r = c[2][0]
        while isinstance(r, tuple) and r and r[0] == 'ref':
            r = r[1]
        x = c[2][1]
        if isinstance(r, tuple) and r and r[0] == 'call' and str(r[1]).endswith('RangeInclusive::<Idx>::new') and len(r[2]) == 2:
            return {_atom('Le', r[2][0], x, True), _atom('Le', x, r[2][1], True)}
        if isinstance(r, tuple) and r and r[0] == 'struct' and str(r[1]).endswith('ops::Range'):
            d = dict(r[2])
            return {_atom('Le', d.get('start'), x, True), _atom('Lt', x, d.get('end'), True)}
    return None


def documented_envelope(ctx, facts, cfg):
    R = 'C08.h-documented-envelope'
    G = facts.consts.get('engine::GF_ORDER', 65536)
    o, r = ('local', 'original_count'), ('local', 'recovery_count')
    np2 = lambda x: ('call', 'next_power_of_two', (x,))
    A = lambda op, a, b: _atom(op, a, b, True)
    doc = {
        'High': {A('Ne', o, ('const', 0)), A('Ne', r, ('const', 0)), A('Lt', o, ('const', G)), A('Lt', r, ('const', G)), A('Le', ('bin', 'Add', np2(r), o), ('const', G))},
        'Low': {A('Ne', o, ('const', 0)), A('Ne', r, ('const', 0)), A('Lt', o, ('const', G)), A('Lt', r, ('const', G)), A('Le', ('bin', 'Add', np2(o), r), ('const', G))},
        'Default': {A('Ne', o, ('const', 0)), A('Ne', r, ('const', 0)), A('Le', o, ('const', G)), A('Le', r, ('const', G)),
                    A('Le', ('bin', 'Add', ('call', 'min', tuple(sorted((np2(o), np2(r)), key=repr))), ('call', 'max', tuple(sorted((o, r), key=repr)))), ('const', G))},
    }

    def show(a):
        return core.hshow(a) if not (isinstance(a, tuple) and a and a[0] in ('le0', 'ne0', 'eq0', 'eq', 'ne')) else '%s %s' % (a[0], a[1])
    n = 0
    for K in ('High', 'Low'):
        key = '<%s::%sRate<E> as rate::Rate<E>>::supports' % (KINDS[K], K)
        fn = ctx.anchor(facts, key, R)
        if fn is None:
            continue
        exits = core.fn_exits(fn)
        got = None
        if len(exits) == 1:
            got = accept_atoms(core.inline_calls(hcanon(exits[0][0], exits[0][2]), facts))
        n += 1
        if got is None:
            ctx.violation(R, 'shape:%s' % K, '%s::supports is not a conjunction of comparisons this rule can normalise (unrecognised idiom)' % K, site=fn.span, fn=key, cfg=cfg)
        elif got != doc[K]:
            ctx.violation(R, 'atoms:%s' % K, '%s::supports accepts under %s; the documented envelope is %s (missing: %s; extra: %s)'
                          % (K, sorted(map(show, got)), sorted(map(show, doc[K])), sorted(map(show, doc[K] - got)), sorted(map(show, got - doc[K]))), site=fn.span, fn=key, cfg=cfg)
        else:
            ctx.ok(R, '%s::supports@%s' % (K, cfg), {'atoms': sorted(map(show, got))})
    # the rate decision: atoms common to all Ok exits
    dec = None
    for p, f in facts.fns.items():
        if (f.output or '').startswith('std::result::Result<bool, Error>') and p.startswith('rate::rate_default'):
            dec = f
    if dec is None:
        ctx.violation(R, 'no-decision', 'rate decision function not found', fn='rate::rate_default', cfg=cfg)
        return
    common = None
    for (x, conds, env) in core.fn_exits(dec):
        v = hcanon(x, env)
        if not (v[0] == 'call' and str(v[1]).endswith('::Ok')):
            continue
        atoms = set()
        bad = False
        for c_, pol in core.flatten_conds(conds, env):
            aa = accept_atoms(core.inline_calls(c_, facts), pol)
            if aa is None:
                continue        # a condition that is not a conjunction of comparisons (the three-way rate comparison)
            atoms |= aa
        common = atoms if common is None else (common & atoms)
    n += 1
    if common is None:
        ctx.violation(R, 'shape:Default', 'the rate decision has no Ok exit this rule can read', site=dec.span, fn=dec.path, cfg=cfg)
    elif doc['Default'] <= common:
        ctx.ok(R, 'decision@%s' % cfg, {'atoms': sorted(map(show, doc['Default']))})
    else:
        ctx.violation(R, 'atoms:Default', 'every Ok exit of the rate decision holds under %s, which does not include the documented acceptance condition(s) %s'
                      % (sorted(map(show, common)), sorted(map(show, doc['Default'] - common))), site=dec.span, fn=dec.path, cfg=cfg)
    ctx.floor(R, 3, n, 'support predicates', cfg=cfg)
