"""Structural discovery of private helpers and private field names (DESIGN §2.4).

Rules are anchored on PUBLIC items (trait methods of RateEncoder/RateDecoder/Engine, the
public work/result types, their public methods).  Everything private — helper functions of
the work objects, the shard store type, field names — is found by structure and data flow
from those anchors and mapped to stable ROLE names, so that renaming a private item does not
change any verdict.  Role names coincide with today's identifiers, which keeps reports readable."""
import re
from . import core, summ
from .core import op_place, callgraph

ENC_WORK = 'rate::encoder_work::EncoderWork'
DEC_WORK = 'rate::decoder_work::DecoderWork'
SIDES = {'enc': dict(work=ENC_WORK, trait='rate::RateEncoder', result='encoder_result::EncoderResult', run='encode',
                     accessor_pub='recovery', iter_adt='encoder_result::Recovery'),
         'dec': dict(work=DEC_WORK, trait='rate::RateDecoder', result='decoder_result::DecoderResult', run='decode',
                     accessor_pub='restored_original', iter_adt='decoder_result::RestoredOriginal')}


class Roles:
    def __init__(self, facts):
        self.facts = facts
        self.fn = {}          # role -> fn path
        self.fields = {}      # side -> {actual field name -> role name}
        self.params = {}      # fn path -> {actual param name -> role name}
        self.problems = []
        self.store_adt = None
        self._discover()

    # ------------------------------------------------------------------ helpers
    def dedicated_impls(self, trait, name):
        out = []
        for p, f in sorted(self.facts.fns.items()):
            if f.impl_trait == trait and f.name == name and f.impl_self_adt and not f.impl_self_adt.startswith('rate::rate_default'):
                out.append(f)
        return out

    def work_callees(self, fn, work_adt):
        out = []
        for b, t in fn.body.calls():
            q = t['callee'].get('path')
            g = self.facts.fns.get(q)
            if g is not None and g.impl_self_adt == work_adt:
                out.append((b, t, g))
        return out

    def unique(self, role, cands, why):
        cands = sorted(set(cands))
        if len(cands) == 1:
            self.fn[role] = cands[0]
        else:
            self.problems.append('cannot identify %s (%s): candidates %s' % (role, why, cands))

    # ------------------------------------------------------------------ discovery
    def _discover(self):
        facts = self.facts
        S = summ.summaries(facts)
        for side, sp in SIDES.items():
            work = sp['work']
            adt = facts.adts.get(work)
            if adt is None:
                self.problems.append('public type %s not found' % work)
                continue
            ftypes = {fl['name']: fl['ty'] for v in adt['variants'] for fl in v['fields']}
            # add functions: work callees of the dedicated add_* trait methods
            kinds = ('original',) if side == 'enc' else ('original', 'recovery')
            for kind in kinds:
                c = []
                for f in self.dedicated_impls(sp['trait'], 'add_%s_shard' % kind):
                    c += [g.path for (_, _, g) in self.work_callees(f, work)]
                self.unique('%s.add_%s' % (side, kind), c, 'work method called by %s::add_%s_shard' % (sp['trait'], kind))
            # begin / undo: work callees of encode/decode
            begins, undos = [], []
            for f in self.dedicated_impls(sp['trait'], sp['run']):
                for (_, _, g) in self.work_callees(f, work):
                    if 'ShardsRefMut' in (g.output or '') or (g.output or '').startswith('std::result::Result<'):
                        begins.append(g.path)
                    elif g.inputs == ['&mut ' + work] and (g.output in ('()', None)):
                        undos.append(g.path)
            self.unique('%s.begin' % side, begins, 'work method returning the ShardsRefMut to %s' % sp['run'])
            self.unique('%s.undo' % side, undos, 'work method (&mut self) called by %s after the transforms' % sp['run'])
            # accessor: callee of the public result accessor
            acc = []
            for p, f in facts.fns.items():
                if f.impl_self_adt == sp['result'] and f.name == sp['accessor_pub'] and not f.impl_trait:
                    acc += [g.path for (_, _, g) in self.work_callees(f, work)]
            self.unique('%s.accessor' % side, acc, 'work method behind %s::%s' % (sp['result'], sp['accessor_pub']))
            # implicit reset: work callee of Drop
            rr = []
            for p, f in facts.fns.items():
                if f.impl_trait == 'std::ops::Drop' and f.impl_self_adt == sp['result']:
                    rr += [g.path for (_, _, g) in self.work_callees(f, work)]
            self.unique('%s.reset_received' % side, rr, 'work method called by Drop of %s' % sp['result'])
            # explicit reset: work method with >= 4 inputs reachable from the dedicated reset
            cg = callgraph(facts)
            full = []
            for f in self.dedicated_impls(sp['trait'], 'reset'):
                seen, _ = cg.reachable([f.path])
                full += [q for q in seen if facts.fns[q].impl_self_adt == work and len(facts.fns[q].inputs) >= 4 and facts.fns[q].inputs[0].startswith('&mut ')]
            full = sorted(set(full))
            if len(full) > 1:
                # phases of the reset split into helpers: the role is the method that calls the others
                below = set()
                for q in full:
                    seen, _ = cg.reachable([q])
                    below |= {x for x in seen if x != q and x in full}
                full = [q for q in full if q not in below]
            self.unique('%s.reset' % side, full, 'work method with the configuration parameters reached from %s::reset' % sp['trait'])
            # getters used by the iterator (decoder: original_count())
            # store type: the crate ADT among the field types
            stores = [t for t in ftypes.values() if t in facts.adts]
            if len(stores) == 1:
                self.store_adt = stores[0]
            elif self.store_adt is None:
                self.problems.append('cannot identify the shard store field of %s (%s)' % (work, stores))
            self._field_roles(side, sp, ftypes)
        # fallback for the re-packing method when it is not called directly from encode/decode
        for side, sp in SIDES.items():
            role = '%s.undo' % side
            if role not in self.fn and self.store_adt:
                c = []
                for p, f in facts.fns.items():
                    # (`encode_end(&mut self) -> EncoderResult`: the re-packing and the construction of the result in one method)
                    if f.impl_self_adt == sp['work'] and f.inputs == ['&mut ' + sp['work']] \
                            and (f.output in ('()', None) or (f.output or '').split('<')[0] == sp['result']):
                        for b, t in f.body.calls():
                            g = facts.fns.get(t['callee'].get('path'))
                            if g is not None and g.impl_self_adt == self.store_adt and len(t['args']) >= 3:
                                c.append(p)
                self.problems = [x for x in self.problems if role not in x]
                self.unique(role, c, 'work method (&mut self) that re-packs a range of the shard store')
        self._store_roles()
        self._param_roles()

    def _field_roles(self, side, sp, ftypes):
        facts = self.facts
        fmap = {}
        work = sp['work']
        # by type
        for n, t in ftypes.items():
            if t == 'fixedbitset::FixedBitSet':
                fmap[n] = 'received'
            elif t == self.store_adt:
                fmap[n] = 'shards'
        # configuration fields: assigned in the explicit reset from the parameter at position 1,2,3
        full = self.fn.get('%s.reset' % side)
        if full:
            f = facts.fns[full]
            pn = f.param_names()
            pos_role = {1: 'original_count', 2: 'recovery_count', 3: 'shard_bytes'}
            if side == 'dec':
                pos_role.update({4: 'original_base_pos', 5: 'recovery_base_pos'})
            try:
                rp = self._reset_param_roles(side)
                pos_role = {i: r for i, r in rp.items() if r not in ('self', 'work_count')}
                self.reset_param_roles = getattr(self, 'reset_param_roles', {})
                self.reset_param_roles[side] = rp
            except Exception as e:
                self.problems.append('reset parameter roles of %s by flow failed: %s: %s' % (side, type(e).__name__, e))
            def param_assigns(g, tr, depth):
                """(field, position of the reset parameter) for `self.f = <param>` in g; tr maps g's parameter names to
                reset's parameter names (helpers called on self with plain parameters as arguments are followed)"""
                for bb in g.body.blocks:
                    for st in bb['stmts']:
                        if st['k'] == 'assign' and st['lhs']['l'] == 1 and len(st['lhs']['p']) == 2 and st['lhs']['p'][0] == '*':
                            fld = st['lhs']['p'][1].get('f')
                            c = g.body.canon_rv(st['rv'])
                            if c[0] == 'param' and tr.get(c[1]) in pn:
                                yield fld, pn.index(tr[c[1]])
                if depth >= 2:
                    return
                for b, t in g.body.calls():
                    h = facts.fns.get(t['callee'].get('path'))
                    if h is None or h.impl_self_adt != work or h.path == g.path or not t['args']:
                        continue
                    if g.body.canon_op(t['args'][0]) not in (('param', 'self'), ('deref', ('param', 'self'))):
                        continue
                    hp = h.param_names()
                    tr2 = {}
                    for name, a in zip(hp[1:], t['args'][1:]):
                        c = g.body.canon_op(a)
                        if c[0] == 'param' and c[1] in tr:
                            tr2[name] = tr[c[1]]
                    for x in param_assigns(h, tr2, depth + 1):
                        yield x
            for fld, i in param_assigns(f, {n: n for n in pn if n}, 0):
                if i in pos_role and fld not in fmap:
                    fmap[fld] = pos_role[i]
        # counters: usize field incremented by the add function of that kind
        for kind in ('original', 'recovery'):
            a = self.fn.get('%s.add_%s' % (side, kind))
            if not a:
                continue
            f = facts.fns[a]
            for bb in f.body.blocks:
                for st in bb['stmts']:
                    if st['k'] == 'assign' and st['lhs']['l'] == 1 and len(st['lhs']['p']) == 2 and st['lhs']['p'][0] == '*':
                        fld = st['lhs']['p'][1].get('f')
                        c = f.body.canon_rv(st['rv'])
                        incr = core.norm_bin('Add', ('field', ('deref', ('param', 'self')), fld), ('const', 1))
                        if ftypes.get(fld) == 'usize' and fld not in fmap and c == incr:
                            fmap[fld] = '%s_received_count' % kind
        # sanity: decoder base positions cross-checked by usage in the add functions is done by the rules themselves
        self.fields[side] = fmap
        self.unknown_fields = getattr(self, 'unknown_fields', {})
        self.unknown_fields[side] = [n for n in ftypes if n not in fmap]

    def _reset_param_roles(self, side):
        """{parameter index of the explicit reset: role}.  Positional by default (the signature the crate has today); when the
        callers' arguments say otherwise -- the rate modules pass their own `original_count` / `recovery_count` / `shard_bytes`
        parameters in some other order, or grouped in private structs that the normalisations have split -- the roles follow the
        flow: a parameter is `original_count` if every call site gives it the caller's `original_count`, it is `work_count` if it
        is what the store's resize gets as shard count, and a decoder's base position by which add function adds it to the index."""
        facts = self.facts
        full = self.fn.get('%s.reset' % side)
        names = ['self', 'original_count', 'recovery_count', 'shard_bytes', 'original_base_pos', 'recovery_base_pos', 'work_count']
        if side == 'enc':
            names = ['self', 'original_count', 'recovery_count', 'shard_bytes', 'work_count']
        positional = {i: n for i, n in enumerate(names)}
        if not full:
            return positional
        f = facts.fns[full]
        pn = f.param_names()
        if len(pn) != len(names):
            positional = {i: n for i, n in enumerate(names) if i < len(pn)}
        sites = []
        for g in facts.fns.values():
            if g.impl_self_adt == f.impl_self_adt:
                continue
            for b, t in g.body.calls():
                if t['callee'].get('path') == full and len(t['args']) == len(pn):
                    sites.append([core.strip_var_ids(g.body.canon_op(a)) for a in t['args']])
        if not sites:
            return positional
        derived = {0: 'self'}
        for i in range(1, len(pn)):
            vals = {repr(sv[i]) for sv in sites}
            if len(vals) == 1:
                c = sites[0][i]
                if c[0] == 'param' and c[1] in ('original_count', 'recovery_count', 'shard_bytes'):
                    derived[i] = c[1]
        # work_count: the parameter handed to the store's resize as shard count
        fi = core.inlined_fn(facts, full, core.self_helper(f.impl_self_adt))
        for b, t in fi.body.calls():
            g = facts.fns.get(t['callee'].get('path'))
            if g is not None and g.impl_self_adt == self.store_adt and len(t['args']) >= 2 and 'resize' in g.name:
                c = core.strip_var_ids(fi.body.canon_op(t['args'][1]))
                if c[0] == 'param' and c[1] in pn:
                    derived[pn.index(c[1])] = 'work_count'
        if side == 'dec':
            # base positions: the field an add function adds to its index
            assigned = {}
            for bb in fi.body.blocks:
                for st in bb['stmts']:
                    if st['k'] == 'assign' and st['lhs']['l'] == 1 and len(st['lhs']['p']) == 2 and st['lhs']['p'][0] == '*':
                        c = core.strip_var_ids(fi.body.canon_rv(st['rv']))
                        if c[0] == 'param' and c[1] in pn:
                            assigned[st['lhs']['p'][1].get('f')] = pn.index(c[1])
            for kind in ('original', 'recovery'):
                a = self.fn.get('dec.add_%s' % kind)
                if not a:
                    continue
                ai = core.inlined_fn(facts, a, core.self_helper(f.impl_self_adt))
                apn = ai.param_names()
                for b, t in ai.body.calls():
                    if re.search(r'FixedBitSet::(set|insert|put)$', t['callee'].get('path') or '') and len(t['args']) >= 2:
                        c = core.strip_var_ids(ai.body.canon_op(t['args'][1]))
                        if c[0] == 'bin' and c[1] == 'Add':
                            for x, y in ((c[2], c[3]), (c[3], c[2])):
                                if x[0] == 'field' and x[1] == ('deref', ('param', 'self')) and y == ('param', apn[1] if len(apn) > 1 else '?') and x[2] in assigned:
                                    derived[assigned[x[2]]] = '%s_base_pos' % kind
        want = set(names)
        missing = want - set(derived.values())
        free = [i for i in range(len(pn)) if i not in derived]
        if len(missing) == 1 and len(free) == 1 and len(pn) == len(names):
            # one parameter the call sites do not agree on (or alter): it is the one role left; the rules then say what is
            # wrong with it (C06.d: the configuration handed over is not the caller's)
            derived[free[0]] = list(missing)[0]
        if set(derived.values()) == want and len(derived) == len(names):
            return derived
        return positional

    def _store_roles(self):
        facts = self.facts
        if not self.store_adt:
            return
        for role, src in (('store.insert', ['dec.add_original', 'enc.add_original']), ('store.undo', ['dec.undo', 'enc.undo']),
                          ('store.resize', ['dec.reset', 'enc.reset'])):
            c = []
            for r in src:
                p = self.fn.get(r)
                if p:
                    for b, t in core.inlined_fn(facts, p, core.self_helper(facts.fns[p].impl_self_adt)).body.calls():
                        g = facts.fns.get(t['callee'].get('path'))
                        if g is not None and g.impl_self_adt == self.store_adt and not g.impl_trait and g.inputs and g.inputs[0].startswith('&mut '):
                            c.append(g.path)
            self.unique(role, c, 'store method called by %s' % src)

    def _param_roles(self):
        facts = self.facts
        for role, p in self.fn.items():
            f = facts.fns[p]
            pn = f.param_names()
            m = {}
            if role in ('dec.add_original', 'dec.add_recovery') and len(pn) == 3:
                m = {pn[1]: 'index', pn[2]: role.split('_')[-1] + '_shard'}
            elif role == 'enc.add_original' and len(pn) == 2:
                m = {pn[1]: 'original_shard'}
            elif role.endswith('.accessor') and len(pn) == 2:
                m = {pn[1]: 'index'}
            elif role == 'store.insert' and len(pn) == 3:
                m = {pn[1]: 'index', pn[2]: 'shard'}
            elif role == 'store.undo' and len(pn) == 3:
                m = {pn[1]: 'shard_bytes', pn[2]: 'range'}
            elif role.endswith('.reset'):
                names = ['self', 'original_count', 'recovery_count', 'shard_bytes', 'original_base_pos', 'recovery_base_pos', 'work_count']
                if role.startswith('enc'):
                    names = ['self', 'original_count', 'recovery_count', 'shard_bytes', 'work_count']
                rp = getattr(self, 'reset_param_roles', {}).get(role[:3])
                if rp and len(rp) == len(pn):
                    names = [rp[i] for i in range(len(pn))]
                m = {a: b for a, b in zip(pn, names) if a}
            self.params[p] = m

    # ------------------------------------------------------------------ use
    def get(self, ctx, role, rid, cfg=None):
        p = self.fn.get(role)
        if p is None:
            why = [x for x in self.problems if role in x] or self.problems[:1] or ['?']
            ctx.violation(rid, 'role-missing:%s' % role, 'unrecognised idiom: %s' % why[0], fn=role, cfg=cfg)
            return None
        return self.facts.fns[p]

    def side_of(self, fnpath):
        f = self.facts.fns.get(fnpath)
        if f is None:
            return None
        return 'enc' if f.impl_self_adt == ENC_WORK else ('dec' if f.impl_self_adt == DEC_WORK else None)

    def norm(self, c, fnpath=None, side=None):
        """rename private field and parameter names of a canonical expression (MIR or HIR form) to role names"""
        side = side or self.side_of(fnpath)
        fmap = self.fields.get(side, {})
        pmap = self.params.get(fnpath, {}) if fnpath else {}

        def go(x):
            if not isinstance(x, tuple):
                return x
            if x and x[0] == 'field' and len(x) == 3 and isinstance(x[2], str):
                return ('field', go(x[1]), fmap.get(x[2], x[2]))
            if x and x[0] in ('param', 'local') and len(x) == 2 and x[1] in pmap:
                return (x[0], pmap[x[1]])
            if x and x[0] == 'var' and len(x) >= 2 and x[1] in pmap:
                return ('var', pmap[x[1]]) + tuple(x[2:])
            return tuple(go(y) for y in x)
        return go(c)

    def field(self, side, role):
        for a, r in self.fields.get(side, {}).items():
            if r == role:
                return a
        return role


def roles(facts):
    if not hasattr(facts, '_roles'):
        facts._roles = Roles(facts)
    return facts._roles
