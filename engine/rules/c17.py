"""C17 — working space is reused in place; rounds and non-growing resets never allocate."""
import re
from . import core
from .core import callgraph, op_place

EXPLANATION = (
    "Effect analysis over the resolved call graph (static calls + class-hierarchy expansion of Engine "
    "calls to every in-crate engine, dyn calls included). (a) From the per-round entry points (add_*, "
    "encode, decode of every rate and both wrappers, result accessors, iterators, result Drop) no call "
    "into the alloc crate / std::collections / fixedbitset growth is reachable, judged by resolved "
    "callee against an explicit allowlist of non-allocating functions; the one exception is "
    "LazyLock::deref (one-time table initialisation, not shard-proportional). (b) From reset/new the "
    "only may-allocate call sites are Vec::resize on the shard store and FixedBitSet::grow dominated by "
    "the `len < needed` test with the same operand. (c) The work object travels: new() stores the "
    "unwrapped Option parameter; the default-rate switch passes Some(work) and the engine taken from "
    "into_parts() of the old codec. (d) Result and iterator structs hold only references/scalars and "
    "accessors return borrowed slices (plus compile_fail witnesses in witness/).")
DECIDES = "no allocation on round paths; reset/hand-over allocate only through Vec::resize / guarded FixedBitSet::grow (which allocate only when more is needed than held, by their std/fixedbitset contracts)."
NOT_DECIDED = "the allocator behaviour inside Vec::resize and FixedBitSet::grow themselves (trusted contracts)."
TRUSTED = ["Vec::resize does not reallocate within capacity; FixedBitSet::grow allocates only when growing beyond capacity",
           "allowlist of non-allocating alloc/fixedbitset functions in engine/rules/c17.py"]
ASSUMPTIONS = ["a user-written Engine is outside the property (CHA covers in-crate engines)"]

ALLOW = [
    r'^<std::boxed::Box<T, A> as std::(convert::As(Ref|Mut)<T>|ops::Deref(Mut)?|borrow::Borrow(Mut)?<T>)>::',
    r'^<std::vec::Vec<T, A> as std::(convert::As(Ref|Mut)<\[T\]>|ops::Deref(Mut)?|ops::Index(Mut)?<I>|borrow::Borrow(Mut)?<\[T\]>)>::',
    r'^std::vec::Vec::<T(, A)?>::(len|is_empty|as_slice|as_mut_slice|as_ptr|as_mut_ptr|capacity|clear|truncate|new|first|last|get|get_mut|iter|iter_mut|split_at_mut|swap)$',
    r'^<fixedbitset::FixedBitSet as std::ops::Index<usize>>::index$',
    r'^fixedbitset::FixedBitSet::(clear|len|set|put|contains|insert|new|is_empty|count_ones|toggle|set_range|insert_range|ones|is_clear)$',
    r'^<&(mut )?std::vec::Vec<T, A> as std::iter::IntoIterator>::into_iter$',
    # read-only iteration over the set / unset bits: borrows the blocks, owns two words of state
    r"^fixedbitset::FixedBitSet::(zeroes|count_zeroes|minimum|maximum|is_full|as_slice|count_ones)$",
    r"^<fixedbitset::(Ones|Zeroes)<'a> as std::iter::(Iterator|DoubleEndedIterator)>::(next|next_back|size_hint)$",
]
ALLOW_RE = [re.compile(x) for x in ALLOW]
FORBID_STD = re.compile(r'^std::(collections|string|thread|io|fs|env|process|net|sync::(mpsc|Arc|Mutex|RwLock|Condvar|Barrier)|rc|ffi|path|time)\b|^<std::(collections|string)')
LAZY = re.compile(r'std::sync::LazyLock<T, F> as std::ops::Deref>::deref$|^std::sync::LazyLock::<T, F>::force$')


HEAP_TY = re.compile(r'^(std::vec::Vec<|std::boxed::Box<|std::string::String|std::collections::|std::rc::Rc<|std::sync::Arc<|fixedbitset::FixedBitSet|std::vec::IntoIter<)')


def may_allocate(facts, path, dest_ty=None):
    x = facts.externs.get(path)
    if x is None:
        return False
    if dest_ty and HEAP_TY.search(dest_ty) and not any(r.search(path) for r in ALLOW_RE) \
            and not re.search(r'^std::mem::(take|replace)|Option::<T>::(unwrap|expect|unwrap_or_default|take)$|^std::ops::(Try|FromResidual)|ControlFlow', path):
        return True     # an owning heap value is produced by a call that is not known to be non-allocating
    if x.get('diverges'):
        return False
    if LAZY.search(path):
        return False
    if any(r.search(path) for r in ALLOW_RE):
        return False
    if x['crate'] in ('alloc', 'fixedbitset', 'hashbrown'):
        return True
    if FORBID_STD.search(path):
        return True
    return False


def run(ctx):
    cfgs = ['x86_64'] if ctx.tier == 'quick' else ['x86_64', 'aarch64', 'i686']
    ctx.rule('C17.a-round-no-alloc', 'no may-allocate callee is reachable from a per-round entry point')
    ctx.rule('C17.b-reset-sites', 'reset/new reach only Vec::resize on the shard store and a guarded FixedBitSet::grow')
    ctx.rule('C17.c-work-travels', 'new() keeps the supplied work; the default-rate switch hands over engine and work from into_parts()')
    ctx.rule('C17.d-results-borrow', 'result/iterator structs hold references and scalars only; accessors return borrowed slices')
    ctx.rule('C17.a-stack-erasures', 'the 65536-entry erasure array is a stack local, not a heap allocation')
    ctx.rule('C17.f-bitmap-need-from-configuration', 'the received bitmap is asked to cover max(original_base_pos + original_count, recovery_base_pos + recovery_count) positions and nothing else: its need never exceeds that of a configuration with more positions (clause shared with C08.e)')
    from . import c08 as c08_
    ctx.guard('C17.analysable', ctx.shared, {'C08.e-space-for-every-position': 'C17.f-bitmap-need-from-configuration'}, c08_.bitmap_covers, ctx, ctx.facts(cfgs[0]), cfgs[0])
    ctx.rule('C17.e-exact-need', 'the store is resized to exactly ceil(shard_bytes / 64) blocks per shard and work_count shards: a configuration that needs no more than what is held never grows the allocation')
    ctx.rule('C17.g-working-space-stays-with-the-codec', 'a call that is rejected does not cost the codec its working space: no Err exit is reachable after the working space (or the inner codec holding it) was moved out of the object by mem::take / replace / swap and before it is stored back, so the next non-growing reset still finds the buffers (clause shared with C07.atomic, for these mutations)')
    from . import c07 as c07_
    moved_out = lambda key: re.match(r'call (take|replace|swap)::<', key) is not None
    ctx.guard('C17.analysable', ctx.shared, {'C07.atomic': 'C17.g-working-space-stays-with-the-codec'}, c07_.check_cfg, ctx, ctx.facts(cfgs[0]), cfgs[0], {'only': moved_out})
    for cfg in cfgs:
        facts = ctx.facts(cfg)
        ctx.guard('C17.analysable', check, ctx, facts, cfg)
        ctx.guard('C17.analysable', exact_need, ctx, facts, cfg)


ROUND_TRAIT_METHODS = {'rate::RateEncoder': ('add_original_shard', 'encode'),
                       'rate::RateDecoder': ('add_original_shard', 'add_recovery_shard', 'decode')}
RESET_TRAIT_METHODS = {'rate::RateEncoder': ('reset', 'new'), 'rate::RateDecoder': ('reset', 'new')}


def roots(facts, table, wrappers):
    out = []
    for p, f in facts.fns.items():
        if f.impl_trait in table and f.name in table[f.impl_trait]:
            out.append(p)
        if f.impl_self_adt in ('reed_solomon::ReedSolomonEncoder', 'reed_solomon::ReedSolomonDecoder') and f.name in wrappers:
            out.append(p)
    return out


def check(ctx, facts, cfg):
    cg = callgraph(facts)
    # ---------------- (a)
    rr = roots(facts, ROUND_TRAIT_METHODS, ('add_original_shard', 'add_recovery_shard', 'encode', 'decode'))
    for p, f in facts.fns.items():
        if f.impl_self_adt in ('encoder_result::EncoderResult', 'decoder_result::DecoderResult',
                               'encoder_result::Recovery', 'decoder_result::RestoredOriginal') and (f.reachable or f.impl_trait):
            rr.append(p)
    ctx.floor('C17.a-round-no-alloc', 28, len(rr), 'per-round entry points (cfg %s)' % cfg, cfg=cfg)
    seen, parent = cg.reachable(rr)
    nsites = 0
    for p in sorted(seen):
        for (b, q) in cg.ext_sites.get(p, ()):
            nsites += 1
            body0 = bodyof(facts, p)
            dty = body0.local_ty(body0.term(b)['dest']['l']) if body0 is not None and body0.term(b)['k'] == 'call' else None
            if may_allocate(facts, q, dty):
                body = bodyof(facts, p)
                line = body.term(b)['line'] if body else None
                ctx.violation('C17.a-round-no-alloc', 'alloc:%s' % core.short(q)[:70],
                              'may-allocate callee %s is reachable on a per-round path: %s' % (q, ' -> '.join(core.short(x) for x in cg.chain(parent, p))),
                              site=line, fn=p, cfg=cfg)
    for r in sorted(rr):
        ctx.ok('C17.a-round-no-alloc', '%s@%s' % (r, cfg), None)
    ctx.ok('C17.a-round-no-alloc', 'reachable@%s' % cfg, {'functions_reachable': len(seen), 'external_call_sites_examined': nsites,
                                                        'exception': 'LazyLock::deref (one-time table initialisation)'})
    # erasures array: local of type [u16; 65536] in decode fns, and no Box of it
    ne = 0
    for p, f in facts.fns.items():
        if f.impl_trait == 'rate::RateDecoder' and f.name == 'decode':
            arr = [i for i, l in enumerate(f.body.locals) if l['ty'] == '[u16; 65536]' and l.get('name')]
            boxed = [l['ty'] for l in f.body.locals if 'Box<[u16; 65536]>' in l['ty'] or 'Vec<u16>' in l['ty']]
            if arr and not boxed:
                ne += 1
                ctx.ok('C17.a-stack-erasures', '%s@%s' % (p, cfg), {'local': f.body.local_name(arr[0])})
            elif boxed:
                ctx.violation('C17.a-stack-erasures', 'heap-erasures', 'erasure table is heap-allocated (%s)' % boxed[0], site=f.span, fn=p, cfg=cfg)
    # ---------------- (b)
    rs = roots(facts, RESET_TRAIT_METHODS, ('reset', 'new'))
    ctx.floor('C17.b-reset-sites', 14, len(rs), 'reset/new entry points (cfg %s)' % cfg, cfg=cfg)
    stop_default_engine = lambda p: p.startswith('engine::engine_default::DefaultEngine::new') or p.startswith('engine::tables::')
    seen2, parent2 = cg.reachable(rs, stop=stop_default_engine)
    allowed_found = {'resize': 0, 'grow': 0}
    for p in sorted(seen2):
        if stop_default_engine(p):
            continue
        body = bodyof(facts, p)
        for (b, q) in cg.ext_sites.get(p, ()):
            t = body.term(b)
            dty = body.local_ty(t['dest']['l']) if t['k'] == 'call' else None
            if not may_allocate(facts, q, dty):
                continue
            line = t['line']
            if q == 'std::vec::Vec::<T, A>::resize':
                recv = body.canon_op(t['args'][0])
                if is_self_field(recv):
                    allowed_found['resize'] += 1
                    ctx.ok('C17.b-reset-sites', '%s:Vec::resize@%s' % (p, cfg), {'site': line, 'receiver': core.show(recv)})
                    continue
                ctx.violation('C17.b-reset-sites', 'resize-not-on-store', 'Vec::resize on %s which is not a field of the work object' % core.show(recv),
                              site=line, fn=p, cfg=cfg)
                continue
            if q == 'fixedbitset::FixedBitSet::grow':
                recv = body.canon_op(t['args'][0])
                need = body.canon_op(t['args'][1])
                guarded = False
                for sb in range(body.n):
                    st = body.term(sb)
                    if st['k'] != 'switch':
                        continue
                    c = body.canon_op(st['discr'])
                    if c[0] == 'bin' and c[1] == 'Lt' and core.strip_var_ids(c[3]) == core.strip_var_ids(need) \
                            and c[2][0] == 'call' and c[2][1].endswith('FixedBitSet::len') and c[2][2] and same_obj(c[2][2][0], recv):
                        if body.edge_dominates((sb, st['otherwise']), b):
                            guarded = True
                if is_self_field(recv):
                    # FixedBitSet::grow(n) does nothing unless n > len() (fixedbitset contract): the explicit guard is optional
                    allowed_found['grow'] += 1
                    ctx.ok('C17.b-reset-sites', '%s:FixedBitSet::grow@%s' % (p, cfg), {'site': line, 'guard': ('len < %s' % core.show(need)) if guarded else 'none (grow is a no-op unless more is needed)'})
                else:
                    ctx.violation('C17.b-reset-sites', 'grow-foreign', 'FixedBitSet::grow on something that is not a field of the work object',
                                  site=line, fn=p, cfg=cfg)
                continue
            ctx.violation('C17.b-reset-sites', 'alloc:%s' % core.short(q)[:70],
                          'reset/new can reach may-allocate callee %s (only Vec::resize on the shard store and guarded FixedBitSet::grow reuse held space): %s'
                          % (q, ' -> '.join(core.short(x) for x in cg.chain(parent2, p))), site=line, fn=p, cfg=cfg)
    ctx.floor('C17.b-reset-sites', 1, allowed_found['resize'], 'Vec::resize sites on the shard store', cfg=cfg)
    ctx.floor('C17.b-reset-sites', 1, allowed_found['grow'], 'FixedBitSet::grow sites on the work object', cfg=cfg)

    # ---------------- (c)
    ncons = 0
    for p, f in sorted(facts.fns.items()):
        samefile = lambda g, t, f0=f: (not g.reachable and not g.impl_trait and not g.in_trait and g.kind != 'Closure' and g.file == f0.file)
        if f.impl_trait in ('rate::RateEncoder', 'rate::RateDecoder') and f.name == 'new':
            body = core.inlined_fn(facts, p, samefile, tag='c17').body     # private constructor helpers analysed in place
            live0 = body.reachable_from(0, removed_edges=body.const_pruned_edges())
            if 'rate_default' in p or (f.impl_self_adt or '').startswith('rate::rate_default'):
                # delegates: every dedicated new() receives the `work` and `engine` params unchanged
                for b, t in body.calls():
                    k = t['callee'].get('key') or ''
                    if re.search(r'as rate::Rate(En|De)coder<E>>::new$', k) and b in live0:
                        eng, wk = body.canon_op(t['args'][3]), body.canon_op(t['args'][4])
                        if eng == ('param', 'engine') and wk == ('param', 'work'):
                            ncons += 1
                            ctx.ok('C17.c-work-travels', '%s->%s@%s' % (p, core.short(k), cfg), None)
                        else:
                            ctx.violation('C17.c-work-travels', 'default-new-drops-work', 'default-rate new() passes (%s, %s) instead of its own (engine, work)' % (core.show(eng), core.show(wk)),
                                          site=t['line'], fn=p, cfg=cfg)
                continue
            # dedicated: returned struct's `work` field is unwrap_or_default(param work)
            okc = False
            for bb in range(body.n):
                for st in body.blocks[bb]['stmts']:
                    if st['k'] == 'assign' and st['rv']['k'] == 'agg' and st['rv'].get('adt') == f.impl_self_adt:
                        fields = dict(zip(st['rv']['fields'], st['rv']['ops']))
                        w = body.canon_op(fields.get('work')) if 'work' in fields else None
                        e = body.canon_op(fields.get('engine')) if 'engine' in fields else None
                        if w is not None and w[0] == 'var':
                            # named local `work`: its definition
                            ds = [d for d in body.defs().get(w[2], []) if d[0] == 'call']
                            if len(ds) == 1:
                                tt = body.term(ds[0][1])
                                src = body.canon_op(tt['args'][0]) if tt['args'] else None
                                # unwrap_or_default / unwrap_or_else(f): the Some payload is what comes out, the alternative is only
                                # built when there is none (unwrap_or(x) builds x in any case: not accepted)
                                if re.search(r'Option::<T>::(unwrap_or_default|unwrap_or_else)(::<.*>)?$', tt['callee'].get('path') or '') and src == ('param', 'work'):
                                    okc = True
                        if w is not None and w[0] == 'call' and re.search(r'(unwrap_or_default|unwrap_or_else)(::<.*>)?$', w[1]) and w[2][0] == ('param', 'work'):
                            okc = True
                        if e != ('param', 'engine'):
                            okc = False
            if okc:
                ncons += 1
                ctx.ok('C17.c-work-travels', '%s@%s' % (p, cfg), {'work': 'work.unwrap_or_default() of the parameter'})
            else:
                ctx.violation('C17.c-work-travels', 'new-drops-work', 'new() does not store the supplied working space (Option parameter unwrapped) in the codec it returns',
                              site=f.span, fn=p, cfg=cfg)
        if f.impl_trait in ('rate::RateEncoder', 'rate::RateDecoder') and f.name == 'reset' and (f.impl_self_adt or '').startswith('rate::rate_default'):
            body = core.inlined_fn(facts, p, samefile, tag='c17').body
            live0 = body.reachable_from(0, removed_edges=body.const_pruned_edges())
            nsw = 0
            for b, t in body.calls():
                k = t['callee'].get('key') or ''
                if re.search(r'as rate::Rate(En|De)coder<E>>::new$', k) and b in live0:
                    eng, wk = body.canon_op(t['args'][3]), body.canon_op(t['args'][4])
                    src_e = eng[1] if eng[0] == 'field' else None
                    some = wk[0] == 'adt' and wk[2] == 'Some'
                    src_w = wk[3][0][1] if some else None
                    src_w_call = src_w[1] if (src_w and src_w[0] == 'field') else None
                    def from_parts(c):
                        """root local of a field chain whose every definition is a call of into_parts()"""
                        while isinstance(c, tuple) and c and c[0] in ('field', 'down', 'ref', 'deref'):
                            c = c[1]
                        if isinstance(c, tuple) and c and c[0] in ('var', 'tmp'):
                            l = c[-1]
                            ds = body.defs().get(l, [])
                            if ds and all(d[0] == 'call' and (body.term(d[1])['callee'].get('path') or '').endswith('::into_parts') for d in ds):
                                return ('parts', l)
                        return None
                    fe, fw_ = from_parts(eng), from_parts(src_w) if some else None
                    if some and fe is not None and fe == fw_:
                        nsw += 1
                        ctx.ok('C17.c-work-travels', '%s:switch->%s@%s' % (p, core.short(k), cfg), {'from': 'into_parts() of whichever codec was taken out'})
                        continue
                    if some and src_e and src_w_call and src_e == src_w_call and src_e[0] == 'call' and src_e[1].endswith('::into_parts'):
                        nsw += 1
                        ctx.ok('C17.c-work-travels', '%s:switch->%s@%s' % (p, core.short(k), cfg), {'from': core.short(src_e[1])})
                    else:
                        ctx.violation('C17.c-work-travels', 'switch-drops-work', 'rate switch builds the other codec with (%s, %s) instead of the engine and Some(work) from into_parts() of the old one'
                                      % (core.show(eng)[:80], core.show(wk)[:80]), site=t['line'], fn=p, cfg=cfg)
            ctx.floor('C17.c-work-travels', 2, nsw, 'rate-switch constructions in %s' % p, cfg=cfg)
    ctx.floor('C17.c-work-travels', 8, ncons, 'constructors keeping the supplied work', cfg=cfg)

    # ---------------- (d)
    for adt_p in ('encoder_result::EncoderResult', 'decoder_result::DecoderResult', 'encoder_result::Recovery', 'decoder_result::RestoredOriginal'):
        adt = facts.adts.get(adt_p)
        if adt is None:
            ctx.violation('C17.d-results-borrow', 'anchor-missing', 'anchor missing: %s' % adt_p, fn=adt_p, cfg=cfg)
            continue
        bad = [(fl['name'], fl['ty']) for v in adt['variants'] for fl in v['fields']
               if not plain_or_borrowed(fl['ty'])]
        if bad:
            ctx.violation('C17.d-results-borrow', 'owning-field', '%s owns data in field(s) %s: results must borrow the working space' % (adt_p, bad),
                          site=adt['span'], fn=adt_p, cfg=cfg)
        else:
            ctx.ok('C17.d-results-borrow', '%s@%s' % (adt_p, cfg), {'fields': [(fl['name'], fl['ty']) for v in adt['variants'] for fl in v['fields']]})
    from . import roles as roles_mod
    RL = roles_mod.roles(facts)
    for p in ('encoder_result::EncoderResult::<\'_>::recovery', 'decoder_result::DecoderResult::<\'_>::restored_original',
              RL.fn.get('enc.accessor') or 'enc.accessor', RL.fn.get('dec.accessor') or 'dec.accessor'):
        f = ctx.anchor(facts, p, 'C17.d-results-borrow')
        if f is None:
            continue
        if f.output == 'std::option::Option<&[u8]>':
            ctx.ok('C17.d-results-borrow', '%s@%s' % (p, cfg), {'returns': f.output})
        else:
            ctx.violation('C17.d-results-borrow', 'owned-return', '%s returns %s instead of a borrowed slice' % (p, f.output), site=f.span, fn=p, cfg=cfg)


def bodyof(facts, p):
    if p in facts.fns:
        return facts.fns[p].body
    if p in facts.statics:
        return facts.statics[p]['body']
    return None


def is_self_field(c):
    while isinstance(c, tuple) and c and c[0] in ('ref',):
        c = c[1]
    return isinstance(c, tuple) and c[0] == 'field' and (c[1] == ('deref', ('param', 'self')) or c[1] == ('param', 'self'))


def same_obj(a, b):
    def norm(c):
        while isinstance(c, tuple) and c and c[0] == 'ref':
            c = c[1]
        return core.strip_var_ids(c)
    return norm(a) == norm(b)


SCALARS = ('bool', 'usize', 'u8', 'u16', 'u32', 'u64', 'isize', 'i8', 'i16', 'i32', 'i64', 'char', '()')


def plain_or_borrowed(ty):
    """types that own no heap data: references, scalars, and Option / tuples / ranges of those"""
    ty = ty.strip()
    if ty.startswith('&') or ty in SCALARS:
        return True
    m = re.match(r'^(?:std|core)::option::Option<(.*)>$', ty) or re.match(r'^(?:std|core)::ops::Range(?:Inclusive|From|To)?<(.*)>$', ty)
    if m:
        return plain_or_borrowed(m.group(1))
    if ty.startswith('(') and ty.endswith(')'):
        parts, depth, cur = [], 0, ''
        for ch in ty[1:-1]:
            if ch in '<([':
                depth += 1
            elif ch in '>)]':
                depth -= 1
            if ch == ',' and depth == 0:
                parts.append(cur)
                cur = ''
            else:
                cur += ch
        if cur.strip():
            parts.append(cur)
        return all(plain_or_borrowed(x) for x in parts)
    return False


def exact_need(ctx, facts, cfg):
    """C17.e: the arguments the explicit reset gives to the store's resize are (work_count, ceil(shard_bytes / 64)), and the
    store allocates count * len blocks"""
    from . import roles as roles_mod
    R = 'C17.e-exact-need'
    RL = roles_mod.roles(facts)
    n = 0
    private = lambda g, t: not g.reachable and not g.impl_trait and not g.in_trait and g.kind != 'Closure'

    def strip(c):
        if isinstance(c, tuple) and c and c[0] == 'checked':
            return strip(c[1])
        if isinstance(c, tuple) and c and c[0] == 'call':
            return ('call', c[1], tuple(strip(x) for x in c[2]))
        if isinstance(c, tuple):
            return tuple(strip(x) for x in c)
        return c

    def layout_need(body, call_blk, a1):
        """a1 is next_power_of_two(max(original_base_pos + original_count, recovery_base_pos + recovery_count)) over the fields
        of self, and the writes of this reset to those four fields come before the resize on every path"""
        from .c05 import lin
        x = strip(a1)
        if not (isinstance(x, tuple) and x[0] == 'call' and str(x[1]).endswith('next_power_of_two') and len(x[2]) == 1):
            return False
        m = x[2][0]
        if not (isinstance(m, tuple) and m[0] == 'call' and re.search(r'(^|::)max(::<.*>)?$', str(m[1])) and len(m[2]) == 2):
            return False
        SELF = ('deref', ('param', 'self'))
        F = lambda r: ('field', SELF, r)
        want = {repr(lin(('bin', 'Add', F('original_base_pos'), F('original_count')))), repr(lin(('bin', 'Add', F('recovery_base_pos'), F('recovery_count'))))}
        if {repr(lin(m[2][0])), repr(lin(m[2][1]))} != want:
            return False
        fmap = {a_: r_ for a_, r_ in RL.fields.get('dec', {}).items()}
        need = {'original_base_pos', 'original_count', 'recovery_base_pos', 'recovery_count'}
        for bi in range(body.n):
            for st in body.blocks[bi]['stmts']:
                if st['k'] == 'assign' and st['lhs']['l'] == 1 and len(st['lhs']['p']) == 2 and st['lhs']['p'][0] == '*' and isinstance(st['lhs']['p'][1], dict):
                    role = fmap.get(st['lhs']['p'][1].get('f'), st['lhs']['p'][1].get('f'))
                    if role in need and (bi == call_blk or body.dominates(bi, call_blk)):
                        need.discard(role)
        return not need

    def is_len(c):
        return c in (('param', 'shard_bytes'), ('field', ('deref', ('param', 'self')), 'shard_bytes'))

    def is_ceil64(c):
        c = strip(c)
        if c[0] == 'call' and str(c[1]).endswith('::div_ceil') and len(c[2]) == 2 and is_len(c[2][0]) and c[2][1] == ('const', 64):
            return True
        if c[0] == 'bin' and ((c[1] == 'Div' and c[3] == ('const', 64)) or (c[1] == 'Shr' and c[3] == ('const', 6))):
            a = c[2]
            if a[0] == 'bin' and a[1] == 'Add' and ((is_len(a[2]) and a[3] == ('const', 63)) or (is_len(a[3]) and a[2] == ('const', 63))):
                return True
        return False
    # what the store's resize makes of its two parameters: the new Vec length as an expression over them
    store_len = None
    rz0 = RL.fn.get('store.resize')
    if rz0:
        f0 = core.inlined_fn(facts, rz0, private, tag='need')
        b0 = f0.body
        flds0 = {}
        for blk in b0.blocks:
            for st in blk['stmts']:
                if st['k'] == 'assign' and st['lhs']['l'] == 1 and len(st['lhs']['p']) == 2 and st['lhs']['p'][0] == '*':
                    flds0[st['lhs']['p'][1].get('f')] = strip(core.strip_var_ids(b0.canon_rv(st['rv'])))

        def res0(x, seen=()):
            # a field stands for what it was assigned -- unless that value depends on the field's old content
            # (`self.len = self.len.max(len)`: the stored value is not a function of the parameters alone)
            if isinstance(x, tuple) and x and x[0] == 'field' and x[1] == ('deref', ('param', 'self')) and x[2] in flds0 and x[2] not in seen:
                return res0(flds0[x[2]], seen + (x[2],))
            if isinstance(x, tuple):
                return tuple(res0(y, seen) for y in x)
            return x
        for bb, t in b0.calls():
            if re.search(r'Vec::<.*>::resize$', t['callee'].get('path') or ''):
                store_len = (res0(strip(core.strip_var_ids(b0.canon_op(t['args'][1])))), f0.param_names())
    composite_ok = set()
    def composite(sl, a1, a2):
        """store length with the caller's arguments put in = work_count * ceil(shard_bytes / 64)"""
        if sl is None or len(sl[1]) != 3:
            return False
        sub = {sl[1][1]: strip(a1), sl[1][2]: strip(a2)}

        def sb(x):
            if isinstance(x, tuple) and x and x[0] == 'param' and x[1] in sub:
                return sub[x[1]]
            if isinstance(x, tuple):
                return tuple(sb(y) for y in x)
            return x
        c = sb(sl[0])
        if not (isinstance(c, tuple) and c and c[0] == 'bin' and c[1] == 'Mul'):
            return False
        for x, y in ((c[2], c[3]), (c[3], c[2])):
            if x == ('param', 'work_count') and is_ceil64(y):
                return True
        return False
    for side in ('enc', 'dec'):
        rp = RL.get(ctx, side + '.reset', R, cfg)
        rz = RL.get(ctx, 'store.resize', R, cfg)
        if rp is None or rz is None:
            continue
        fn = core.inlined_fn(facts, rp.path, lambda g, t, rzp=rz.path: private(g, t) and g.path != rzp, tag='need')
        body = fn.body
        calls = [(b, t) for b, t in body.calls() if t['callee'].get('path') == rz.path]
        if len(calls) != 1:
            ctx.violation(R, 'resize-calls:%s' % side, '%s calls the store resize %d times, expected once' % (rp.path, len(calls)), site=rp.span, fn=rp.path, cfg=cfg)
            continue
        t = calls[0][1]
        a1 = RL.norm(core.strip_var_ids(body.canon_op(t['args'][1])), rp.path)
        a2 = RL.norm(core.strip_var_ids(body.canon_op(t['args'][2])), rp.path)
        n += 1
        if strip(a1) != ('param', 'work_count') and layout_need(body, calls[0][0], a1):
            # the reset works the need out itself: the smallest power of two that holds every position it has just configured
            if not is_ceil64(a2):
                ctx.violation(R, 'blocks-per-shard:%s' % side, '%s resizes the store to %s blocks per shard; only ceil(shard_bytes / 64) is exactly what a shard needs' % (rp.path, core.show(a2)), site=t['line'], fn=rp.path, cfg=cfg)
            else:
                ctx.ok(R, '%s@%s' % (rp.path, cfg), {'shards': core.show(a1), 'blocks_per_shard': core.show(a2), 'note': 'need computed from the configured layout'})
        elif strip(a1) != ('param', 'work_count'):
            ctx.violation(R, 'shard-count:%s' % side, '%s resizes the store to %s shards, not to its work_count parameter' % (rp.path, core.show(a1)), site=t['line'], fn=rp.path, cfg=cfg)
        elif not is_ceil64(a2) and composite(store_len, a1, a2):
            # the store takes the byte length and rounds it up itself: judged on the composition
            composite_ok.add(side)
            ctx.ok(R, '%s@%s' % (rp.path, cfg), {'shards': core.show(a1), 'bytes_per_shard': core.show(a2), 'store_allocates': core.show(store_len[0])})
        elif not is_ceil64(a2):
            ctx.violation(R, 'blocks-per-shard:%s' % side, '%s resizes the store to %s blocks per shard; only ceil(shard_bytes / 64) (div_ceil(64) or (n + 63) / 64) is exactly what a shard needs: '
                          'more makes equal-need configurations outgrow the allocation, less loses the tail' % (rp.path, core.show(a2)), site=t['line'], fn=rp.path, cfg=cfg)
        else:
            ctx.ok(R, '%s@%s' % (rp.path, cfg), {'shards': core.show(a1), 'blocks_per_shard': core.show(a2)})
    # the store: len = count * len_64, both stored verbatim
    rz = RL.fn.get('store.resize')
    if rz:
        f = core.inlined_fn(facts, rz, private, tag='need')
        b = f.body
        pn = f.param_names()
        good = False
        for bb, t in b.calls():
            if re.search(r'Vec::<.*>::resize$', t['callee'].get('path') or ''):
                c = strip(core.strip_var_ids(b.canon_op(t['args'][1])))
                fields = {}
                for blk in b.blocks:
                    for st in blk['stmts']:
                        if st['k'] == 'assign' and st['lhs']['l'] == 1 and len(st['lhs']['p']) == 2 and st['lhs']['p'][0] == '*':
                            fields[st['lhs']['p'][1].get('f')] = strip(core.strip_var_ids(b.canon_rv(st['rv'])))

                def val(x):
                    # a field read after it was assigned from a parameter stands for that parameter
                    if x[0] == 'field' and x[1] == ('deref', ('param', 'self')) and fields.get(x[2], ('?',))[0] == 'param':
                        return fields[x[2]]
                    return x
                if c[0] == 'bin' and c[1] == 'Mul' and len(pn) == 3 and {val(c[2]), val(c[3])} == {('param', pn[1]), ('param', pn[2])}:
                    good = True
                    ctx.ok(R, '%s@%s' % (rz, cfg), {'new_len': core.show(c)})
                elif composite_ok == {'enc', 'dec'}:
                    good = True
                    ctx.ok(R, '%s@%s' % (rz, cfg), {'new_len': core.show(c), 'judged': 'composed with both callers: work_count * ceil(shard_bytes / 64)'})
                else:
                    ctx.violation(R, 'store-len', 'the store is resized to %s blocks, not to shard_count * shard_len_64 of its parameters' % core.show(c), site=t['line'], fn=rz, cfg=cfg)
                    good = True
        if not good:
            ctx.violation(R, 'store-len:no-resize', 'the store resize does not resize its Vec', fn=rz, cfg=cfg)
    ctx.floor(R, 2, n, 'resize call sites in the explicit resets', cfg=cfg)
