"""C04 — every even shard size works and symbol slots never interact (structural part)."""
import re
from . import core, c12, c05, resetrules, roles as roles_mod, summ
from .core import hcanon, hshow, op_place

EXPLANATION = (
    "Un-encode / slicing discipline. (a) results are cut to exactly self.shard_bytes (accessor rule shared with C12) "
    "and shard_bytes is written only by the explicit reset from its parameter. (b) in each of the four codec functions "
    "the final-block re-packing (undo_last_chunk_encoding) is called exactly once, is not in a loop, dominates the Ok "
    "exit that follows the transforms, no transform (Engine::fft/ifft/mul, *_skew_end, xor_within, formal_derivative, "
    "copy_within) is reachable after it, and the nothing-to-restore Ok exit of the decoders does not pass it. "
    "(c) writer/reader agreement: the range re-packed equals the range the accessor can expose "
    "(encoder 0..recovery_count vs index < recovery_count at position index; decoder base..base+original_count vs "
    "position base+index), with the same shard_bytes. (d) Shards::insert and Shards::undo_last_chunk_encoding agree on "
    "the split of a partial final block (same half-block offset, same tail_len/2, tail_len = len % 64). "
    "(e) block pairing: every zip over 64-byte blocks pairs identically sliced operands, so block k is only ever "
    "combined with block k. (f) lane pairing in the scalar kernels: every index into a block is the loop variable or "
    "the loop variable + 32.")
DECIDES = "length of results; un-encode exactly once and last over exactly the exposed range; insert/undo split agreement; block- and lane-pairing of the scalar kernels."
NOT_DECIDED = "lane independence inside the SIMD shuffle kernels (bit-level arithmetic) and the resulting bytes."
TRUSTED = ["slice::copy_within / split_at semantics"]
ASSUMPTIONS = []

TRANSFORM_DECLS = {'engine::Engine::fft', 'engine::Engine::ifft', 'engine::Engine::mul'}
TRANSFORM_PATHS = {'engine::utils::fft_skew_end', 'engine::utils::ifft_skew_end', 'engine::utils::xor_within',
                   'engine::utils::formal_derivative', "engine::shards::ShardsRefMut::<'_>::copy_within"}


def run(ctx):
    cfgs = ['x86_64'] if ctx.tier == 'quick' else ['x86_64', 'aarch64', 'i686']
    ctx.rule('C12.a-accessor-atoms', 'accessor returns Some exactly under the documented condition and exposes the shard cut to shard_bytes')
    ctx.rule('C12.a-forwarding', 'public result methods forward to the work accessors')
    ctx.rule('C04.a-shard-bytes-writers', 'the shard_bytes field is written only by the explicit reset, from its parameter')
    ctx.rule('C04.b-unencode-once-last', 'undo_last_chunk_encoding is called exactly once, after every transform, before the Ok result; not on the nothing-to-do path')
    ctx.rule('C04.c-range-agreement', 'the range re-packed equals the range the accessor exposes')
    ctx.rule('C04.d-split-agreement', 'Shards::insert and Shards::undo_last_chunk_encoding agree on the split of a partial final block')
    ctx.rule('C04.e-block-pairing', 'every zip over 64-byte blocks pairs identically sliced operands')
    ctx.rule('C04.g-size-steers-nothing', 'above the shard store the shard size is only validated, stored, compared with a given shard and turned into a block count: no branch with two successful continuations depends on it (which code is used for a symbol slot cannot depend on how many slots a shard has)')
    ctx.rule('C04.f-lane-pairing', 'scalar kernels index blocks only with the loop variable or loop variable + 32')
    ctx.rule('C04.h-kernels-lane-wise', 'the SIMD kernels are straight-line lane-wise code (no decision taken on the content of a whole block) and equal to their siblings: what happens to a symbol slot cannot depend on the other slots of its block (clause shared with C03.e)')
    ctx.rule('C04.i-padding-fully-zeroed', 'the rows a truncated transform treats as empty are zeroed as whole rows by the store (Shards zero over a range of rows), including the displaced high half of a short final block (clause shared with C05.c)')
    from . import c05 as c05_
    ctx.guard('C04.analysable', ctx.shared, {'C05.c-truncated-ifft-zeroed': 'C04.i-padding-fully-zeroed'}, c05_.ifft_rule, ctx, ctx.facts('x86_64'), 'x86_64')
    from . import c03
    ctx.guard('C04.analysable', ctx.shared, {'C03.e-kernel-siblings': 'C04.h-kernels-lane-wise'}, c03.kernel_siblings, ctx, {c: ctx.facts(c) for c in ('x86_64', 'aarch64')})
    for cfg in cfgs:
        facts = ctx.facts(cfg)
        ctx.guard('C04.analysable', c12.accessors, ctx, facts, cfg)
        ctx.guard('C04.analysable', shard_bytes_writers, ctx, facts, cfg)
        ctx.guard('C04.analysable', unencode, ctx, facts, cfg)
        ctx.guard('C04.analysable', range_agreement, ctx, facts, cfg)
        ctx.guard('C04.analysable', split_agreement, ctx, facts, cfg)
        ctx.guard('C04.analysable', block_pairing, ctx, facts, cfg)
        ctx.guard('C04.analysable', lane_pairing, ctx, facts, cfg)
        ctx.guard('C04.analysable', size_steers_nothing, ctx, facts, cfg)


def shard_bytes_writers(ctx, facts, cfg):
    R = 'C04.a-shard-bytes-writers'
    n = 0
    RL = roles_mod.roles(facts)
    for adt in resetrules.WORKS:
        side = 'enc' if adt == roles_mod.ENC_WORK else 'dec'
        sbf = RL.field(side, 'shard_bytes')
        rp = RL.fn.get(side + '.reset')
        cg = core.callgraph(facts)
        # private phases of the reset (helpers of the same object called only from it) are judged in place, inlined
        phases = set()
        if rp:
            rin = core.inlined_fn(facts, rp, core.self_helper(adt))
            phases = {q for q in getattr(rin, 'inlined', []) if cg.callers.get(q, set()) <= ({rp} | set(getattr(rin, 'inlined', [])))}
            for w in resetrules.write_sites(facts, rin.path):
                if w[0] == sbf:
                    n += 1
                    if w[1] == 'assign' and RL.norm(w[2], rp) == ('param', 'shard_bytes'):
                        ctx.ok(R, '%s@%s' % (rp, cfg), {'at': w[5]})
                    else:
                        ctx.violation(R, 'foreign-writer', '%s writes shard_bytes (%s), not from its parameter' % (rp, resetrules.describe(w)),
                                      site=w[5], fn=rp, cfg=cfg)
        for p, fn in sorted(facts.fns.items()):
            if fn.impl_self_adt != adt or p == rp or p in phases:
                continue
            for w in resetrules.write_sites(facts, p):
                if w[0] == sbf:
                    n += 1
                    ctx.violation(R, 'foreign-writer', '%s writes shard_bytes (%s) outside the explicit reset / not from the parameter' % (p, resetrules.describe(w)),
                                  site=w[5], fn=p, cfg=cfg)
    ctx.floor(R, 2, n, 'writers of shard_bytes', cfg=cfg)


def unencode(ctx, facts, cfg):
    R = 'C04.b-unencode-once-last'
    n = 0
    for p, _ in c05.CODEC_FNS:
        fn = ctx.anchor(facts, p, R)
        if fn is None:
            continue
        n += 1
        body = fn.body
        U, T = [], []
        RL = roles_mod.roles(facts)
        undo_paths = {RL.fn.get('enc.undo'), RL.fn.get('dec.undo')} - {None}
        if not undo_paths:
            ctx.violation(R, 'role-missing:undo', 'unrecognised idiom: %s' % (RL.problems[:1] or ['cannot identify the re-packing method of the work objects'])[0], fn=p, cfg=cfg)
            continue
        cg = core.callgraph(facts)
        reaches_undo = {}

        def reaches(q):
            if q not in reaches_undo:
                seen, _ = cg.reachable([q]) if q in facts.fns else (set(), None)
                reaches_undo[q] = bool(seen & undo_paths)
            return reaches_undo[q]
        for b, t in body.calls():
            q = t['callee'].get('path') or ''
            d = t['callee'].get('decl') or ''
            if q in undo_paths or (t['callee'].get('local') and q in facts.fns and reaches(q)):
                U.append((b, t))
            elif d in TRANSFORM_DECLS or q in TRANSFORM_PATHS or c05.transform_wrapper(facts, q) or is_transform(facts, body, t):
                T.append((b, t))
        errs, oks = core.result_exits(body)
        ok_blocks = [b for (b, k, d) in oks if k == 'ctor']
        problems = []
        if not U:
            problems.append('no call re-packs the final block (undo of the last-chunk encoding is never applied)')
        if not T:
            problems.append('no transform call found (unrecognised idiom)')
        if U and T:
            ublocks = {b for b, _ in U}
            tblocks = {b for b, _ in T}
            for ub, ut in U:
                recv = core.show(body.canon_op(ut['args'][0]))
                if (ut['callee'].get('path') in undo_paths) and ('self' not in recv or 'work' not in recv):
                    problems.append('undo is applied to %s, not self.work' % recv)
                if ub in reach_after(body, ub):
                    problems.append('the re-packing is inside a loop')
            main_ok, idle_ok = [], []
            for ob in ok_blocks:
                pre = any(ob in reach_after(body, tb) or ob == tb for tb in tblocks)
                (main_ok if pre else idle_ok).append(ob)
            if not main_ok:
                problems.append('no Ok exit follows the transforms')
            for ob in main_ok:
                lo, hi = count_on_paths(body, ob, ublocks)
                if hi == 0 or lo == 0:
                    problems.append('an Ok exit after the transforms is reachable without the re-packing')
                if hi is None or hi > 1:
                    problems.append('the final block can be re-packed %s times on a path to the Ok exit (%s): twice corrupts it'
                                    % ('several' if hi is None else hi, ', '.join('%s at %s' % (core.short(t['callee'].get('path') or '?'), t['line']) for b, t in U)))
                # after the (last) re-packing on the way to this exit no transform may run
                for ub in ublocks:
                    if ob in reach_after(body, ub) or ob == ub:
                        after = reach_after(body, ub)
                        late = [t for (b, t) in T if b in after and (ob in reach_after(body, b) or ob == b)]
                        if late:
                            problems.append('a transform (%s at %s) can run after the re-packing' % (core.short(late[0]['callee'].get('path') or late[0]['callee'].get('decl')), late[0]['line']))
            want_idle = 1 if 'Decoder' in p else 0
            if len(idle_ok) != want_idle:
                problems.append('%d Ok exits without transforms, expected %d' % (len(idle_ok), want_idle))
        if problems:
            for pb in sorted(set(problems)):
                ctx.violation(R, re.sub(r'[^A-Za-z_]+', '-', pb)[:70], '%s: %s' % (core.short(p), pb), site=fn.span, fn=p, cfg=cfg)
        else:
            ctx.ok(R, '%s@%s' % (core.short(p), cfg), {'repack_at': [t['line'] for b, t in U], 'transforms_before': len(T)})
    ctx.floor(R, 4, n, 'codec functions', cfg=cfg)
    # the work object's re-packing method itself: the store's un-encode runs on every path through it, or is skipped on the
    # configuration only (shard_bytes a multiple of 64 ...).  A skip decided by state the object keeps between calls (an
    # "already undone" flag armed in reset only) leaves the second round on the same object in the working layout.
    RL = roles_mod.roles(facts)
    su = RL.fn.get('store.undo')
    SELF = ('deref', ('param', 'self'))
    CONFIG = {'shard_bytes', 'original_count', 'recovery_count'}
    for role in ('enc.undo', 'dec.undo'):
        w = facts.fns.get(RL.fn.get(role) or '')
        if w is None or not su:
            continue
        wb = w.body
        ublocks = {b for b, t in wb.calls() if (t['callee'].get('path') or '') == su}
        if not ublocks:
            continue
        skipped = any(count_on_paths(wb, e, ublocks)[0] == 0 for e in wb.exits())
        if not skipped:
            ctx.ok(R, 'wrapper:%s@%s' % (role, cfg), {'store_undo_on_every_path': True})
            continue
        state = set()

        def scan(c):
            if isinstance(c, tuple):
                if c and c[0] == 'field' and c[1] == SELF and isinstance(c[2], str) and c[2] not in CONFIG:
                    state.add(c[2])
                if c and c[0] == 'call':
                    state.add('call:' + core.short(str(c[1])))
                for x in c:
                    scan(x)
        for b in range(wb.n):
            t = wb.term(b)
            if t['k'] == 'switch' and not wb.blocks[b]['cleanup']:
                scan(core.strip_var_ids(wb.canon_op(t['discr'])))
        if state:
            ctx.violation(R, 'repack-skipped-on-state:%s' % ','.join(sorted(state))[:80],
                          '%s: the un-encode of the store is skipped on a condition over %s, which is not the configuration: a later round on the same object can expose shards in the working layout'
                          % (core.short(w.path), ', '.join(sorted(state))), site=w.span, fn=w.path, cfg=cfg)
        else:
            ctx.ok(R, 'wrapper:%s@%s' % (role, cfg), {'store_undo_skipped_on_configuration_only': True})


def is_transform(facts, body, t):
    """a call that receives the work buffer (&mut ShardsRefMut / &mut [[u8; 64]]) and writes through it,
    other than plain zeroing"""
    q = t['callee'].get('path') or ''
    if q.endswith('::zero') or not t['callee'].get('local'):
        return False
    for a in t['args']:
        pl = op_place(a)
        if pl is None or pl['p']:
            continue
        ty = body.local_ty(pl['l'])
        if ty.startswith('&mut ') and ('ShardsRefMut' in ty or '[[u8; 64]]' in ty):
            g = facts.fns.get(q)
            if g is not None and not (g.impl_self_adt or '').endswith('ShardsRefMut'):
                return True
            if g is not None and g.name in ('copy_within',):
                return True
    return False


def count_on_paths(body, target, marked):
    """(min, max) number of marked blocks on paths entry -> target; max None if a cycle through a marked
    block is involved.  Back edges are ignored (loops contain no re-packing: checked separately)."""
    import functools, sys
    sys.setrecursionlimit(10000)
    reach_t = {b for b in range(body.n) if target in body.reachable_from(b)}
    memo = {}
    onstack = set()

    def go(b):
        if b == target:
            v = 1 if b in marked else 0
            return (v, v)
        if b in memo:
            return memo[b]
        if b in onstack:
            return None
        onstack.add(b)
        lo = hi = None
        for s2 in body.succs(b):
            if s2 not in reach_t:
                continue
            r = go(s2)
            if r is None:
                continue
            lo = r[0] if lo is None else min(lo, r[0])
            hi = r[1] if hi is None else max(hi, r[1])
        onstack.discard(b)
        if lo is None:
            memo[b] = None
            return None
        v = 1 if b in marked else 0
        memo[b] = (lo + v, hi + v)
        return memo[b]
    r = go(0)
    return r if r else (0, 0)


def reach_after(body, b):
    out = set()
    for s in body.succs(b):
        out |= body.reachable_from(s)
    return out


def store_keeps_configured_size(facts, RL, side):
    """True when (a) every field of the store that its un-encode method reads is assigned in the store's resize from an
    expression over resize's own parameters (and such fields) only, and (b) the work object's explicit reset calls that resize
    with arguments built from its own shard_bytes / work_count parameters only.  Otherwise a reason (str)."""
    SELF = ('deref', ('param', 'self'))
    und = facts.fns.get(RL.fn.get('store.undo') or '')
    rz = facts.fns.get(RL.fn.get('store.resize') or '')
    rs = facts.fns.get(RL.fn.get(side + '.reset') or '')
    if und is None or rz is None or rs is None:
        return 'its resize / un-encode / the reset were not identified'
    private = lambda g, t: not g.reachable and not g.impl_trait and not g.in_trait and g.kind != 'Closure'
    ub = core.inlined_fn(facts, und.path, private, tag='ksz').body
    reads = set()

    def fields_in(c):
        if isinstance(c, tuple):
            if c and c[0] == 'field' and c[1] == SELF and isinstance(c[2], str):
                reads.add(c[2])
            for x in c:
                fields_in(x)
    for blk in ub.blocks:
        if blk.get('cleanup'):
            continue
        for st in blk['stmts']:
            if st['k'] == 'assign':
                fields_in(core.strip_var_ids(ub.canon_rv(st['rv'])))
        if blk['term']['k'] == 'call':
            for a in blk['term']['args']:
                fields_in(core.strip_var_ids(ub.canon_op(a)))
    adt = facts.adts.get(RL.store_adt or '', {})
    ftys = {fl['name']: fl['ty'] for v in adt.get('variants', []) for fl in v['fields']}
    scalar = {f for f in reads if ftys.get(f) in ('usize', 'u32', 'u64')}
    rb = rz.body
    assigned = {}
    for blk in rb.blocks:
        for st in blk['stmts']:
            if st['k'] == 'assign' and st['lhs']['l'] == 1 and len(st['lhs']['p']) == 2 and st['lhs']['p'][0] == '*':
                assigned.setdefault(st['lhs']['p'][1].get('f'), []).append(core.strip_var_ids(rb.canon_rv(st['rv'])))

    def from_params(c, depth=0):
        if not isinstance(c, tuple):
            return True
        if c and c[0] == 'param':
            return c[1] != 'self'
        if c and c[0] == 'field':
            return c[1] == SELF and c[2] in assigned and depth < 3 and all(from_params(v, depth + 1) for v in assigned[c[2]])
        if c and c[0] in ('var',):
            return False
        return all(from_params(x, depth) for x in c[1:])
    for f in sorted(scalar):
        if f not in assigned:
            return 'field `%s`, which the re-packing reads, is never assigned in the resize' % f
        if not all(from_params(v) for v in assigned[f]):
            return 'field `%s` is assigned %s in the resize, not a function of its parameters' % (f, [core.show(v) for v in assigned[f]][:2])
    rsb = core.inlined_fn(facts, rs.path, lambda g, t, rzp=rz.path: private(g, t) and g.path != rzp, tag='ksz').body
    calls = [(b, t) for b, t in rsb.calls() if t['callee'].get('path') == rz.path]
    if len(calls) != 1:
        return 'the reset calls the resize %d times' % len(calls)
    names = set()
    for a in calls[0][1]['args'][1:]:
        c = RL.norm(core.strip_var_ids(rsb.canon_op(a)), rs.path)
        resetrules.collect_params(c, names)

        def selfreads(x):
            if isinstance(x, tuple):
                if x and x[0] == 'field' and x[1] == SELF:
                    names.add('self.' + str(x[2]))
                for y in x:
                    selfreads(y)
        selfreads(c)
    if not names <= {'shard_bytes', 'work_count', 'self.shard_bytes'}:
        return 'the reset sizes the store from %s' % sorted(names)
    return True


def range_agreement(ctx, facts, cfg):
    R = 'C04.c-range-agreement'
    SELF = ('deref', ('param', 'self'))
    RL = roles_mod.roles(facts)
    spec = {'enc': (None, 'recovery_count'), 'dec': ('original_base_pos', 'original_count')}
    for side, (base, count) in spec.items():
        fn = RL.get(ctx, side + '.undo', R, cfg)
        if fn is None:
            continue
        p = fn.path
        # a private helper that only builds the range (`self.original_range()`) is read in place
        body = core.inlined_fn(facts, p, lambda g, t: (not g.reachable and not g.impl_trait and g.kind != 'Closure'
                                                       and (g.output or '').startswith('std::ops::Range<')
                                                       and g.impl_self_adt == fn.impl_self_adt and not list(g.body.calls())), tag='c04c').body
        calls = [(b, t) for b, t in body.calls() if t['callee'].get('path') == RL.fn.get('store.undo')]
        if len(calls) != 1:
            ctx.violation(R, 'no-delegate', '%s does not call Shards::undo_last_chunk_encoding exactly once' % p, site=fn.span, fn=p, cfg=cfg)
            continue
        t = calls[0][1]
        own_size = None
        if len(t['args']) == 2:
            # the store keeps the byte length itself: fine when everything its re-packing reads is a function of what the latest
            # resize was given, and the reset gives it the configured shard_bytes (C04.d decides "rewritten on every path")
            own_size = store_keeps_configured_size(facts, RL, side)
        if len(t['args']) == 2 and own_size is True:
            sb = ('field', SELF, 'shard_bytes')
            rg = RL.norm(body.canon_op(t['args'][1]), p)
            problems = []
            if rg[0] != 'adt' or not rg[1].endswith('ops::Range'):
                problems.append('range argument is %s' % core.show(rg)[:80])
            else:
                d = dict(rg[3])
                b0 = ('const', 0) if base is None else ('field', SELF, base)
                if c05.lin(d.get('start')) != c05.lin(b0):
                    problems.append('range starts at %s, accessor exposes from %s' % (core.show(d.get('start')), core.show(b0)))
                if c05.lin(d.get('end')) != c05.lin(('bin', 'Add', b0, ('field', SELF, count))):
                    problems.append('range ends at %s, accessor exposes up to %s + self.%s' % (core.show(d.get('end')), core.show(b0), count))
            if problems:
                for pb in problems:
                    ctx.violation(R, re.sub(r'[^A-Za-z_]+', '-', pb)[:60], '%s: %s' % (p, pb), site=t['line'], fn=p, cfg=cfg)
            else:
                ctx.ok(R, '%s@%s' % (p, cfg), {'range': core.show(rg)[:100], 'size': 'kept by the store, set from shard_bytes at every resize'})
            continue
        if len(t['args']) != 3:
            if isinstance(own_size, str):
                ctx.note('%s: the store keeps its own size but %s' % (p, own_size))
            ctx.violation(R, 'delegate-signature', '%s no longer passes (shard_bytes, range) to Shards::undo_last_chunk_encoding: the size used for re-packing cannot be tied to the configured shard_bytes (a cached size goes stale on reset)' % p,
                          site=t['line'], fn=p, cfg=cfg)
            continue
        sb = RL.norm(body.canon_op(t['args'][1]), p)
        rg = RL.norm(body.canon_op(t['args'][2]), p)
        problems = []
        if sb != ('field', SELF, 'shard_bytes'):
            problems.append('shard size passed is %s, expected self.shard_bytes' % core.show(sb))
        if rg[0] != 'adt' or not rg[1].endswith('ops::Range'):
            problems.append('range argument is %s' % core.show(rg)[:80])
        else:
            d = dict(rg[3])
            b0 = ('const', 0) if base is None else ('field', SELF, base)
            want_s = c05.lin(b0)
            want_e = c05.lin(('bin', 'Add', b0, ('field', SELF, count)))
            if c05.lin(d.get('start')) != want_s:
                problems.append('range starts at %s, accessor exposes from %s' % (core.show(d.get('start')), core.show(b0)))
            if c05.lin(d.get('end')) != want_e:
                problems.append('range ends at %s, accessor exposes up to %s + self.%s' % (core.show(d.get('end')), core.show(b0), count))
        if problems:
            for pb in problems:
                ctx.violation(R, re.sub(r'[^A-Za-z_]+', '-', pb)[:60], '%s: %s' % (p, pb), site=t['line'], fn=p, cfg=cfg)
        else:
            ctx.ok(R, '%s@%s' % (p, cfg), {'range': core.show(rg)[:100], 'accessor': 'index < self.%s at %s' % (count, 'index' if base is None else 'self.%s + index' % base)})


def split_agreement(ctx, facts, cfg):
    R = 'C04.d-split-agreement'
    RL = roles_mod.roles(facts)
    ins = RL.get(ctx, 'store.insert', R, cfg)
    und = RL.get(ctx, 'store.undo', R, cfg)
    if ins is None or und is None:
        return
    # arithmetic shared through a private helper (`chunks_and_tail(len) -> (len / 64, len % 64)`) is read in place
    pure_helper = lambda g, t: (not g.reachable and not g.impl_trait and not g.in_trait and g.kind != 'Closure'
                                and not any('&mut' in x for x in g.inputs) and g.output not in ('()', None))
    ib = core.inlined_fn(facts, ins.path, pure_helper, tag='c04d').body
    ub = core.inlined_fn(facts, und.path, pure_helper, tag='c04d').body
    own_size_fields = set()
    if len(und.body.mir['locals']) and und.body.arg_count == 2:
        # the store keeps the byte length itself (see C04.c): its size fields stand for the length
        adt_ = facts.adts.get(RL.store_adt or '', {})
        own_size_fields = {fl['name'] for v in adt_.get('variants', []) for fl in v['fields'] if fl['ty'] == 'usize' and 'count' not in fl['name'] and 'len_64' not in fl['name']}
    problems = []
    # insert: tail_len = len % 64 ; src_tail.split_at(tail_len / 2) ; dst[whole].split_at_mut(K)
    K = None
    half_i = None
    for b, t in ib.calls():
        q = t['callee'].get('path') or ''
        if q.endswith('::split_at_mut') and len(t['args']) == 2:
            c = ib.canon_op(t['args'][1])
            if c[0] == 'const':
                K = c[1]
        if q.endswith('::split_at') and len(t['args']) == 2:
            c = ib.canon_op(t['args'][1])
            if c[0] == 'bin' and c[1] == 'Div':
                half_i = c
    # undo: copy_within(Range{start: K', end: K' + tail/2}, tail/2)
    cw = [(b, t) for b, t in ub.calls() if (t['callee'].get('path') or '').endswith('::copy_within')]
    if len(cw) != 1:
        problems.append('undo does not consist of exactly one copy_within (found %d)' % len(cw))
    if K is None:
        problems.append('insert does not split the destination block at a constant half-block offset')
    if half_i is None:
        problems.append('insert does not split the source tail at tail_len / 2')
    if not problems:
        t = cw[0][1]
        rg = ub.canon_op(t['args'][1])
        dst = ub.canon_op(t['args'][2])
        if rg[0] != 'adt':
            problems.append('copy_within source is not a range literal')
        else:
            d = dict(rg[3])
            st, en = d.get('start'), d.get('end')
            if st != ('const', K):
                problems.append('undo reads the high half from offset %s but insert wrote it at offset %s' % (core.show(st), K))
            # normalise tail expressions: (len % 64) / 2 on both sides, len renamed
            def norm(c):
                c = core.strip_var_ids(RL.norm(RL.norm(c, ins.path), und.path))
                if isinstance(c, tuple):
                    if c and c[0] == 'call' and str(c[1]).endswith('::len') and len(c[2]) == 1:
                        return 'LEN'
                    if c == ('param', 'shard_bytes'):
                        return 'LEN'
                    if c and c[0] == 'field' and c[1] == ('deref', ('param', 'self')) and c[2] in own_size_fields and 'bytes' in str(c[2]):
                        return 'LEN'
                    if c and c[0] == 'checked':
                        return norm(c[1])
                    return tuple(norm(x) for x in c)
                return c
            # which block: the block insert splits and the block undo converts carry the same index expression (len / 64)
            def block_index(body, recv):
                c = recv
                while isinstance(c, tuple) and c and c[0] in ('cast', 'ref', 'deref'):
                    c = c[2] if c[0] == 'cast' else c[1]
                if isinstance(c, tuple) and c and c[0] == 'index':
                    return c[2]
                return None
            sp = [t2 for b2, t2 in ib.calls() if (t2['callee'].get('path') or '').endswith('::split_at_mut') and ib.canon_op(t2['args'][1])[0] == 'const']
            bi_ins = block_index(ib, ib.canon_op(sp[0]['args'][0])) if sp else None
            bi_und = block_index(ub, ub.canon_op(t['args'][0]))
            if bi_ins is None or bi_und is None or norm(bi_ins) != norm(bi_und):
                problems.append('insert puts the partial block at index %s of the shard but undo converts the block at %s: the two cannot be shown to be the same block'
                                % (core.show(bi_ins) if bi_ins else '?', core.show(bi_und) if bi_und else core.show(ub.canon_op(t['args'][0]))[:80]))
            if c05.lin(en) != c05.lin(('bin', 'Add', ('const', K), dst)):
                problems.append('undo moves %s..%s to %s: length is not the destination offset (tail_len / 2)' % (core.show(st), core.show(en), core.show(dst)))
            if norm(dst) != norm(half_i):
                problems.append('undo uses half = %s but insert used %s' % (core.show(dst), core.show(half_i)))
    if problems:
        for pb in problems:
            ctx.violation(R, re.sub(r'[^A-Za-z_]+', '-', pb)[:60], pb, site=und.span, fn=und.path, cfg=cfg)
    else:
        ctx.ok(R, 'insert~undo@%s' % cfg, {'half_block_offset': K, 'half_tail': core.show(half_i)})
    store_resize_complete(ctx, facts, cfg, R)


def store_resize_complete(ctx, facts, cfg, R='C04.d-split-agreement'):
    """Shards::resize rewrites every field of Shards (nested store of the work objects) on every path, so that the
    geometry the store slices by is the one the work object was configured with (shared by C04.d, C05.a and C06.d)"""
    RL = roles_mod.roles(facts)
    adt = facts.adts.get(RL.store_adt or '')
    rz = facts.fns.get(RL.fn.get('store.resize') or '')
    if adt and rz:
        fields = [fl['name'] for v in adt['variants'] for fl in v['fields']]
        ws = resetrules.write_sites(facts, rz.path)
        ftys = {fl['name']: fl['ty'] for v in adt['variants'] for fl in v['fields']}
        body = rz.body
        for fld in fields:
            hits = [w for w in ws if w[0] == fld and resetrules.on_every_path(rz.body, w[3])]
            if not hits:
                # `if self.a == a && self.b == b { return }`: a path that skips the write is fine for a scalar field known to hold
                # the value that would be assigned, and for the buffer when its new length is a function of such values only
                hits = resetrules.covered(body, ws, fld, lambda w: True, None)
            if not hits and (ftys.get(fld) or '').startswith('std::vec::Vec<'):
                rs = [w for w in ws if w[0] == fld and w[1] == 'call' and re.search(r'Vec::<.*>::resize$', w[2] or '')]
                if len(rs) == 1:
                    t = rs[0][6]
                    need = core.strip_var_ids(body.canon_op(t['args'][1]))
                    # `self.a * self.b` read after `self.a = a; self.b = b`: the fields stand for what they were just assigned
                    fval = {}
                    for w_ in ws:
                        if w_[1] == 'assign':
                            fval.setdefault(w_[0], set()).add(repr(core.strip_var_ids(w_[2])))
                    fone = {f_: core.strip_var_ids([w_[2] for w_ in ws if w_[0] == f_ and w_[1] == 'assign'][0]) for f_, vs_ in fval.items() if len(vs_) == 1}

                    def resolve(e_):
                        if isinstance(e_, tuple) and e_ and e_[0] == 'field' and e_[1] == ('deref', ('param', 'self')) and e_[2] in fone:
                            return fone[e_[2]]
                        if isinstance(e_, tuple):
                            return tuple(resolve(y_) for y_ in e_)
                        return e_
                    need = resolve(need)
                    eq_edges, known = set(), set()
                    SELF = ('deref', ('param', 'self'))
                    for sb in range(body.n):
                        tt = body.term(sb)
                        if tt['k'] != 'switch' or body.blocks[sb]['cleanup']:
                            continue
                        c = body.canon_op(tt['discr'])
                        neg = False
                        while c[0] == 'un' and c[1] == 'Not':
                            neg, c = (not neg), c[2]
                        zero = [tgt for v, tgt in tt['targets'] if v == 0]
                        if not (c[0] == 'bin' and c[1] in ('Eq', 'Ne') and len(zero) == 1):
                            continue
                        a, b2 = core.strip_var_ids(c[2]), core.strip_var_ids(c[3])
                        for x, other in ((a, b2), (b2, a)):
                            if x[0] == 'field' and x[1] == SELF and x[2] in fields:
                                # the field must be assigned exactly this value on the writing path
                                vals = {repr(core.strip_var_ids(w[2])) for w in ws if w[0] == x[2] and w[1] == 'assign'}
                                if repr(other) in vals:
                                    is_eq = (c[1] == 'Eq') != neg
                                    eq_edges.add(((sb, tt['otherwise']) if is_eq else (sb, zero[0]), repr(other)))

                    def from_known(e, kn):
                        if repr(e) in kn or (isinstance(e, tuple) and e and e[0] == 'const'):
                            return True
                        return isinstance(e, tuple) and e and e[0] == 'bin' and from_known(e[2], kn) and from_known(e[3], kn)
                    # every successful exit that skips the resize lies behind ALL the equality edges whose values build the length
                    stop = frozenset([rs[0][3]])
                    okk = bool(eq_edges)
                    for ex in resetrules.success_exits(body):
                        if ex in stop or ex not in body.reachable_from(0, stop=stop):
                            continue
                        skip = frozenset((sb_, x_) for sb_ in stop for x_ in body.succs(sb_))      # only the paths that skip the resize
                        kn = {v for (e, v) in eq_edges if body.edge_dominates(e, ex, removed_edges=skip)}
                        if not from_known(need, kn):
                            okk = False
                    if okk:
                        hits = rs
            if hits:
                ctx.ok(R, 'Shards::resize:%s@%s' % (fld, cfg), None)
            else:
                ctx.violation(R, 'store-field-not-rewritten:%s' % fld, 'Shards::resize does not rewrite field `%s` on every path: a reset to another shard size keeps a stale value (e.g. a cached tail length)' % fld,
                              site=rz.span, fn=rz.path, cfg=cfg)


def block_pairing(ctx, facts, cfg):
    R = 'C04.e-block-pairing'
    n = 0
    for p, fn in sorted(facts.fns.items()):
        zs = core.hir_find(fn.hir, lambda m: m.get('k') == 'call' and m['f'].get('k') == 'path' and (m['f'].get('path') or '').endswith('iter::zip'))
        for z, _ in zs:
            ty = z.get('ty', '')
            if '[u8; 64]' not in ty and 'u8>' not in ty:
                continue
            n += 1
            a, b = [hcanon(x) for x in z['args']]
            def inner(c):
                if c[0] == 'call' and str(c[1]).split('::')[-1] in ('iter', 'iter_mut', 'into_iter'):
                    return core.strip_refs(c[2][0]) if False else strip(c[2][0])
                return strip(c)
            def strip(c):
                while isinstance(c, tuple) and c and c[0] in ('ref', 'deref'):
                    c = c[1]
                return c
            ia, ib = inner(a), inner(b)
            def shape(c):
                # replace the base local by a placeholder
                if c[0] == 'local':
                    return ('P',)
                if c[0] == 'index' and c[1][0] == 'local':
                    return ('index', ('P',), c[2])
                if c[0] == 'call':
                    name = re.sub(r'_mut$', '', str(c[1]).split('::')[-1])     # as_flattened_mut ~ as_flattened, split_at_mut ~ split_at
                    return ('call', name, tuple(shape(x) if isinstance(x, tuple) and x and x[0] in ('local', 'index', 'call') else x for x in c[2]))
                return c
            if shape(ia) == shape(ib) and (ia != ib):
                ctx.ok(R, '%s:zip(%s,%s)@%s' % (core.short(p), hshow(ia), hshow(ib), cfg), None)
            else:
                ctx.violation(R, 'mis-paired:%s' % re.sub(r'\W+', '_', hshow(ia) + '~' + hshow(ib))[:60],
                              '%s zips %s with %s: the operands are not sliced identically, so block k of one is combined with a different block of the other'
                              % (p, hshow(ia), hshow(ib)), site=z.get('line') or fn.span, fn=p, cfg=cfg)
    ctx.floor(R, 3, n, 'zips over blocks / bytes', cfg=cfg)      # the portable engines pair blocks with zip in mul, mul_add and xor at least


def lane_pairing(ctx, facts, cfg):
    R = 'C04.f-lane-pairing'
    for adt in ('engine::engine_naive::Naive', 'engine::engine_nosimd::NoSimd'):
        total = 0
        nf = 0
        for p, fn in sorted(facts.fns.items()):
            if fn.impl_self_adt != adt:
                continue
            fors = core.hir_find(fn.hir, lambda m: core.for_loop_parts(m) is not None)
            loopvars = set()
            for (m, _) in fors:
                pat, it, body = core.for_loop_parts(m)
                if pat.get('k') == 'bind' and core.is_range_struct(it) is not None:
                    loopvars.add(pat['name'])
            bad = []
            n = 0
            for (m, _) in core.hir_find(fn.hir, lambda m: m.get('k') == 'index' and re.match(r'\[u8(; 64)?\]$', m.get('base_ty', '') or '')):
                n += 1
                i = hcanon(m['idx'])
                ok = (i[0] == 'local' and i[1] in loopvars) or \
                     (i[0] == 'bin' and i[1] == 'Add' and {i[2], i[3]} & {('const', 32)} and any(x[0] == 'local' and x[1] in loopvars for x in (i[2], i[3])))
                if not ok:
                    bad.append((hshow(i), m.get('line')))
            if not n:
                continue
            nf += 1
            total += n
            if bad:
                for (ix, line) in bad:
                    ctx.violation(R, 'lane:%s' % re.sub(r'\W+', '_', ix)[:40], '%s indexes a block with %s (allowed: loop variable or loop variable + 32): lanes of different symbol slots are mixed' % (p, ix),
                                  site=line, fn=p, cfg=cfg)
            else:
                ctx.ok(R, '%s@%s' % (core.short(p), cfg), {'block_index_expressions': n})
        if total == 0:
            # no indexed access at all: the kernels iterate with zip over equally sliced halves (decided by C04.e)
            ctx.ok(R, '%s:no-indexed-access@%s' % (adt.split('::')[-1], cfg), None, nontrivial=False)


def size_steers_nothing(ctx, facts, cfg):
    """C04.g: value-flow of the shard size through the rate layer, the wrappers and the one-shot functions.  A switch whose
    discriminant derives from it is a validation when at most one of its outgoing edges can reach a successful exit;
    with two it selects between behaviours by shard size."""
    R = 'C04.g-size-steers-nothing'
    RL = roles_mod.roles(facts)
    in_scope = lambda p: p in ('encode', 'decode') or p.startswith(('rate::', '<rate::', 'reed_solomon::', '<reed_solomon::'))
    size_fields = {RL.field('enc', 'shard_bytes'), RL.field('dec', 'shard_bytes'), 'shard_bytes'}
    done = {}
    nsw = [0]

    def size_place(body, pl):
        return pl is not None and any(isinstance(e, dict) and e.get('f') in size_fields for e in pl['p']) and 'Work' in body.local_ty(pl['l'])

    def rv_places(rv):
        out = []
        for k in ('op', 'a', 'b'):
            if isinstance(rv.get(k), dict):
                out.append(op_place(rv[k]))
        if isinstance(rv.get('place'), dict):
            out.append(rv['place'])
        for o in rv.get('ops', []) or []:
            out.append(op_place(o))
        return [x for x in out if x is not None]

    def analyse(p, seed_params):
        key = (p, tuple(sorted(seed_params)))
        if key in done:
            return
        done[key] = True
        f = facts.fns.get(p)
        if f is None or not in_scope(p):
            return
        body = f.body
        seeds = set(seed_params)
        for b in range(body.n):
            blk = body.blocks[b]
            if blk['cleanup']:
                continue
            for st in blk['stmts']:
                if st['k'] == 'assign' and any(size_place(body, pl) for pl in rv_places(st['rv'])):
                    seeds.add(st['lhs']['l'])
        if not seeds:
            return
        num = lambda c: re.search(r'^core::num::|::div_ceil$|^std::cmp::(min|max)', c.get('path') or '') is not None
        flow = core.forward_flow(body, seeds, through_calls=num, whole_only=True)
        if body.local_ty(0).startswith('std::result::Result<'):
            errs, oks = core.result_exits(body)
            succ_blocks = {b for (b, k, d) in oks}
        else:
            succ_blocks = set(body.exits())
        for b in range(body.n):
            t = body.term(b)
            if body.blocks[b]['cleanup']:
                continue
            if t['k'] == 'switch':
                pl = op_place(t['discr'])
                if pl is None or pl['l'] not in flow:
                    continue
                # `old size == new size` compares two shard sizes with each other: what it selects cannot depend on the size itself
                ds = [d for d in body.defs().get(pl['l'], []) if d[0] == 'stmt']
                if len(ds) == 1:
                    rv = body.blocks[ds[0][1]]['stmts'][ds[0][2]]['rv']
                    sized = lambda o: op_place(o) is not None and ((op_place(o)['l'] in flow and not op_place(o)['p']) or size_place(body, op_place(o)))
                    if rv['k'] == 'bin' and rv['op'] in ('Eq', 'Ne') and sized(rv['a']) and sized(rv['b']):
                        continue
                nsw[0] += 1
                outs = sorted({tgt for _, tgt in t['targets']} | {t['otherwise']})
                live = [o for o in outs if (body.reachable_from(o) & succ_blocks)]
                if len(live) >= 2:
                    ctx.violation(R, 'steers', '%s branches on a value derived from the shard size at %s and %d of the outcomes continue to a successful result: behaviour other than acceptance depends on the shard size'
                                  % (p, t['line'], len(live)), site=t['line'], fn=p, cfg=cfg)
                else:
                    ctx.ok(R, '%s:validation@%s' % (p, cfg), None, nontrivial=False)
            elif t['k'] == 'call':
                q = t['callee'].get('path')
                g = facts.fns.get(q)
                if g is None:
                    continue
                idx = [i for i, a in enumerate(t['args']) if op_place(a) is not None and op_place(a)['l'] in flow and not op_place(a)['p']]
                if idx and in_scope(q):
                    analyse(q, {i + 1 for i in idx})
                elif idx and g.in_trait and not g.hir:
                    pass
    roots = 0
    for p, f in sorted(facts.fns.items()):
        if not in_scope(p):
            continue
        pn = f.param_names()
        pm = RL.params.get(p, {})
        sp = {i + 1 for i, n in enumerate(pn) if n and (pm.get(n, n) == 'shard_bytes')}
        if sp:
            roots += 1
        analyse(p, sp)
    ctx.ok(R, 'flow@%s' % cfg, {'functions_with_a_shard_size_parameter': roots, 'size_dependent_branches_examined': nsw[0]})
    ctx.floor(R, 10, roots, 'functions taking the shard size', cfg=cfg)
    ctx.floor(R, 3, nsw[0], 'branches on the shard size (validations)', cfg=cfg)
