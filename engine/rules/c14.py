"""C14 — the default engine runs only SIMD code the CPU reports, and picks the best."""
import re
from . import core, summ, c03
from .core import callgraph, op_place

EXPLANATION = (
    "Effect + dominance analysis over MIR. need(f) = target features that code reachable from f "
    "by static calls is compiled for, minus f's own #[target_feature] set (features from "
    "rustc's codegen_fn_attrs, intrinsics included). Every function with a non-empty need is "
    "crate-private or an Engine-trait gate of a SIMD engine type; every construction of a SIMD "
    "engine and every static call of a SIMD gate outside the engine's own impl is dominated "
    "(after pruning cfg!-constant switch edges) by the true edge of runtime detection of a "
    "feature whose implied closure covers the need; weaker detections and the portable fallback "
    "are reachable only through the false edges of the stronger ones; the two selections "
    "(DefaultEngine::new, DefaultEngine::eval_poly) agree; DefaultEngine values are built only in new().")
DECIDES = "C14 whole statement except 'results are identical under every subset' (that is C03)."
NOT_DECIDED = "bit-identity of the engines (C03); correctness of std_detect itself (trusted)."
TRUSTED = ["target-feature metadata rustc attaches to core::arch intrinsics",
           "std::arch::is_*_feature_detected! reports the CPU truthfully",
           "rustc's implied_target_features table"]
ASSUMPTIONS = ["a user-written Engine implementation is outside the property"]

DETECT_RE = re.compile(r'std_detect::detect::arch::(\w+)::__is_feature_detected::(\w+)$')
ALIAS = {'asimd': 'neon'}  # aarch64: is_aarch64_feature_detected!("neon") tests asimd


class Det:
    """Fact edges of a body: CFG edges on which a set of features is proven present
    (true edge of a runtime detection, or the arm of a match on the value returned by a
    detection helper whose summary proves them) or refused (detection returned false)."""

    def __init__(self, facts):
        self.facts = facts
        self._edges = {}
        self._summ = {}
        self._busy = set()

    def edges(self, fnpath):
        if fnpath in self._edges:
            return self._edges[fnpath]
        fn = self.facts.fns[fnpath]
        body = fn.body
        pruned = body.const_pruned_edges()
        live = body.reachable_from(0, pruned)
        out = []
        dead = set()
        for b in sorted(live):
            t = body.term(b)
            if t['k'] != 'switch' or body.blocks[b]['cleanup']:
                continue
            c = body.canon_op(t['discr'])
            neg = False
            while c[0] == 'un' and c[1] == 'Not':
                neg = not neg
                c = c[2]
            if c[0] == 'call' and DETECT_RE.search(c[1]):
                m = DETECT_RE.search(c[1])
                zero = [tgt for v, tgt in t['targets'] if v == 0]
                if len(zero) != 1:
                    continue
                f_edge, t_edge = (b, zero[0]), (b, t['otherwise'])
                if neg:
                    f_edge, t_edge = t_edge, f_edge
                feat = ALIAS.get(m.group(2), m.group(2))
                out.append({'edge': t_edge, 'proven': closure(self.facts, feat), 'refused': set(), 'via': feat})
                out.append({'edge': f_edge, 'proven': set(), 'refused': {feat}, 'via': '!' + feat})
                continue
            # value returned by a detection helper: bool result or enum discriminant
            call = None
            if c[0] == 'call':
                call, kind = c, 'bool'
            elif c[0] == 'discr' and c[1][0] == 'call':
                call, kind = c[1], 'enum'
            if call is None or call[1] not in self.facts.fns and self.facts.instances.get(call[1]) is None:
                continue
            hp = call[1] if call[1] in self.facts.fns else self.facts.instances[call[1]]['def']
            summ = self.summary(hp)
            if not summ:
                continue
            listed = set()
            for v, tgt in t['targets']:
                listed.add(v)
                vv = v
                if kind == 'bool' and neg:
                    vv = 1 - v
                if vv in summ:
                    out.append({'edge': (b, tgt), 'proven': set(summ[vv][0]), 'refused': set(summ[vv][1]),
                                'via': '%s()=%s' % (core.short(hp), vv)})
                else:
                    dead.add((b, tgt))     # the helper never returns this value in this cfg
            rest = [v for v in summ if v not in listed]
            if kind == 'bool' and len(t['targets']) == 1:
                v0 = t['targets'][0][0]
                ov = 1 - v0
                if neg:
                    ov = 1 - ov
                rest = [ov] if ov in summ else []
            if len(rest) == 1:
                vv = rest[0]
                out.append({'edge': (b, t['otherwise']), 'proven': set(summ[vv][0]), 'refused': set(summ[vv][1]),
                            'via': '%s()=%s' % (core.short(hp), vv)})
            elif not rest and t['otherwise'] not in [tgt for _, tgt in t['targets']]:
                dead.add((b, t['otherwise']))
        if dead:
            pruned = set(pruned) | dead
            live = body.reachable_from(0, pruned)
        self._edges[fnpath] = (out, pruned, live)
        return self._edges[fnpath]

    def at(self, fnpath, b):
        """(proven, refused, via) on every path to block b of fn"""
        es, pruned, live = self.edges(fnpath)
        body = self.facts.fns[fnpath].body
        proven, refused, via = set(), set(), []
        for e in es:
            if body.edge_dominates(e['edge'], b, pruned):
                proven |= e['proven']
                refused |= e['refused']
                via.append(e['via'])
        return proven, refused, via

    def summary(self, fnpath):
        """for a crate fn returning bool / a fieldless enum: value -> (proven, refused) holding
        whenever that value is returned; {} if the fn is not a detection helper"""
        if fnpath in self._summ:
            return self._summ[fnpath]
        if fnpath in self._busy:
            return {}
        self._busy.add(fnpath)
        fn = self.facts.fns.get(fnpath)
        res = {}
        if fn is not None and fn.body.arg_count == 0 or (fn is not None and fn.output == 'bool'):
            body = fn.body
            es, pruned, live = self.edges(fnpath)
            vals = {}
            okk = True
            for b in sorted(live):
                blk = body.blocks[b]
                for st in blk['stmts']:
                    if st['k'] == 'assign' and st['lhs']['l'] == 0 and not st['lhs']['p']:
                        rv = st['rv']
                        v = None
                        if rv['k'] == 'agg' and rv['agg'] == 'adt' and not rv['ops']:
                            v = rv['vi']
                        elif rv['k'] == 'use' and 'const' in rv['op'] and 'val' in rv['op']['const']:
                            v = rv['op']['const']['val']
                        if v is None:
                            okk = False
                            continue
                        pr, rf, _ = self.at(fnpath, b)
                        vals.setdefault(v, []).append((pr, rf))
                t = blk['term']
                if t['k'] == 'call' and t['dest']['l'] == 0 and not t['dest']['p']:
                    m = DETECT_RE.search(t['callee'].get('path') or '')
                    if m:
                        feat = ALIAS.get(m.group(2), m.group(2))
                        pr, rf, _ = self.at(fnpath, b)
                        vals.setdefault(1, []).append((pr | closure(self.facts, feat), rf))
                        vals.setdefault(0, []).append((pr, rf | {feat}))
                    else:
                        okk = False
            if okk and vals:
                for v, lst in vals.items():
                    pr = set.intersection(*[x[0] for x in lst]) if lst else set()
                    rf = set.intersection(*[x[1] for x in lst]) if lst else set()
                    res[v] = (pr, rf)
        self._busy.discard(fnpath)
        self._summ[fnpath] = res
        return res


def compute_need(facts):
    """need_raw: baseline NOT subtracted; features proven by a dominating detection at the
    call site are (a dispatcher such as DefaultEngine::eval_poly thereby needs nothing)."""
    cg = callgraph(facts)
    base = set()
    det = get_det(facts)
    proven_at = {}
    def proven(p, b):
        k = (p, b)
        if k not in proven_at:
            proven_at[k] = det.at(p, b)[0]
        return proven_at[k]
    feats = {p: set(f.target_features) for p, f in facts.fns.items()}
    extf = {p: set(x.get('target_features', [])) for p, x in facts.externs.items()}
    need = {p: set() for p in facts.fns}
    why = {p: {} for p in facts.fns}
    changed = True
    while changed:
        changed = False
        for p, f in facts.fns.items():
            acc = set()
            for (b, q, how) in cg.sites.get(p, ()):
                if how not in ('static', 'fnref', 'closure'):
                    continue
                contrib = (feats[q] | need[q])
                if contrib:
                    contrib = contrib - proven(p, b)
                for x in contrib - feats[p] - base:
                    if x not in need[p]:
                        why[p].setdefault(x, q)
                acc |= contrib
            for (b, q) in cg.ext_sites.get(p, ()):
                contrib = extf.get(q, set())
                if contrib:
                    contrib = contrib - proven(p, b)
                for x in contrib - feats[p] - base:
                    if x not in need[p]:
                        why[p].setdefault(x, q)
                acc |= contrib
            acc = acc - feats[p] - base
            if acc != need[p]:
                need[p] = acc
                changed = True
    return need, why


def get_det(facts):
    if not hasattr(facts, '_c14det'):
        facts._c14det = Det(facts)
    return facts._c14det


def closure(facts, feat):
    feat = ALIAS.get(feat, feat)
    imp = facts.raw['implied_features'].get(feat)
    return set(imp) if imp else {feat}


def run(ctx):
    cfgs = ['x86_64', 'aarch64'] if ctx.tier == 'quick' else ['x86_64', 'aarch64', 'i686', 'x86_64+avx2']
    r_need = ctx.rule('C14.a-need', 'every fn with need != {} is crate-private or an Engine gate of a SIMD engine type')
    r_gate = ctx.rule('C14.a-gates', 'the SIMD gates are exactly the Engine methods of the SIMD engine types')
    r_guard = ctx.rule('C14.b-guarded', 'construction of a SIMD engine / static call of a SIMD gate outside its own impl is dominated by the true edge of detection covering its need')
    r_best = ctx.rule('C14.b-best-first', 'a weaker selection is reachable only through the false edges of every stronger detection; the engine chosen under a detection is the most capable one it covers')
    r_port = ctx.rule('C14.b-portable-last', 'the portable engine is chosen only behind the false edges of all SIMD detections')
    r_sib = ctx.rule('C14.d-siblings', 'DefaultEngine::new and DefaultEngine::eval_poly select by the same features in the same order')
    r_ctor = ctx.rule('C14.e-default-engine-ctor', 'DefaultEngine values are built only in DefaultEngine::new; ReedSolomon{En,De}coder::new use DefaultEngine::new()')
    ctx.rule('C14.f-eval-poly-dispatch', 'polynomial evaluation is reached only through Engine::eval_poly (so that DefaultEngine can pick the best compiled version): utils::eval_poly is called only by Engine::eval_poly bodies and their private target_feature wrappers; decoders call E::eval_poly')
    r_fwd = ctx.rule('C14.e-forwarding', 'DefaultEngine::{fft,ifft,mul} dispatch to the boxed engine chosen by new()')
    ctx.rule('C14.g-engines-identical', 'whichever engine a feature subset selects computes the same thing: schedule functions and SIMD kernels of the selectable engines are siblings (clauses shared with C03.a / C03.e)')
    from . import c03
    ctx.guard('C14.analysable', ctx.shared, {'C03.e-kernel-siblings': 'C14.g-engines-identical'}, c03.kernel_siblings, ctx, {c: ctx.facts(c) for c in ('x86_64', 'aarch64')})
    for c in ('x86_64', 'aarch64'):
        ctx.guard('C14.analysable', ctx.shared, {'C03.d-one-eval-poly': 'C14.g-engines-identical'}, c03.eval_poly, ctx, ctx.facts(c), c)
        ctx.guard('C14.analysable', ctx.shared, {'C03.a-schedule-siblings': 'C14.g-engines-identical'}, c03.schedules, ctx, ctx.facts(c), c)
        ctx.guard('C14.analysable', ctx.shared, {'C03.i-byte-order-fixed': 'C14.g-engines-identical'}, c03.byte_order, ctx, ctx.facts(c), c)
        ctx.guard('C14.analysable', ctx.shared, {'C03.b-bounded-simd-access': 'C14.g-engines-identical'}, c03.bounded_access, ctx, ctx.facts(c), c)
    for cfg in cfgs:
        facts = ctx.facts(cfg)
        ctx.guard('C14.analysable', check_cfg, ctx, facts, cfg)


def engine_types(facts):
    """ADT path -> {method name: Fn} for every impl of engine::Engine in the crate."""
    out = {}
    for f in facts.fns.values():
        if f.impl_trait == 'engine::Engine' and f.impl_self_adt:
            out.setdefault(f.impl_self_adt, {})[f.name] = f
    return out


def check_cfg(ctx, facts, cfg):
    cg = callgraph(facts)
    need, why = compute_need(facts)
    base = set(facts.raw['baseline_features'])
    engines = engine_types(facts)
    if not engines:
        ctx.violation('C14.a-gates', 'no-engines', 'anchor missing: no impl of engine::Engine found', cfg=cfg)
        return
    # ---- SIMD engine types: Engine impls with a gate that needs features
    simd = {}
    for adt, ms in engines.items():
        n = set()
        for m in ms.values():
            n |= need[m.path]
        # provided eval_poly not overridden -> default body (no need)
        if n and adt != 'engine::engine_default::DefaultEngine':
            # DefaultEngine is the dispatcher (public anchor): its own unguarded need, if any,
            # is reported at the offending call site by C14.b-guarded
            simd[adt] = n
    gates = set()
    for adt in simd:
        for m in engines[adt].values():
            gates.add(m.path)

    expected = {'x86_64': 2, 'i686': 2, 'x86_64+avx2': 2, 'aarch64': 1}[cfg]
    ctx.floor('C14.a-gates', expected, len(simd), 'SIMD engine types in cfg %s' % cfg, cfg=cfg)

    # ---- R1: need != {} => private or gate
    n_need = 0
    for p, n in sorted(need.items()):
        n = n - base   # features guaranteed at compile time need no runtime proof
        if not n:
            continue
        n_need += 1
        f = facts.fns[p]
        if p in gates:
            ctx.ok('C14.a-need', '%s@%s' % (p, cfg), {'need': sorted(n), 'role': 'gate'})
        elif not f.reachable:
            ctx.ok('C14.a-need', '%s@%s' % (p, cfg), None)
        else:
            x = sorted(n)[0]
            ctx.violation('C14.a-need', 'public-needs-features',
                          'externally reachable fn needs target features %s (via %s) but is not an Engine gate of a SIMD engine'
                          % (sorted(n), why[p].get(x)), site=f.span, fn=p, cfg=cfg)
    # gate methods must be impl methods of the Engine trait only (4 per engine)
    for adt, n in simd.items():
        ms = engines[adt]
        for name in ('fft', 'ifft', 'mul', 'eval_poly'):
            if name in ms:
                ctx.ok('C14.a-gates', '%s::%s@%s' % (adt, name, cfg),
                       {'need': sorted(need[ms[name].path])})
            else:
                ctx.violation('C14.a-gates', 'gate-missing:%s' % name,
                              'SIMD engine %s does not override Engine::%s; the provided body would not be compiled for its features (not a violation of safety, but the engine set changed: review)' % (adt, name),
                              fn=adt, cfg=cfg) if name != 'eval_poly' else None

    # ---- constructors of engine types: crate fns whose output type is the ADT
    def ctor_of(path):
        f = facts.fns.get(path)
        out = f.output if f else (facts.externs.get(path, {}).get('output'))
        return out

    def engine_of_callee(cal):
        """If this call constructs/boxes an engine value or calls a gate statically, return (adt, kind)."""
        if cal.get('unresolved') or cal.get('virtual') or cal.get('indirect'):
            return None
        p = cal.get('path')
        key = cal.get('key') or p
        f = facts.fns.get(p)
        # static gate call (incl. provided eval_poly with Self = engine)
        if f is not None and f.impl_trait == 'engine::Engine' and f.impl_self_adt in engines:
            return (f.impl_self_adt, 'gate:' + f.name)
        if p == 'engine::Engine::eval_poly' and cal.get('args'):
            st = cal['args'][0]
            for adt in engines:
                if st == adt:
                    return (adt, 'gate:eval_poly')
        if f is not None and f.output in engines:
            return (f.output, 'ctor')
        if f is not None and f.output == 'Self' and f.impl_self_adt in engines:
            return (f.impl_self_adt, 'ctor')
        # Box::<T>::new and friends
        for a in cal.get('args') or []:
            if a in engines and (p or '').startswith('std::boxed::Box'):
                return (a, 'box')
        return None

    all_sel = {}
    for p, f in sorted(facts.fns.items()):
        body = f.body
        det = get_det(facts)
        es, pruned, live = det.edges(p)
        sites = []
        for b, t in body.calls():
            if b not in live:
                continue
            e = engine_of_callee(t['callee'])
            if e:
                sites.append((b, t, e[0], e[1]))
        # aggregates constructing an engine struct directly
        for b in sorted(live):
            for st in body.blocks[b]['stmts']:
                if st['k'] == 'assign' and st['rv']['k'] == 'agg' and st['rv'].get('adt') in engines:
                    sites.append((b, {'line': st['line'], 'callee': {}}, st['rv']['adt'], 'literal'))
        if not sites:
            continue
        sel = []
        for (b, t, adt, kind) in sites:
            own = (f.impl_self_adt == adt)
            if adt in simd:
                if own:
                    ctx.ok('C14.b-guarded', '%s:%s:%s@%s' % (p, adt, kind, cfg), None, nontrivial=False)
                    continue
                # features proven on every path to b
                pr, refused, covering = det.at(p, b)
                proven = set(base) | pr
                covering = [c for c in covering if not c.startswith('!')]
                missing = simd[adt] - proven
                if missing:
                    ctx.violation('C14.b-guarded', '%s:%s' % (short_adt(adt), kind),
                                  '%s of SIMD engine %s needs %s but only %s is detected on every path to it (detections dominating: %s)'
                                  % (kind, adt, sorted(simd[adt]), sorted(proven - base), covering or 'none'),
                                  site=t['line'], fn=p, cfg=cfg)
                else:
                    ctx.ok('C14.b-guarded', '%s:%s:%s@%s' % (p, adt, kind, cfg),
                           {'site': t['line'], 'needs': sorted(simd[adt]), 'dominating_detection': covering})
                # most capable under what is proven
                better = [a for a, n in simd.items() if n > simd[adt] and n <= proven]
                if better:
                    ctx.violation('C14.b-best-first', 'not-most-capable:%s' % short_adt(adt),
                                  'engine %s is selected where %s is detected, but the more capable %s is covered by the same detection'
                                  % (adt, covering, better), site=t['line'], fn=p, cfg=cfg)
                # stronger engines must have been refused (false edges) before
                for a, n in simd.items():
                    if n > simd[adt] and not (n <= proven):
                        okd = sorted(refused & n)
                        if okd:
                            ctx.ok('C14.b-best-first', '%s:%s-after-%s@%s' % (p, short_adt(adt), short_adt(a), cfg),
                                   {'site': t['line'], 'refused_first': okd[0]})
                        else:
                            ctx.violation('C14.b-best-first', '%s-before-%s' % (short_adt(adt), short_adt(a)),
                                          'selection of %s is reachable without first testing (and failing) detection for the more capable %s'
                                          % (adt, a), site=t['line'], fn=p, cfg=cfg)
                sel.append((b, tuple(covering), adt))
            else:
                # portable engine: only relevant inside a function that also selects SIMD engines
                if any(s[2] in simd for s in sites) and not own:
                    bad = []
                    pr, refused, _cov = det.at(p, b)
                    for a, n in simd.items():
                        if n <= base:
                            continue
                        if not (refused & n):
                            bad.append(a)
                    if bad:
                        ctx.violation('C14.b-portable-last', 'portable-before:%s' % ','.join(short_adt(a) for a in bad),
                                      'portable engine %s (%s) is reachable without the detection for %s having failed'
                                      % (adt, kind, bad), site=t['line'], fn=p, cfg=cfg)
                    else:
                        ctx.ok('C14.b-portable-last', '%s:%s:%s@%s' % (p, adt, kind, cfg),
                               {'site': t['line'], 'behind_false_edges_of': sorted(short_adt(a) for a in simd)})
                    sel.append((b, ('<none>',), adt))
        if sel and any(s[2] in simd for s in sel):
            # ordered selection summary: (features..., engine) by block order of first site
            seen = []
            for b, cov, adt in sorted(sel):
                if (cov, adt) not in seen:
                    seen.append((cov, adt))
            all_sel[p] = seen

    # ---- the two selections
    new_p = 'engine::engine_default::DefaultEngine::new'
    ep_p = '<engine::engine_default::DefaultEngine as engine::Engine>::eval_poly'
    fnew = ctx.anchor(facts, new_p, 'C14.d-siblings')
    fep = ctx.anchor(facts, ep_p, 'C14.d-siblings')
    if simd:
        for p in (new_p, ep_p):
            if p not in all_sel:
                ctx.violation('C14.d-siblings', 'no-selection', 'no SIMD selection found in %s although SIMD engines exist (%s): the best engine is not used for this primitive'
                              % (p, sorted(simd)), fn=p, cfg=cfg)
        if new_p in all_sel and ep_p in all_sel:
            a, b = all_sel[new_p], all_sel[ep_p]
            if a == b:
                ctx.ok('C14.d-siblings', 'new~eval_poly@%s' % cfg, {'selection': [[list(c), e] for c, e in a]})
            else:
                ctx.violation('C14.d-siblings', 'selections-differ',
                              'DefaultEngine::new selects %s but DefaultEngine::eval_poly selects %s' % (a, b),
                              site=fep.span if fep else None, fn=ep_p, cfg=cfg)
        # every SIMD engine type must be selectable by new()
        for adt in simd:
            shadowed = any(n > simd[adt] and n <= base for n in simd.values())
            if new_p in all_sel and not shadowed and not any(e == adt for _, e in all_sel[new_p]):
                ctx.violation('C14.b-best-first', 'engine-never-selected:%s' % short_adt(adt),
                              'SIMD engine %s exists for this target but DefaultEngine::new never selects it' % adt,
                              fn=new_p, cfg=cfg)
        # selections outside the two anchors
        for p in all_sel:
            if p not in (new_p, ep_p):
                ctx.note('additional SIMD selection site in %s (guarded; see C14.b-guarded)' % p)
    else:
        ctx.ok('C14.d-siblings', 'no-simd-need@%s' % cfg, {'note': 'all SIMD features are compile-time baseline in this cfg'}, nontrivial=False)

    # ---- C14.f: who may call the shared eval_poly body
    up = 'engine::utils::eval_poly'
    if ctx.anchor(facts, up, 'C14.f-eval-poly-dispatch'):
        def is_engine_eval_poly(fp):
            f2 = facts.fns.get(fp)
            return f2 is not None and (fp == 'engine::Engine::eval_poly' or (f2.impl_trait == 'engine::Engine' and f2.name == 'eval_poly'))
        n_callers = 0
        for caller in sorted(cg.callers.get(up, ())):
            n_callers += 1
            okc = is_engine_eval_poly(caller)
            if not okc:
                f2 = facts.fns[caller]
                cs = cg.callers.get(caller, set())
                okc = (not f2.reachable) and cs and all(is_engine_eval_poly(c) and c03.home_module(facts.fns[c]) is not None and c03.home_module(facts.fns[c]) == c03.home_module(f2) for c in cs)
            if okc:
                ctx.ok('C14.f-eval-poly-dispatch', '%s@%s' % (caller, cfg), None)
            else:
                ctx.violation('C14.f-eval-poly-dispatch', 'bypass', '%s calls the portable utils::eval_poly body directly instead of going through Engine::eval_poly: the default engine cannot select the best compiled version for this use'
                              % caller, site=facts.fns[caller].span, fn=caller, cfg=cfg)
        ctx.floor('C14.f-eval-poly-dispatch', 2, n_callers, 'callers of utils::eval_poly', cfg=cfg)
        # decoders evaluate the polynomial through their engine parameter
        nd = 0
        for fp, f2 in sorted(facts.fns.items()):
            if f2.impl_trait == 'rate::RateDecoder' and f2.name == 'decode':
                evs = [t for b, t in f2.body.calls() if t['callee'].get('decl') == 'engine::Engine::eval_poly']
                # ... or through private generic helpers which are handed the decoder's own engine parameter
                seen_h, todo_h = set(), [(f2, 0)]
                while todo_h:
                    g_, d_ = todo_h.pop()
                    for b, t in g_.body.calls():
                        hp = t['callee'].get('path')
                        h_ = facts.fns.get(hp)
                        if h_ is None or hp in seen_h or d_ >= 3 or h_.reachable or h_.impl_trait or h_.in_trait or t['callee'].get('trait'):
                            continue
                        if t['callee'].get('decl_args') != ['E']:
                            continue
                        seen_h.add(hp)
                        evs += [dict(t2, via=hp) for b2, t2 in h_.body.calls() if t2['callee'].get('decl') == 'engine::Engine::eval_poly']
                        todo_h.append((h_, d_ + 1))
                if evs:
                    nd += 1
                    for t in evs:
                        st = t['callee'].get('self_ty')
                        if st == 'E':
                            ctx.ok('C14.f-eval-poly-dispatch', '%s:E::eval_poly@%s' % (fp, cfg), {'site': t['line']})
                        else:
                            ctx.violation('C14.f-eval-poly-dispatch', 'fixed-engine', '%s evaluates the polynomial with %s::eval_poly instead of its engine parameter' % (fp, st),
                                          site=t['line'], fn=fp, cfg=cfg)
        ctx.floor('C14.f-eval-poly-dispatch', 2, nd, 'decoders calling E::eval_poly', cfg=cfg)

    # ---- DefaultEngine construction only in new()
    de = 'engine::engine_default::DefaultEngine'
    n_lit = 0
    for p, f in facts.fns.items():
        for b in range(f.body.n):
            for st in f.body.blocks[b]['stmts']:
                if st['k'] == 'assign' and st['rv']['k'] == 'agg' and st['rv'].get('adt') == de:
                    n_lit += 1
                    if p != new_p:
                        ctx.violation('C14.e-default-engine-ctor', 'literal-outside-new',
                                      'DefaultEngine value built outside DefaultEngine::new', site=st['line'], fn=p, cfg=cfg)
                    else:
                        ctx.ok('C14.e-default-engine-ctor', '%s:literal@%s:%d' % (p, cfg, n_lit), None)
    ctx.floor('C14.e-default-engine-ctor', 1, n_lit, 'DefaultEngine literals', cfg=cfg)
    for wp in ('reed_solomon::ReedSolomonEncoder::new', 'reed_solomon::ReedSolomonDecoder::new'):
        f = ctx.anchor(facts, wp, 'C14.e-default-engine-ctor')
        if not f:
            continue
        found = False
        for b, t in f.body.calls():
            k = summ.summaries(facts).through_forwarders(t['callee'].get('key') or '') or ''
            if re.search(r'DefaultRate(En|De)coder<.*DefaultEngine> as rate::Rate(En|De)coder<.*>>::new$', k):
                eng = f.body.canon_op(t['args'][3])
                if eng[0] == 'call' and eng[1] == new_p:
                    ctx.ok('C14.e-default-engine-ctor', '%s@%s' % (wp, cfg), {'engine_arg': core.show(eng)})
                else:
                    ctx.violation('C14.e-default-engine-ctor', 'engine-arg', 'engine passed by %s is %s, not DefaultEngine::new()' % (wp, core.show(eng)),
                                  site=t['line'], fn=wp, cfg=cfg)
                found = True
        if not found:
            ctx.violation('C14.e-default-engine-ctor', 'no-delegation', '%s does not call DefaultRate*coder::<DefaultEngine>::new' % wp, fn=wp, cfg=cfg)

    # ---- DefaultEngine::{fft,ifft,mul} forward to boxed engine (virtual call on self.0)
    for name in ('fft', 'ifft', 'mul'):
        p = '<engine::engine_default::DefaultEngine as engine::Engine>::%s' % name
        f = ctx.anchor(facts, p, 'C14.e-forwarding')
        if not f:
            continue
        calls = [(b, t) for b, t in f.body.calls()]
        eng_calls = [(b, t) for b, t in calls if t['callee'].get('decl') == 'engine::Engine::%s' % name]
        others = [(b, t) for b, t in calls if t['callee'].get('decl') != 'engine::Engine::%s' % name
                  and not (t['callee'].get('path') or '').startswith(('std::', 'core::', 'alloc::'))]
        ok = len(eng_calls) == 1 and not others
        if ok:
            b, t = eng_calls[0]
            recv = f.body.canon_op(t['args'][0])
            rs = core.show(recv)
            args_ok = all(f.body.canon_op(a) == ('param', f.param_names()[i + 1]) for i, a in enumerate(t['args'][1:]))
            if 'self' in rs and '.0' in rs and args_ok:
                ctx.ok('C14.e-forwarding', '%s@%s' % (p, cfg), {'receiver': rs})
            else:
                ctx.violation('C14.e-forwarding', 'not-forwarding', 'DefaultEngine::%s does not forward (receiver %s, args in order: %s)' % (name, rs, args_ok),
                              site=t['line'], fn=p, cfg=cfg)
        else:
            ctx.violation('C14.e-forwarding', 'not-forwarding', 'DefaultEngine::%s is not a single forwarding call to the boxed engine' % name,
                          site=f.span, fn=p, cfg=cfg)


def short_adt(a):
    return a.rsplit('::', 1)[-1]
