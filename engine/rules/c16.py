"""C16 — independent codec objects can be used concurrently from any threads."""
import re, json
from . import core, witness
from .core import callgraph

EXPLANATION = (
    "Ownership/effect argument decided statically: (a) the lazy-initialisation graph of the global "
    "tables (edge A->B if the initialiser of LazyLock static A reaches, through the resolved call graph, "
    "a use of static B) is acyclic and no initialiser reaches a blocking primitive, so "
    "std::sync::LazyLock's once-only guarantee applies for every interleaving of first touches; "
    "(b) no other shared mutable state exists: no `static mut`, no thread_local, no static/field/local of "
    "an interior-mutability or lock type other than the LazyLock tables, no `unsafe impl Send/Sync`, "
    "engine structs hold only &'static references to the tables; (c) universal type-level witnesses "
    "(rustc proves, for EVERY engine type E, that all codec/work/result types are Send when E is Send and "
    "Sync when E is Sync; all concrete engines are Send+Sync+'static); (d) no raw-pointer dereference or "
    "static-mut access exists in unsafe code; (e) nothing in the crate calls into std::thread, channels, "
    "locks or parking, so there is nothing to deadlock on besides (a).")
DECIDES = "absence of shared mutable state and of lock-order hazards; Send/Sync for every engine type; results equal to sequential use then follow from the absence of sharing."
NOT_DECIDED = "std::sync::LazyLock's own implementation (trusted)."
TRUSTED = ["std::sync::LazyLock once-only initialisation", "rustc auto-trait (Send/Sync) inference and borrow checker"]
ASSUMPTIONS = ["user-written Engine types are constrained only by the E: Send / E: Sync bounds shown in the witnesses"]

_INTERIOR = re.compile(r'\b(Cell|RefCell|UnsafeCell|OnceCell|Atomic\w*|Mutex|RwLock|Condvar|Once|OnceLock|Barrier|LocalKey|ThreadLocal|SyncUnsafeCell|ReentrantLock)\b')


class _Interior:
    """type-string test; the iterator adaptor std::iter::Once is not the synchronisation primitive std::sync::Once"""
    @staticmethod
    def search(ty):
        return _INTERIOR.search(re.sub(r'\b(std|core)::iter::(\w+::)*Once\b', 'IterOnce', ty))


INTERIOR = _Interior
BLOCKING = re.compile(r'^std::(thread|sync::(mpsc|Mutex|RwLock|Condvar|Barrier|Once|OnceLock)|io::std(in|out|err)|process|net)\b|^std::sync::(Mutex|RwLock|Condvar|Barrier)<|::(lock|park|join|recv|wait|sleep)$')
THREADY = re.compile(r'^std::(thread|sync::mpsc)\b|^<std::sync::(Mutex|RwLock|Condvar|Barrier)|^std::sync::(Mutex|RwLock|Condvar|Barrier|Once)\b|std::thread::|::park(_timeout)?$')


def static_refs(body):
    out = set()

    def scan(o):
        if isinstance(o, dict):
            if 'static' in o and isinstance(o['static'], str):
                out.add(o['static'])
            for v in o.values():
                scan(v)
        elif isinstance(o, list):
            for x in o:
                scan(x)
    for blk in body.blocks:
        if blk['cleanup']:
            continue
        scan(blk['stmts'])
        scan(blk['term'])
    return out


def fn_consts(body):
    out = set()

    def scan(o):
        if isinstance(o, dict):
            if 'fn' in o and isinstance(o['fn'], str):
                out.add(o['fn'])
            for v in o.values():
                scan(v)
        elif isinstance(o, list):
            for x in o:
                scan(x)
    for blk in body.blocks:
        scan(blk['stmts'])
        scan(blk['term'])
    return out


def run(ctx):
    cfgs = ['x86_64'] if ctx.tier == 'quick' else ['x86_64', 'aarch64', 'i686']
    ctx.rule('C16.a-lazy-dag', 'the lazy-initialisation graph of the global tables is acyclic and initialisers reach no blocking primitive')
    ctx.rule('C16.b-no-shared-mutable', 'no static mut / thread_local / interior-mutability type outside the LazyLock tables; no unsafe impl Send/Sync; engines hold only &\'static tables')
    ctx.rule('C16.c-send-sync-witness', 'type-level witnesses: Send/Sync of every codec, work and result type for every engine type')
    ctx.rule('C16.d-no-racy-unsafe', 'no raw-pointer dereference, static-mut access or union access in unsafe code')
    ctx.rule('C16.e-no-threads-locks', 'the crate calls into no thread, channel, lock or parking API')
    for cfg in cfgs:
        facts = ctx.facts(cfg)
        ctx.guard('C16.analysable', check, ctx, facts, cfg)
    # witnesses are target-independent (host build)
    ws = witness.run_witnesses(ctx.repo)
    n = 0
    for name, (ok, info) in sorted(ws.items()):
        if not name.startswith('C16.'):
            continue
        n += 1
        if ok:
            ctx.ok('C16.c-send-sync-witness', name, {'doctest': info})
        else:
            ctx.violation('C16.c-send-sync-witness', name, 'type-level witness failed: %s (a codec/work/result type lost Send or Sync for some engine type)' % info,
                          site='witness/src/lib.rs', fn=name)
    ctx.floor('C16.c-send-sync-witness', 2, n, 'C16 witnesses')


def check(ctx, facts, cfg):
    cg = callgraph(facts)
    # ---------------- (a)
    lazies = {p: s for p, s in facts.statics.items() if s['ty'].startswith('std::sync::LazyLock<')}
    ctx.floor('C16.a-lazy-dag', 5, len(lazies), 'LazyLock table statics (cfg %s)' % cfg, cfg=cfg)
    refs_of_fn = {p: static_refs(f.body) for p, f in facts.fns.items()}
    graph = {}
    for p, s in sorted(lazies.items()):
        inits = [q for q in fn_consts(s['body']) if q in facts.fns]
        if not inits:
            ctx.violation('C16.a-lazy-dag', 'no-initialiser', 'cannot identify the initialiser of %s' % p, site=s['span'], fn=p, cfg=cfg)
            continue
        seen, parent = cg.reachable(inits)
        deps = set()
        for q in seen:
            deps |= refs_of_fn.get(q, set())
            for (b, e) in cg.ext_sites.get(q, ()):
                if BLOCKING.search(e):
                    ctx.violation('C16.a-lazy-dag', 'blocking-in-init:%s' % core.short(e)[:50],
                                  'initialiser of %s reaches blocking primitive %s via %s' % (p, e, ' -> '.join(core.short(x) for x in cg.chain(parent, q))),
                                  site=facts.fns[q].span, fn=p, cfg=cfg)
        graph[p] = {d for d in deps if d in facts.statics}
    # the initialisers run once, through their LazyLock: nobody calls them directly (a direct call rebuilds a table privately,
    # outside the synchronised first use, on whichever thread gets there)
    all_inits = set()
    for p, s_ in lazies.items():
        all_inits |= {q for q in fn_consts(s_['body']) if q in facts.fns}
    for q in sorted(all_inits):
        callers = sorted(c_ for c_ in cg.callers.get(q, set()) if c_ not in facts.statics)
        if callers:
            ctx.violation('C16.a-lazy-dag', 'initialiser-called-directly:%s' % core.short(q), 'table initialiser %s is called directly by %s instead of being reached only through its LazyLock' % (q, callers),
                          site=facts.fns[q].span, fn=q, cfg=cfg)
        else:
            ctx.ok('C16.a-lazy-dag', 'only-through-lazylock:%s@%s' % (q, cfg), None)
    # cycle detection
    color = {}
    cyc = []

    def dfs(u, stack):
        color[u] = 1
        for v in sorted(graph.get(u, ())):
            if color.get(v) == 1:
                cyc.append(stack + [u, v])
            elif v not in color:
                dfs(v, stack + [u])
        color[u] = 2
    for u in sorted(graph):
        if u not in color:
            dfs(u, [])
    if cyc:
        for c in cyc:
            ctx.violation('C16.a-lazy-dag', 'cycle:%s' % '>'.join(core.short(x) for x in c[-2:]),
                          'lazy initialisation cycle: %s (first touch from two threads can deadlock; a single thread re-enters the same LazyLock)' % ' -> '.join(c),
                          site=lazies[c[-1]]['span'] if c[-1] in lazies else None, fn=c[-1], cfg=cfg)
    else:
        for p in sorted(graph):
            ctx.ok('C16.a-lazy-dag', '%s@%s' % (p, cfg), {'depends_on': sorted(graph[p])})

    # ---------------- (b)
    oncelocks = {}
    for p, s in sorted(facts.statics.items()):
        if s['mutable']:
            ctx.violation('C16.b-no-shared-mutable', 'static-mut', 'static mut %s' % p, site=s['span'], fn=p, cfg=cfg)
        elif p in lazies:
            inner = s['ty'][len('std::sync::LazyLock<'):]
            if INTERIOR.search(inner):
                ctx.violation('C16.b-no-shared-mutable', 'interior-in-table', 'table %s contains interior mutability: %s' % (p, s['ty']), site=s['span'], fn=p, cfg=cfg)
            else:
                ctx.ok('C16.b-no-shared-mutable', 'static:%s@%s' % (p, cfg), {'ty': s['ty']})
        elif s['ty'].startswith('std::sync::OnceLock<') and not INTERIOR.search(s['ty'][len('std::sync::OnceLock<'):]):
            # a once-only table kept in a OnceLock: as good as a LazyLock if it is only ever read or initialised through
            # get / get_or_init (which block the losers of the race until the winner's value is there).  `set` (the loser gets
            # Err), `take`, `get_mut` make the outcome depend on who wins.
            oncelocks[p] = s
            ctx.ok('C16.b-no-shared-mutable', 'static:%s@%s' % (p, cfg), {'ty': s['ty'], 'discipline': 'get / get_or_init only'})
        elif INTERIOR.search(s['ty']):
            ctx.violation('C16.b-no-shared-mutable', 'interior-static', 'static %s has interior-mutability type %s' % (p, s['ty']), site=s['span'], fn=p, cfg=cfg)
        else:
            ctx.ok('C16.b-no-shared-mutable', 'static:%s@%s' % (p, cfg), {'ty': s['ty']})
    for fp_, f_ in sorted(facts.fns.items()):
        if not oncelocks:
            break
        for b_, t_ in f_.body.calls():
            q_ = t_['callee'].get('path') or ''
            m_ = re.match(r'^std::sync::OnceLock::<T>::(\w+)', q_)
            if m_ and m_.group(1) not in ('get', 'get_or_init', 'new'):
                ctx.violation('C16.b-no-shared-mutable', 'oncelock-%s' % m_.group(1), 'fn %s uses OnceLock::%s on a shared once-only table: with racing first uses the outcome depends on which thread wins (only get / get_or_init are race-free)' % (fp_, m_.group(1)),
                              site=t_['line'], fn=fp_, cfg=cfg)
    for it in facts.other_items:
        if it['kind'].startswith('Static') or 'thread_local' in it['path'].lower():
            if it['path'] not in facts.statics:
                ctx.violation('C16.b-no-shared-mutable', 'other-static:%s' % it['path'], 'static item %s not analysed (thread_local! or nested static?)' % it['path'], site=it['span'], fn=it['path'], cfg=cfg)
    nadt = 0
    for p, a in sorted(facts.adts.items()):
        nadt += 1
        bad = [(fl['name'], fl['ty']) for v in a['variants'] for fl in v['fields'] if INTERIOR.search(fl['ty']) or fl['ty'].startswith('*')]
        if bad:
            ctx.violation('C16.b-no-shared-mutable', 'interior-field', 'type %s has field(s) with interior mutability or raw pointers: %s' % (p, bad), site=a['span'], fn=p, cfg=cfg)
        else:
            ctx.ok('C16.b-no-shared-mutable', 'adt:%s@%s' % (p, cfg), None)
    ctx.floor('C16.b-no-shared-mutable', 25, nadt, 'type definitions', cfg=cfg)
    # locals of interior / thread-local types in any body
    for p, f in sorted(facts.fns.items()):
        bad = sorted({l['ty'] for l in f.body.locals if INTERIOR.search(l['ty']) and 'LazyLock' not in l['ty']
                      and not (oncelocks and re.match(r"^&('\w+ )?std::sync::OnceLock<", l['ty']) and not INTERIOR.search(l['ty'].split('OnceLock<', 1)[1]))
                      and 'std::fmt' not in l['ty'] and 'core::fmt' not in l['ty']})
        bad = [b for b in bad if not re.search(r'fmt::(Formatter|Arguments)', b)]
        if bad:
            ctx.violation('C16.b-no-shared-mutable', 'interior-local', 'fn %s manipulates interior-mutability / lock / thread-local values: %s' % (p, bad[:3]), site=f.span, fn=p, cfg=cfg)
    # engines: fields are &'static tables only
    engs = {f.impl_self_adt for f in facts.fns.values() if f.impl_trait == 'engine::Engine' and f.impl_self_adt}
    for e in sorted(engs):
        a = facts.adts.get(e)
        if a is None:
            continue
        flds = [(fl['name'], fl['ty']) for v in a['variants'] for fl in v['fields']]
        bad = [x for x in flds if not (x[1].startswith("&'static ") or
                                       (x[1].startswith('std::boxed::Box<') and 'dyn engine::Engine' in x[1]
                                        and 'std::marker::Send' in x[1] and 'std::marker::Sync' in x[1]))]
        if bad:
            ctx.violation('C16.b-no-shared-mutable', 'engine-field', 'engine %s holds %s: engines must hold only shared references to the immutable tables' % (e, bad), site=a['span'], fn=e, cfg=cfg)
        else:
            ctx.ok('C16.b-no-shared-mutable', 'engine:%s@%s' % (e, cfg), {'fields': flds})
    ctx.floor('C16.b-no-shared-mutable', 4 if cfg == 'aarch64' else 5, len(engs), 'engine types', cfg=cfg)
    for im in facts.impls:
        if im.get('trait') in ('std::marker::Send', 'std::marker::Sync') and not im.get('negative'):
            ctx.violation('C16.b-no-shared-mutable', 'manual-send-sync:%s' % im['self_ty'], 'manual impl of %s for %s (unsafe=%s): thread-safety is no longer inferred from the fields' % (im['trait'], im['self_ty'], im.get('unsafe')),
                          site=im['span'], fn=im['self_ty'], cfg=cfg)

    # ---------------- (d)
    nun = 0
    for p, f in sorted(facts.fns.items()):
        def visit(n, parents):
            nonlocal nun
            if n.get('raw_deref'):
                ctx.violation('C16.d-no-racy-unsafe', 'raw-deref', 'raw pointer dereference', site=n.get('line') or f.span, fn=p, cfg=cfg)
            if n.get('static_mut'):
                ctx.violation('C16.d-no-racy-unsafe', 'static-mut-use', 'use of a static mut', site=f.span, fn=p, cfg=cfg)
            if n.get('union_field'):
                ctx.violation('C16.d-no-racy-unsafe', 'union-field', 'union field access', site=f.span, fn=p, cfg=cfg)
            if n.get('k') == 'block' and n.get('unsafe'):
                nun += 1
        core.hir_walk(f.hir, visit)
    ctx.ok('C16.d-no-racy-unsafe', 'census@%s' % cfg, {'unsafe_blocks_examined': nun})

    # ---------------- (e)
    for p in sorted(facts.fns):
        for (b, e) in cg.ext_sites.get(p, ()):
            if THREADY.search(e):
                ctx.violation('C16.e-no-threads-locks', 'call:%s' % core.short(e)[:60], '%s calls %s' % (p, e), site=facts.fns[p].body.term(b)['line'], fn=p, cfg=cfg)
    ctx.ok('C16.e-no-threads-locks', 'externs@%s' % cfg, {'external_callees_examined': len(facts.externs)})
