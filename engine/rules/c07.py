"""C07 — a failed call changes nothing and leaves the object usable (failure atomicity)."""
import re
from . import core, summ
from .core import op_place

EXPLANATION = (
    "Failure-atomicity rule over MIR, for every function that takes a &mut codec/work object and "
    "returns Result<_, Error> (all rates, wrappers, work objects, private reset helpers): for every "
    "mutation site m through the &mut parameter (assignment, drop-in-place, or call whose summary "
    "writes through the argument; summaries computed bottom-up at instance level, external callees by "
    "an explicit table, unknown externals count as writers) and every Err exit x reachable from m in "
    "the CFG, (m, x) is a violation unless (E1) x is the Err edge of the very call m and the callee is "
    "itself in scope (checked on its own), or (D1) x is the `?` edge of a call whose fail-sources are "
    "all pure predicates V(args) and an earlier call of the same resolved V with canonically equal, "
    "never-reassigned arguments has its Ok edge dominating m after pruning CFG edges that contradict "
    "the branch facts under which the failing call is reached (same pure predicate, same arguments, "
    "already known true => the later Err edge is infeasible).")
DECIDES = "no write to the object on any path that ends in Err (the whole statement modulo later panics, which is C06)."
NOT_DECIDED = "that later calls do not panic for other reasons (C06)."
TRUSTED = ["external mutator/derive table in engine/rules/summ.py", "std::mem::take / Vec / FixedBitSet documented behaviour"]
ASSUMPTIONS = ["a pure function of the same arguments returns the same result (used by D1)"]


def in_scope(fn):
    if fn is None or not fn.output:
        return False
    if not fn.output.startswith('std::result::Result<'):
        return False
    b = fn.body
    for i in range(1, b.arg_count + 1):
        t = b.local_ty(i)
        if t.startswith('&mut ') and summ.STATE_ADTS_RE.search(t):
            return True
    return False


def branch_facts(body, target_bb):
    """M2: facts (local -> 'zero'|'nonzero'|value) that hold on every path to target_bb, from
    SwitchInt over never-reassigned named locals."""
    facts = {}
    for s in range(body.n):
        t = body.term(s)
        if t['k'] != 'switch' or body.blocks[s]['cleanup']:
            continue
        c = body.canon_op(t['discr'], expand_named=False)
        if c[0] == 'discr' and isinstance(c[1], tuple) and c[1] and c[1][0] == 'var':
            c = c[1]        # `match flag_enum { A => .., B => .. }` on a never-reassigned local: a fact about that local like `if flag`
        if c[0] not in ('var', 'param'):
            continue
        l = c[2] if c[0] == 'var' else None
        if l is None:
            continue
        if body.locals[l].get('mut'):
            continue
        whole = [d for d in body.defs().get(l, []) if d[0] in ('stmt', 'call')]
        if len(whole) != 1:
            continue
        edges = [(s, tgt, ('eq', v)) for v, tgt in t['targets']] + \
                [(s, t['otherwise'], ('ne', tuple(v for v, _ in t['targets'])))]
        for (a, b2, fact) in edges:
            others = {(a, x) for (_, x, _) in edges if x != b2}
            if body.edge_dominates((a, b2), target_bb) and target_bb in body.reachable_from(0):
                facts[l] = fact
    return facts


def prune_for_facts(body, facts):
    removed = set()
    for s in range(body.n):
        t = body.term(s)
        if t['k'] != 'switch':
            continue
        c = body.canon_op(t['discr'], expand_named=False)
        if c[0] == 'discr' and isinstance(c[1], tuple) and c[1] and c[1][0] == 'var':
            c = c[1]
        if c[0] != 'var' or c[2] not in facts:
            continue
        fact = facts[c[2]]
        for v, tgt in t['targets']:
            if fact[0] == 'eq' and v != fact[1]:
                removed.add((s, tgt))
            if fact[0] == 'ne' and v in fact[1]:
                removed.add((s, tgt))
        if fact[0] == 'eq' and fact[1] not in [v for v, _ in t['targets']]:
            pass
        elif fact[0] == 'eq':
            removed.add((s, t['otherwise']))
    # an edge to a block that is also the target of a kept edge must stay
    return removed


def run(ctx):
    # x86_64+release: the same source with debug assertions off, so that a validation or a check hidden behind
    # cfg(debug_assertions) (present in every test build, absent in the builds users ship) is seen missing
    cfgs = ['x86_64', 'x86_64+release'] if ctx.tier == 'quick' else ['x86_64', 'x86_64+release', 'aarch64', 'i686']
    ctx.rule('C07.scope', 'functions with a &mut codec/work parameter returning Result<_,Error>')
    ctx.rule('C07.atomic', 'no mutation site reaches an Err exit (exceptions E1, D1)')
    ctx.rule('C07.d1', 'D1 discharge: same pure predicate already true on every path to the mutation')
    ctx.rule('C07.errpath', 'nothing is called on the Err path after the failure besides conversions')
    for cfg in cfgs:
        facts = ctx.facts(cfg)
        ctx.guard('C07.analysable', check_cfg, ctx, facts, cfg)


def check_cfg(ctx, facts, cfg):
    S = summ.summaries(facts)
    scope = {}
    for k, rec in facts.instances.items():
        fn = facts.fns.get(rec['def'])
        if in_scope(fn):
            scope[k] = fn
    # identity instances only are checked (concrete DefaultEngine instances have the same MIR);
    # but keys with symbolic E and with DefaultEngine both appear: check all, dedupe by def+overlay
    n_scope = 0
    seen_defs = set()
    by_def = {}
    for key in sorted(scope):
        by_def.setdefault(scope[key].path, []).append(key)
    chosen = []
    for d, keys in sorted(by_def.items()):
        generic = [k for k in keys if 'engine_default::DefaultEngine' not in k]
        chosen.append((generic or keys)[0])   # one instance per definition: the one with symbolic E
    for key in chosen:
        fn = scope[key]
        inst = S.inst(key)
        sig = (fn.path, tuple(sorted((bb, (c.get('key') or c.get('path'))) for bb, c in inst.overlay.items())))
        generic = ('DefaultEngine' not in key)
        if not generic:
            # concrete instance: same body; analysed too (cheap), keyed separately only if it differs
            pass
        n_scope += 1
        ctx.ok('C07.scope', '%s@%s' % (key, cfg), None, nontrivial=False)
        # private helpers of the same file that are not themselves in scope (they take the codec by value, or no codec at
        # all) are analysed in place: `self.0 = take(&mut self.0).reconfigure(..)?` is the match it was extracted from
        fi = core.inlined_fn(facts, fn.path, lambda g, t, f0=fn: (not g.reachable and not g.impl_trait and not g.in_trait and g.kind != 'Closure'
                                                                    and g.file == f0.file and not in_scope(g) and g.output
                                                                    and g.output.startswith('std::result::Result<')), tag='c07')
        if fi is not fn:
            inst2 = summ.Inst(S, key)
            inst2.fn = fi
            S._inst[fi.path] = inst2
            check_instance(ctx, facts, S, fi.path, fi, inst2, scope, cfg, report_key=key)
            continue
        check_instance(ctx, facts, S, key, fn, inst, scope, cfg)
    # the floor counts what cannot disappear without an API change: the public fallible functions taking a codec by &mut
    # (private helpers such as reset_work come and go with refactorings; they are analysed when they exist)
    defs = {f.path for f in scope.values()}
    ctx.floor('C07.scope', 28, len({f.path for f in scope.values() if f.reachable}), 'public in-scope function definitions (cfg %s)' % cfg, cfg=cfg)
    from . import roles as roles_mod
    RL = roles_mod.roles(facts)
    required = [RL.fn.get(r) for r in ('dec.add_original', 'dec.add_recovery', 'dec.begin', 'enc.add_original', 'enc.begin') if RL.fn.get(r)] + [
        '<rate::rate_default::DefaultRateEncoder<E> as rate::RateEncoder<E>>::reset',
        '<rate::rate_default::DefaultRateDecoder<E> as rate::RateDecoder<E>>::reset',
        'reed_solomon::ReedSolomonEncoder::reset', 'reed_solomon::ReedSolomonDecoder::reset',
        'reed_solomon::ReedSolomonDecoder::add_original_shard', 'reed_solomon::ReedSolomonEncoder::add_original_shard',
    ]
    for r in required:
        if r not in defs:
            ctx.violation('C07.scope', 'anchor-missing', 'anchor missing or no longer in scope (signature changed?): %s' % r, fn=r, cfg=cfg)
    if S.unknown_ext:
        ctx.note('external callees taking a derived &mut that are in neither table (treated as writers): %s' % sorted(S.unknown_ext))


def check_instance(ctx, facts, S, key, fn, inst, scope, cfg, report_key=None):
    body = fn.body
    rk = report_key or key
    sites = S.mutation_sites(key)
    errs, oks = core.result_exits(body)
    tsites = core.try_sites(body)
    res_of = {}   # residual block -> try site
    for ts in tsites:
        if ts['err_bb'] is not None:
            # err_bb leads (straight line) to the from_residual call block
            b = ts['err_bb']
            hops = 0
            while hops < 4:
                t = body.term(b)
                if t['k'] == 'call' and t['callee'].get('decl') == 'std::ops::FromResidual::from_residual':
                    res_of[b] = ts
                    break
                nx = body.succs(b)
                if len(nx) != 1:
                    break
                b = nx[0]
                hops += 1
    # Err exits: (bb, pos, kind, info)
    xs = []

    def producers(ts, depth=0):
        """`?` applied to a Result held in a local that several places write (an inlined helper's exits): the failures that
        can arrive here are the failures of those places"""
        out = []
        if ts is None or ts['call_bb'] is not None or depth > 3:
            return None
        arg = op_place(body.term(ts['branch_bb'])['args'][0])
        if arg is None or arg['p']:
            return None
        for d in body.defs().get(arg['l'], []):
            if d[0] == 'stmt':
                st = body.blocks[d[1]]['stmts'][d[2]]
                rv = st['rv']
                if rv['k'] == 'agg' and rv.get('adt') == 'std::result::Result':
                    if rv.get('variant') == 'Err':
                        out.append({'bb': d[1], 'pos': d[2], 'kind': 'ctor', 'ts': None})
                    continue
                return None
            elif d[0] == 'call':
                t = body.term(d[1])
                if t['callee'].get('decl') == 'std::ops::FromResidual::from_residual':
                    inner = res_of.get(d[1])
                    sub = producers(inner, depth + 1)
                    if sub is None:
                        out.append({'bb': d[1], 'pos': 'term', 'kind': 'residual', 'ts': inner})
                    else:
                        out.extend(sub)
                else:
                    out.append({'bb': d[1], 'pos': 'term', 'kind': 'residual', 'ts': {'call_bb': d[1], 'branch_bb': ts['branch_bb'], 'switch_bb': ts['switch_bb'],
                                                                                  'ok_bb': ts['ok_bb'], 'err_bb': ts['err_bb'], 'callee': t['callee'], 'line': t['line']}})
            else:
                return None
        return out
    for (b, kind, detail) in errs:
        pos = detail if kind == 'ctor' else 'term'
        ts0 = res_of.get(b)
        sub = producers(ts0) if kind == 'residual' else None
        if sub:
            # the assignment of an inner failure to a local that is then re-tried is not itself an exit of the function
            for y in sub:
                y['outer_bb'] = b
            xs.extend(sub)
            continue
        xs.append({'bb': b, 'pos': pos, 'kind': kind, 'ts': ts0})
    for (b, kind, detail) in oks:
        if kind == 'tailcall' and body.local_ty(0).startswith('std::result::Result<'):
            xs.append({'bb': b, 'pos': 'term', 'kind': 'tail', 'ts': None})
    short_key = rk
    if not sites:
        ctx.ok('C07.atomic', '%s@%s' % (short_key, cfg), None, nontrivial=False)
        return
    # mutation AFTER the failure was produced, on the way out (e.g. an RAII guard dropped by `?`)
    ok_blocks = [b for (b, kind, d) in oks if kind == 'ctor']
    from_ok = set()
    for ob in ok_blocks:
        from_ok |= body.reachable_flagged(ob)
    for x in xs:
        if x['kind'] == 'tail':
            continue
        tail = body.reachable_flagged(x.get('outer_bb', x['bb']))
        for m in sites:
            if m['bb'] in tail and m['bb'] != x.get('outer_bb', x['bb']) and m['bb'] not in from_ok:
                ctx.violation('C07.atomic', '%s-after->%s' % (m['what'].split(' (')[0], xdesc(body, inst, x)),
                              'state is modified (%s at %s) on the error path AFTER the failure %s was produced and before it is returned'
                              % (m['what'], m['line'], xdesc(body, inst, x)), site=m['line'], fn=rk, cfg=cfg,
                              detail={'mutation': m['what'], 'err_exit': xdesc(body, inst, x)})
    pruned = body.const_pruned_edges()      # M1: `if flag` on a constant flag (a helper inlined with a literal argument)
    for m in sites:
        after = body.reachable_from(m['bb'], removed_edges=pruned)
        for x in xs:
            # is x reachable from m?
            if x['bb'] == m['bb']:
                if m['idx'] == 'term' and x['pos'] == 'term':
                    reach = (x['kind'] == 'tail')   # the same terminator
                    same_term = True
                elif m['idx'] == 'term':
                    reach = x['bb'] in {s for s in body.succs(m['bb'])} and False
                    same_term = False
                    # stmt in same block precedes the terminator -> not after m unless loop
                    reach = m['bb'] in reach_from_succ(body, m['bb'])
                elif x['pos'] == 'term':
                    reach, same_term = True, False
                else:
                    reach, same_term = (x['pos'] > m['idx']) or (m['bb'] in reach_from_succ(body, m['bb'])), False
            else:
                reach = x['bb'] in after
                same_term = False
            if not reach:
                continue
            ident = '%s|%s->%s' % (short_key, m['what'].split(' (')[0], xdesc(body, inst, x))
            # ---- E1: x is the Err edge of the call m itself, callee in scope
            if m['idx'] == 'term' and 'callee' in m and m.get('kind') in ('crate', 'cha'):
                callee_in_scope = m['callee'] in scope or any(
                    (S.inst(m['callee']).fn is not None and in_scope(S.inst(m['callee']).fn)) for _ in [0])
                if callee_in_scope:
                    if x['kind'] == 'tail' and x['bb'] == m['bb']:
                        ctx.ok('C07.atomic', ident + '@' + cfg, {'exception': 'E1 tail call of in-scope callee', 'callee': m['callee']})
                        continue
                    if x['ts'] is not None and x['ts']['call_bb'] == m['bb']:
                        ctx.ok('C07.atomic', ident + '@' + cfg, {'exception': 'E1 `?` on in-scope callee', 'callee': m['callee']})
                        continue
            # ---- E1': the failing call is an external mutator documented to leave its receiver unchanged on failure
            if m['idx'] == 'term' and 'callee' in m and ATOMIC_EXT.search(m['callee'] or '') and x['ts'] is not None \
                    and producer_chain(body, x['ts']['call_bb'], m['bb']):
                ctx.ok('C07.atomic', ident + '@' + cfg, {'exception': "E1' external callee with documented failure atomicity", 'callee': m['callee']})
                continue
            if m['idx'] == 'term' and 'callee' in m and m.get('kind') in ('crate', 'cha') and x['ts'] is not None \
                    and x['ts']['call_bb'] != m['bb'] and producer_chain(body, x['ts']['call_bb'], m['bb']):
                g = S.inst(m['callee']).fn
                if g is not None and in_scope(g):
                    ctx.ok('C07.atomic', ident + '@' + cfg, {'exception': 'E1 `?` on in-scope callee through an error adaptor', 'callee': m['callee']})
                    continue
            # ---- V1: the callee says by its bool result whether it did anything (`fn store(..) -> Result<bool, Error>`,
            # `Ok(false)` = nothing stored), and this Err exit is taken only for the value on which it changed nothing
            v1 = value_says_untouched(S, body, tsites, m, x)
            if v1:
                ctx.ok('C07.atomic', ident + '@' + cfg, {'exception': 'V1', 'proof': v1, 'mutation': m['what'], 'at': m['line']})
                continue
            # ---- D1
            ok, why = d1(ctx, facts, S, key, fn, inst, m, x, cfg)
            if ok:
                ctx.ok('C07.atomic', ident + '@' + cfg, {'exception': 'D1', 'proof': why, 'mutation': m['what'], 'at': m['line']})
                continue
            ctx.violation('C07.atomic', '%s->%s' % (m['what'].split(' (')[0], xdesc(body, inst, x)),
                          'state is modified (%s at %s) on a path that can still return Err (%s at %s)%s'
                          % (m['what'], m['line'], xdesc(body, inst, x), exit_line(body, x), '; D1 not applicable: ' + why if why else ''),
                          site=m['line'], fn=rk, cfg=cfg,
                          detail={'mutation': m['what'], 'mutation_at': m['line'], 'err_exit': xdesc(body, inst, x),
                                  'err_exit_at': exit_line(body, x)})


def ok_bool_exits(gbody):
    """{True: [bb], False: [bb]} blocks of a Result<bool, _> function that build `Ok(<literal>)`; None when some Ok exit
    carries a computed value"""
    out = {True: [], False: []}
    errs, oks = core.result_exits(gbody)
    for (b, kind, d) in oks:
        if kind != 'ctor':
            return None
        st = gbody.blocks[b]['stmts'][d]
        ops = st['rv'].get('ops') or []
        if len(ops) != 1:
            return None
        c = gbody.canon_op(ops[0])
        if not (isinstance(c, tuple) and c[0] == 'const' and c[1] in (0, 1, True, False)):
            return None
        out[bool(c[1])].append(b)
    return out


def value_says_untouched(S, body, tsites, m, x):
    if not (m['idx'] == 'term' and 'callee' in m and m.get('kind') in ('crate', 'cha')) or x['kind'] != 'ctor':
        return None
    g = S.inst(m['callee']).fn
    if g is None or g.reachable or not re.match(r'^std::result::Result<bool, ', g.output or ''):
        return None
    ts = [t for t in tsites if t['call_bb'] == m['bb'] and t['ok_bb'] is not None]
    if len(ts) != 1:
        return None
    ts = ts[0]
    # the switch on the payload: canonical discriminant mentions the Continue payload of this `?`
    for sb in range(body.n):
        t = body.term(sb)
        if t['k'] != 'switch' or len(t['targets']) != 1 or t['targets'][0][0] != 0 or not body.dominates(ts['ok_bb'], sb):
            continue
        c = body.canon_op(t['discr'])
        neg = False
        while isinstance(c, tuple) and c[:2] == ('un', 'Not'):
            neg, c = (not neg), c[2]
        txt = repr(c)
        if 'Continue' not in txt or ('(%d' % ts['branch_bb']) not in txt.replace(' ', '') and str(ts['branch_bb']) not in txt:
            continue
        if not (isinstance(c, tuple) and c[0] == 'field'):
            continue
        f_edge, t_edge = (sb, t['targets'][0][1]), (sb, t['otherwise'])
        for edge, disc_true in ((f_edge, False), (t_edge, True)):
            if body.edge_dominates(edge, x['bb']):
                val = (not disc_true) if neg else disc_true          # value of the payload on this edge
                exits = ok_bool_exits(g.body)
                if not exits or not exits[val]:
                    return None
                for gm in S.mutation_sites(m['callee']):
                    reach = g.body.reachable_from(gm['bb'])
                    if any(e in reach for e in exits[val]):
                        return None
                return '%s returns Ok(%s) only on paths on which it has modified nothing, and this exit is taken only for that value' % (core.short(g.path), str(val).lower())
    return None


ATOMIC_EXT = re.compile(r'^std::vec::Vec::<.*>::try_reserve(_exact)?$|^std::collections::.*::try_reserve$')
ADAPT = re.compile(r'Result::<.*>::(map_err|or_else|and_then|map)$|Option::<.*>::(ok_or|ok_or_else)$')


def producer_chain(body, call_bb, target_bb, depth=0):
    """is the value tried at call_bb produced (through map_err-like adaptors) by the call at target_bb?"""
    if call_bb is None or depth > 4:
        return False
    if call_bb == target_bb:
        return True
    t = body.term(call_bb)
    if t['k'] != 'call' or not ADAPT.search(t['callee'].get('path') or ''):
        return False
    pl = op_place(t['args'][0]) if t['args'] else None
    if pl is None or pl['p']:
        return False
    ds = [d for d in body.defs().get(pl['l'], []) if d[0] == 'call']
    return len(ds) == 1 and producer_chain(body, ds[0][1], target_bb, depth + 1)


def reach_from_succ(body, b):
    out = set()
    for s in body.succs(b):
        out |= body.reachable_from(s)
    return out


def exit_line(body, x):
    if x['pos'] == 'term':
        return body.term(x['bb'])['line']
    return body.blocks[x['bb']]['stmts'][x['pos']]['line']


def xdesc(body, inst, x):
    if x['kind'] == 'ctor':
        st = body.blocks[x['bb']]['stmts'][x['pos']]
        c = body.canon_rv(st['rv'])
        try:
            inner = c[3][0][1]
            return 'Err(%s)' % (inner[2] if inner[0] == 'adt' else '..')
        except Exception:
            return 'Err(..)'
    if x['kind'] == 'tail':
        return 'return %s(..)' % core.short(inst.callee_key(x['bb']) or '?')
    ts = x['ts']
    if ts and ts['call_bb'] is not None:
        return '%s(..)?' % core.short(inst.callee_key(ts['call_bb']) or '?')
    return '?'


def d1(ctx, facts, S, key, fn, inst, m, x, cfg):
    body = fn.body
    ts = x.get('ts')
    if x['kind'] == 'tail':
        call_bb = x['bb']
    elif ts is not None and ts['call_bb'] is not None:
        call_bb = ts['call_bb']
    else:
        return False, 'the Err is constructed here'
    leaves = S._callee_fs(inst, call_bb, (key,))
    if not leaves:
        return False, 'callee has no known fail-source'
    bf = branch_facts(body, call_bb)
    removed = prune_for_facts(body, bf)
    proofs = []
    for leaf in sorted(leaves, key=repr):
        if leaf[0] != 'pred':
            return False, 'fail-source %s is not a pure predicate' % (leaf,)
        pred, args = leaf[1], leaf[2]
        # arguments must be immutable values (params / never-reassigned locals)
        for a in args:
            if not stable_value(body, a):
                return False, 'argument %s of %s is not a never-reassigned value' % (core.show(a), core.short(pred))
        found = None
        for ts2 in core.try_sites(body):
            if ts2['call_bb'] is None or ts2['ok_bb'] is None:
                continue
            t2 = body.term(ts2['call_bb'])
            a2 = tuple(core.strip_var_ids(body.canon_op(a)) for a in t2['args'])
            if S.canon_pred(inst.callee_key(ts2['call_bb'])) != pred or a2 != args:
                # ... or a pure validator that cannot return Ok without this very predicate having succeeded
                # (`validate(o, r, s)?` = `check_supported(o, r)?; checked_len(s)?; Ok(())`)
                if (pred, args) not in must_leaves(S, inst, ts2['call_bb'], a2, key):
                    continue
            edge = (ts2['switch_bb'], ts2['ok_bb'])
            if body.edge_dominates(edge, m['bb'], removed) and m['bb'] in body.reachable_from(0, removed):
                found = ts2
                break
        if not found:
            return False, 'no earlier successful call of %s(%s) dominates the mutation%s' % (
                core.short(pred), ', '.join(core.show(a) for a in args),
                ' under branch facts %s' % {body.local_name(l): v for l, v in bf.items()} if bf else '')
        proofs.append('%s(%s) already Ok at %s' % (core.short(pred), ', '.join(core.show(a) for a in args), found['line']))
        ctx.ok('C07.d1', '%s|%s|%s@%s' % (key, core.short(pred), m['what'].split(' (')[0], cfg), None)
    return True, '; '.join(proofs) + (' [branch facts: %s]' % {body.local_name(l): v for l, v in bf.items()} if bf else '')


def must_leaves(S, inst, call_bb, args, key, _depth=0):
    """(predicate, caller-side arguments) pairs that have succeeded whenever the pure crate function called at call_bb returned Ok:
    its own `?` sites whose Ok edge dominates every Ok exit, one level deep"""
    cal = inst.callee(call_bb)
    ck = cal.get('key') or cal.get('path') or '?'
    if not cal.get('local') or cal.get('unresolved') or not S.pure(ck):
        return set()
    callee = S.inst(ck)
    if callee.fn is None:
        return set()
    cb = callee.fn.body
    errs, oks = core.result_exits(cb)
    okb = [b for (b, k, d) in oks]
    if not okb:
        return set()
    sub = {n: args[i] for i, n in enumerate(callee.fn.param_names()) if n is not None and i < len(args)}
    out = set()
    if len(oks) == 1 and oks[0][1] == 'tailcall' and not errs and _depth < 3:
        # a forwarder (`RateDecoder::validate` = `Self::Rate::validate(o, r, s)`): what its target guarantees
        tb = oks[0][0]
        a3 = tuple(summ.subst(core.strip_var_ids(cb.canon_op(a)), sub) for a in cb.term(tb)['args'])
        return must_leaves(S, callee, tb, a3, key, _depth + 1)
    for ts in core.try_sites(cb):
        if ts['call_bb'] is None or ts['ok_bb'] is None:
            continue
        if not all(cb.edge_dominates((ts['switch_bb'], ts['ok_bb']), ob) for ob in okb):
            continue
        for leaf in S._callee_fs(callee, ts['call_bb'], (key, ck)):
            if leaf[0] == 'pred':
                out.add((leaf[1], tuple(summ.subst(a, sub) for a in leaf[2])))
    return out


def stable_value(body, c):
    if not isinstance(c, tuple):
        return True
    if c[0] == 'param':
        # params are immutable unless declared mut
        for i in range(1, body.arg_count + 1):
            if body.local_name(i) == c[1]:
                return not body.locals[i].get('mut')
        return False
    if c[0] == 'const':
        return True
    if c[0] == 'var':
        return False
    return all(stable_value(body, x) for x in c[1:] if isinstance(x, tuple))
