"""M8 — check-before-use analysis for caller-supplied scalars.

Forward may-taint dataflow over MIR, on *names* (parameters and user variables); compiler
temporaries are expanded through their single definition.  A name stops being tainted
  * on the bounding edge of an ordering comparison in which an expression mentioning it is
    bounded above by an untainted value (a < b / a <= b true edge bounds a; false edge bounds b),
  * on both edges of an equality test in which it is an operand (the value was inspected),
  * on the success edge (true / Ok / Continue) of a call to a crate function whose own
    summary says "parameter i is checked on every successful exit".
Sinks: MIR Assert terminators (overflow, bounds, division), calls of range-sensitive
functions with a tainted argument, explicit panics governed by a tainted condition.
Taint enters callees through arguments (call-site state), not through memory."""
import re
from collections import defaultdict
from . import core
from .core import op_place

RANGE_SENSITIVE = [
    (r'^core::num::<impl usize>::(next_power_of_two|next_multiple_of|pow|isqrt|ilog2|ilog|ilog10)$', 'arith'),
    (r'std::ops::Index(Mut)?.*::index(_mut)?$', 'index'),
    (r'^core::slice::<impl \[T\]>::(split_at|split_at_mut|copy_within|swap|chunks|chunks_mut|chunks_exact|rotate_left|rotate_right|windows)$', 'slice'),
    (r'^core::slice::index::', 'index'),
    (r'^fixedbitset::FixedBitSet::(set|put|insert|toggle|set_range|insert_range|copy_bit)$', 'bitset'),
    (r'^core::array::<impl \[T; N\]>::(split_at|split_at_mut)', 'slice'),
    (r'^std::vec::Vec::<.*>::(remove|swap_remove|insert|split_off|drain|truncate)$', 'vec'),
    (r'^core::slice::<impl \[T\]>::(get_unchecked|get_unchecked_mut)$', 'unchecked'),
    (r'^std::vec::Vec::<.*>::(with_capacity|reserve|reserve_exact)$', 'capacity'),      # panics with `capacity overflow` for huge counts
    (r'^std::collections::(HashMap|HashSet|VecDeque)::<.*>::(with_capacity|reserve)$', 'capacity'),
]
RANGE_RE = [(re.compile(a), b) for a, b in RANGE_SENSITIVE]
PANIC_RE = re.compile(r'^(core|std)::panicking::|^core::panicking|^std::rt::(begin_panic|panic)|assert_failed|::unwrap_failed|^core::option::(unwrap_failed|expect_failed)|^core::result::unwrap_failed')


def names_in(c, out=None):
    """names (param/var) mentioned in a canonical expression"""
    if out is None:
        out = set()
    if isinstance(c, tuple):
        if c and c[0] == 'param':
            out.add(('param', c[1]))
            return out
        if c and c[0] == 'var':
            out.add(('var', c[1], c[2]))
            return out
        if c and c[0] == 'call':
            for a in c[2]:
                names_in(a, out)
            return out
        if c and c[0] == 'field':
            # reading a field of an object is clean (taint does not flow through memory)
            if c[1][0] in ('deref', 'param', 'var', 'field', 'ref', 'down'):
                base = c[1]
                while base[0] in ('deref', 'field', 'ref', 'down'):
                    base = base[1]
                if base[0] in ('param', 'var'):
                    # scalar projected out of a by-value tuple/struct local stays tainted only if
                    # the local itself is a tainted scalar carrier; object fields are clean
                    return out
            names_in(c[1], out)
            return out
        if c and c[0] == 'tuple' and len(c) == 2 and isinstance(c[1], tuple):
            for x in c[1]:          # ('tuple', (a, b, ..)): every component (the argument tuple of a closure call)
                names_in(x, out)
            return out
        for x in c[1:]:
            names_in(x, out)
    return out


class FnTaint:
    def __init__(self, T, fn):
        self.T = T
        self.fn = fn
        self.body = fn.body
        self.tainted_params = set()   # param names tainted at entry
        self.in_state = None
        self.sinks = []               # (bb, kind, detail, line, names)
        self.checked_on_success = set()
        self.overlay = {}

    def call_key(self, node):
        """instance key of a canonical ('call', key, args, bb) node, resolved through the
        instance overlay when this body is analysed as an instance of a provided method"""
        if len(node) > 3 and str(node[3]) in self.overlay:
            c = self.overlay[str(node[3])]
            return c.get('key') or c.get('path') or node[1]
        return node[1]

    def term_key(self, b):
        if str(b) in self.overlay:
            c = self.overlay[str(b)]
            return c.get('key') or c.get('path')
        c = self.body.term(b)['callee']
        return c.get('key') or c.get('path') or ''

    def pname(self, i):
        return self.body.local_name(i) or ('_%d' % i)

    def canon(self, op):
        return self.body.canon_op(op, expand_named=False)

    def tainted_in(self, c, state):
        ns = names_in(c)
        return {n for n in ns if n in state}

    def analyse(self):
        body = self.body
        n = body.n
        entry = frozenset(('param', p) for p in self.tainted_params)
        IN = {0: set(entry)}
        work = [0]
        edge_out = {}
        iters = 0
        while work and iters < 20000:
            iters += 1
            b = work.pop()
            state = set(IN.get(b, set()))
            blk = body.blocks[b]
            for st in blk['stmts']:
                if st['k'] != 'assign':
                    continue
                l = st['lhs']
                if l['p']:
                    continue
                nm = body.local_name(l['l'])
                if nm is None or (1 <= l['l'] <= body.arg_count):
                    continue
                c = body.canon_rv(st['rv'], 0, False)
                key = ('var', nm, l['l'])
                if (self.tainted_in(c, state) or self.ostat_tainted(l['l'], state)) and scalar_like(body.local_ty(l['l'])):
                    state.add(key)
                else:
                    state.discard(key)
            t = blk['term']
            outs = {}
            if t['k'] == 'call':
                # named destination
                d = t['dest']
                if not d['p']:
                    nm = body.local_name(d['l'])
                    if nm is not None and not (1 <= d['l'] <= body.arg_count):
                        key = ('var', nm, d['l'])
                        anyt = any(self.tainted_in(self.canon(a), state) for a in t['args'])
                        if anyt and scalar_like(body.local_ty(d['l'])) and not self.is_validator_call(t):
                            state.add(key)
                        else:
                            state.discard(key)
                for s in body.succs(b):
                    outs[s] = set(state)
            elif t['k'] == 'switch':
                c = self.canon(t['discr'])
                for s in set(body.succs(b)):
                    outs[s] = set(state)
                self.apply_guard(b, t, c, state, outs)
            else:
                for s in body.succs(b):
                    outs[s] = set(state)
            for s, st_out in outs.items():
                old = IN.get(s)
                if old is None:
                    IN[s] = set(st_out)
                    work.append(s)
                elif not st_out <= old:
                    IN[s] = old | st_out
                    work.append(s)
        self.in_state = IN
        return IN

    def order_stat(self, l):
        """('max' | 'min', x, y) if named local l is one component of `let (a, b) = if x <= y { (x, y) } else { (y, x) };`
        (any of < <= > >=, either arrangement): l is then max(x, y) resp. min(x, y), so an upper bound on a 'max' bounds
        both x and y.  Recognised on the MIR: l = _t.i once; _t = tuple in the two successors of one switch on the
        comparison of the same two operands; None for any other shape."""
        cache = self.__dict__.setdefault('_ostat', {})
        if l in cache:
            return cache[l]
        cache[l] = None
        body = self.body
        defs = [(b, st) for b in range(body.n) for st in body.blocks[b]['stmts']
                if st['k'] == 'assign' and st['lhs']['l'] == l and not st['lhs']['p']]
        if len(defs) != 1 or defs[0][1]['rv'].get('k') != 'use':
            return None
        pl = core.op_place(defs[0][1]['rv']['op'])
        if not pl or len(pl['p']) != 1 or 'f' not in pl['p'][0]:
            return None
        t, idx = pl['l'], pl['p'][0].get('i')
        tdefs = [(b, st) for b in range(body.n) for st in body.blocks[b]['stmts']
                 if st['k'] == 'assign' and st['lhs']['l'] == t and not st['lhs']['p']]
        if len(tdefs) != 2 or any(st['rv'].get('k') != 'agg' or st['rv'].get('agg') != 'tuple' for _, st in tdefs):
            return None
        (b1, s1), (b2, s2) = tdefs
        p1, p2 = body.preds(b1), body.preds(b2)
        if len(p1) != 1 or len(p2) != 1 or p1[0] != p2[0] or b1 == b2:
            return None
        sw = body.term(p1[0])
        if sw['k'] != 'switch' or len(sw['targets']) != 1 or sw['targets'][0][0] != 0:
            return None
        c = self.canon(sw['discr'])
        if not (c[0] == 'bin' and c[1] in ('Lt', 'Le', 'Gt', 'Ge')):
            return None
        x, y = c[2], c[3]
        f_blk, t_blk = sw['targets'][0][1], sw['otherwise']
        vals = {}
        for bb, st in tdefs:
            cv = body.canon_rv(st['rv'], 0, False)
            if not (cv[0] == 'tuple' and idx is not None and idx < len(cv[1])):
                return None
            vals[bb] = cv[1][idx]
        if set(vals) != {f_blk, t_blk}:
            return None
        vt, vf = vals[t_blk], vals[f_blk]
        if {repr(vt), repr(vf)} != {repr(x), repr(y)} or x == y:
            return None
        small_first = c[1] in ('Lt', 'Le')
        is_min = ((vt == x) == small_first)
        cache[l] = ('min' if is_min else 'max', x, y)
        return cache[l]

    def ostat_tainted(self, l, state):
        """a min / max of tainted operands is tainted (the value travels through an unnamed tuple)"""
        os_ = self.order_stat(l)
        return bool(os_ and (self.tainted_in(os_[1], state) or self.tainted_in(os_[2], state)))

    def bounded_with(self, names, state):
        """names whose upper bound follows from an upper bound on `names`: the operands of a max"""
        more = set()
        for n_ in names:
            if n_[0] == 'var' and len(n_) > 2:
                os_ = self.order_stat(n_[2])
                if os_ and os_[0] == 'max':
                    more |= self.tainted_in(os_[1], state) | self.tainted_in(os_[2], state)
                    for m_ in state:        # ... and the min of the same pair
                        if m_[0] == 'var' and len(m_) > 2:
                            om = self.order_stat(m_[2])
                            if om and {repr(om[1]), repr(om[2])} == {repr(os_[1]), repr(os_[2])}:
                                more.add(m_)
        return more

    def is_validator_call(self, t):
        cal = t['callee']
        if not cal.get('local'):
            return False
        out = self.T.facts.fns.get(cal.get('path'))
        return out is not None and (out.output == 'bool' or (out.output or '').startswith(('std::result::Result<', 'std::option::Option<')))

    def apply_guard(self, b, t, c, state, outs):
        body = self.body
        neg = False
        while c[0] == 'un' and c[1] == 'Not':
            neg = not neg
            c = c[2]
        zero = [tgt for v, tgt in t['targets'] if v == 0]
        others = [s for s in set(body.succs(b)) if s not in zero]
        if c[0] == 'bin' and c[1] in ('Lt', 'Le', 'Eq', 'Ne') and len(zero) == 1 and len(t['targets']) == 1:
            f_edge, t_edge = zero[0], t['otherwise']
            if neg:
                f_edge, t_edge = t_edge, f_edge
            a, bb = c[2], c[3]
            ta, tb = self.tainted_in(a, state), self.tainted_in(bb, state)
            if c[1] in ('Lt', 'Le'):
                if ta and not tb and t_edge in outs:
                    outs[t_edge] -= ta | self.bounded_with(ta, state)
                if tb and not ta and f_edge in outs:
                    outs[f_edge] -= tb | self.bounded_with(tb, state)
            else:
                for e in (f_edge, t_edge):
                    if e in outs:
                        outs[e] -= (ta | tb)
            return
        # `(lo..hi).contains(&x)` / `(lo..=hi)` / `(..hi)` with bounds that are not caller-supplied: x is bounded on the true edge
        if c[0] == 'call' and isinstance(c[1], str) and re.search(r'ops::(RangeInclusive|Range|RangeTo|RangeToInclusive)::<[^>]*>::contains(::<[^>]*>)?$', c[1]) \
                and len(c[2]) == 2 and len(t['targets']) == 1 and len(zero) == 1:
            tr, tx = self.tainted_in(c[2][0], state), self.tainted_in(c[2][1], state)
            if tx and not tr:
                e_true = t['otherwise'] if not neg else zero[0]
                if e_true in outs:
                    outs[e_true] -= tx | self.bounded_with(tx, state)
            return
        # success edge of a validating call: bool result or discriminant of Try::branch(result)
        call = None
        ok_vals = None
        if c[0] == 'call':
            call = c
            ok_vals = 'nonzero'
        elif c[0] == 'discr' and c[1][0] == 'call' and 'Try>::branch' in c[1][1] and c[1][2] and c[1][2][0][0] == 'call':
            call = c[1][2][0]
            ok_vals = 0
        elif c[0] == 'discr' and c[1][0] == 'call':
            call = c[1]
            ok_vals = 0     # Result discriminant: 0 = Ok
            g_ = self.T.facts.fns.get(call[1]) if isinstance(call[1], str) else None
            if g_ is not None and (g_.output or '').startswith('std::option::Option<'):
                ok_vals = 1     # Option discriminant: 1 = Some (a checked position: `pos(index) -> Option<usize>`)
        if call is None:
            return
        # unwrap `.is_ok()` style adaptors
        inner = call
        while inner[0] == 'call' and re.search(r'Result::<.*>::(is_ok|ok)$|Option::<.*>::(is_some|ok_or|ok_or_else)$', inner[1]) and inner[2] and inner[2][0][0] in ('call', 'ref'):
            x = inner[2][0]
            if x[0] == 'ref':
                x = x[1]
            inner = x
        if inner[0] != 'call':
            return
        checked_idx = self.T.checked_params(self.call_key(inner))
        if not checked_idx:
            return
        rm = set()
        for i in checked_idx:
            if i < len(inner[2]):
                rm |= self.tainted_in(inner[2][i], state)
        if not rm:
            return
        if ok_vals == 'nonzero':
            edges = [t['otherwise']] if not neg else zero
            if len(t['targets']) != 1:
                return
        else:
            edges = [tgt for v, tgt in t['targets'] if v == ok_vals]
        for e in edges:
            if e in outs:
                outs[e] -= rm

    def find_sinks(self):
        body = self.body
        IN = self.in_state
        sinks = []
        for b in sorted(IN):
            blk = body.blocks[b]
            if blk['cleanup']:
                continue
            state = set(IN[b])
            # replay statements for named locals
            for st in blk['stmts']:
                if st['k'] == 'assign' and not st['lhs']['p']:
                    nm = body.local_name(st['lhs']['l'])
                    if nm is not None and not (1 <= st['lhs']['l'] <= body.arg_count):
                        c = body.canon_rv(st['rv'], 0, False)
                        key = ('var', nm, st['lhs']['l'])
                        if (self.tainted_in(c, state) or self.ostat_tainted(st['lhs']['l'], state)) and scalar_like(body.local_ty(st['lhs']['l'])):
                            state.add(key)
                        else:
                            state.discard(key)
            t = blk['term']
            if t['k'] == 'assert':
                c = self.canon(t['cond'])
                ns = self.tainted_in(c, state)
                if ns:
                    sinks.append((b, 'assert:' + t['assert_kind'], core.show(c), t['line'], ns))
            elif t['k'] == 'call':
                cal = t['callee']
                p = cal.get('path') or ''
                for rx, kind in RANGE_RE:
                    if rx.search(p):
                        ns = set()
                        for a in t['args']:
                            ty_ok = True
                            ns |= self.tainted_in(self.canon(a), state)
                        if ns:
                            sinks.append((b, 'call:' + kind, core.short(p), t['line'], ns))
                        break
                if PANIC_RE.search(p) and not t.get('exp_fmt'):
                    # governed by a tainted condition?  look at the switch that leads here
                    for pb in body.preds(b):
                        pt = body.term(pb)
                        if pt['k'] == 'switch':
                            pc = self.canon(pt['discr'])
                            pstate = IN.get(pb, set())
                            ns = self.tainted_in(pc, pstate)
                            if ns:
                                sinks.append((b, 'panic', core.show(pc), t['line'], ns))
        self.sinks = sinks
        return sinks

    def call_arg_taint(self):
        """for each crate call site: (callee path(s), [bool tainted per arg])"""
        body = self.body
        IN = self.in_state
        out = []
        for b, t in body.calls():
            if b not in IN:
                continue
            state = IN[b]
            # statements in this block may define named locals; conservative: use IN plus replay
            st2 = set(state)
            for st in body.blocks[b]['stmts']:
                if st['k'] == 'assign' and not st['lhs']['p']:
                    nm = body.local_name(st['lhs']['l'])
                    if nm is not None and not (1 <= st['lhs']['l'] <= body.arg_count):
                        c = body.canon_rv(st['rv'], 0, False)
                        key = ('var', nm, st['lhs']['l'])
                        if self.tainted_in(c, st2) or self.ostat_tainted(st['lhs']['l'], st2):
                            st2.add(key)
                        else:
                            st2.discard(key)
            flags = [bool(self.tainted_in(self.canon(a), st2)) for a in t['args']]
            if any(flags):
                out.append((b, t['callee'], flags))
        return out

    def success_checked(self):
        """param indexes (0-based) that are untainted at every successful exit, given all scalar
        params tainted at entry: Ok-exits for Result fns, exits that may return true for bool fns.
        A result returned straight from another call counts the callee's own summary."""
        body = self.body
        IN = self.in_state
        ret_ty = body.local_ty(0)
        params = {('param', self.pname(i)) for i in range(1, body.arg_count + 1)}
        is_res = ret_ty.startswith('std::result::Result<')
        is_opt = ret_ty.startswith('std::option::Option<')
        if not (is_res or is_opt or ret_ty == 'bool'):
            return set()
        bad = set()
        for b in range(body.n):
            if b not in IN or body.blocks[b]['cleanup']:
                continue
            state = IN[b]
            for st in body.blocks[b]['stmts']:
                if st['k'] == 'assign' and st['lhs']['l'] == 0 and not st['lhs']['p']:
                    rv = st['rv']
                    if is_res or is_opt:
                        if rv['k'] == 'agg' and rv.get('variant') == ('Ok' if is_res else 'Some'):
                            bad |= (state & params)
                        continue
                    c = body.canon_rv(rv, 0, False)
                    if c == ('const', 0):
                        continue
                    rem = set(state & params)
                    if c[0] == 'bin' and c[1] in ('Lt', 'Le'):
                        ta = self.tainted_in(c[2], state)
                        tb = self.tainted_in(c[3], state)
                        if ta and not tb:
                            rem -= ta
                    if c[0] == 'bin' and c[1] in ('Eq', 'Ne'):
                        rem -= self.tainted_in(c, state)
                    bad |= rem
            t = body.term(b)
            if t['k'] == 'call' and t['dest']['l'] == 0 and not t['dest']['p']:
                if t['callee'].get('decl') == 'std::ops::FromResidual::from_residual':
                    continue
                rem = set(state & params)
                key = self.term_key(b)
                args = [self.canon(a) for a in t['args']]
                if re.search(r'Result::<.*>::is_ok$|Option::<.*>::is_some$', key or '') and args:
                    c = args[0]
                    if c[0] == 'ref':
                        c = c[1]
                    if c[0] == 'call':
                        key, args = self.call_key(c), list(c[2])
                for i in self.T.checked_params(key or ''):
                    if i < len(args):
                        rem -= self.tainted_in(args[i], state)
                bad |= rem
        return {i - 1 for i in range(1, body.arg_count + 1) if ('param', self.pname(i)) not in bad
                and scalar_like(body.local_ty(i))}


def scalar_like(ty):
    return ty in ('usize', 'u64', 'u32', 'u16', 'u8', 'isize', 'i64', 'i32', 'u128') or ty.startswith('(') or ty == 'bool' and False


class Taint:
    def __init__(self, facts, source_pred):
        """source_pred(fn) -> list of param indexes (0-based) that are caller-supplied scalars"""
        self.facts = facts
        self.cg = core.callgraph(facts)
        self.source_pred = source_pred
        self.ft = {}
        self._checked = {}
        self._checking = set()

    def checked_params(self, key, cal=None):
        """0-based param indexes that callee instance `key` has checked on every successful
        exit.  Computed with all scalar params tainted at entry (context-free summary)."""
        facts = self.facts
        path = key
        rec = facts.instances.get(key)
        if rec is not None:
            path = rec['def']
        fn = facts.fns.get(path)
        if fn is None:
            return set()
        if key in self._checked:
            return self._checked[key]
        if key in self._checking:
            return set()
        self._checking.add(key)
        ft = FnTaint(self, fn)
        ft.tainted_params = {ft.pname(i) for i in range(1, fn.body.arg_count + 1)
                             if scalar_like(fn.body.local_ty(i))}
        ft.overlay = rec['calls'] if rec is not None else {}
        ft.analyse()
        res = ft.success_checked()
        self._checking.discard(key)
        self._checked[key] = res
        return res

    def run(self):
        facts = self.facts
        entry = defaultdict(set)    # fn path -> tainted param names
        for fn in facts.fns.values():
            idx = self.source_pred(fn)
            if idx:
                for i in idx:
                    nm = fn.body.local_name(i + 1) or ('_%d' % (i + 1))
                    entry[fn.path].add(nm)
        work = list(entry.keys())
        rounds = 0
        while work and rounds < 5000:
            rounds += 1
            p = work.pop()
            fn = facts.fns[p]
            ft = FnTaint(self, fn)
            ft.tainted_params = set(entry[p])
            ft.analyse()
            self.ft[p] = ft
            for (b, cal, flags) in ft.call_arg_taint():
                targets = []
                if cal.get('unresolved') or cal.get('virtual'):
                    if cal.get('local'):
                        targets = list(self.cg.impl_methods.get(cal['decl'], []))
                        if cal['decl'] in facts.fns:
                            targets.append(cal['decl'])
                elif cal.get('local') and cal.get('path') in facts.fns:
                    targets = [cal['path']]
                for q in targets:
                    qf = facts.fns[q]
                    for i, fl in enumerate(flags):
                        if fl and i < qf.body.arg_count and scalar_like(qf.body.local_ty(i + 1)):
                            nm = qf.body.local_name(i + 1) or ('_%d' % (i + 1))
                            if nm not in entry[q]:
                                entry[q].add(nm)
                                if q not in work:
                                    work.append(q)
        for ft in self.ft.values():
            ft.find_sinks()
        return self.ft
