"""C12 — result accessors expose exactly the produced shards; drop starts a new round."""
import re
from . import core, taint, witness, resetrules, c06, roles as roles_mod
from .core import hcanon, hshow

EXPLANATION = (
    "(a) Decision atoms of the accessors (typed HIR path conditions): EncoderWork::recovery(i) is Some exactly "
    "under i < self.recovery_count and exposes self.shards[i] cut to ..self.shard_bytes; "
    "DecoderWork::restored_original(i) is Some exactly under i < self.original_count and the received bit at "
    "self.original_base_pos + i being clear, exposing self.shards[base+i] cut to ..self.shard_bytes; the public "
    "EncoderResult/DecoderResult methods only forward. (b) Iterators: `ended` is only ever assigned true and the "
    "ended path returns None without effects; next_index only grows; Recovery::next yields work.recovery(next_index) "
    "and advances by one; RestoredOriginal::next scans indexes upward from next_index with work.restored_original(index) "
    "while index < original_count, yields the first Some with next_index = index + 1. (c) Drop of a result calls the "
    "work's implicit reset on every path and that reset clears, on every path, every field the add_* methods write "
    "(except the shard store). (d) the index parameter is range-checked before any arithmetic (taint rule of C06). "
    "(e) compile-fail witnesses: no shard can be added while a result is alive.")
DECIDES = "the accessor / iterator / drop structure stated by the property."
NOT_DECIDED = "the bytes exposed (C01/C02: not applicable)."
TRUSTED = ["rustc borrow checker (witness E0499)"]
ASSUMPTIONS = []


def run(ctx):
    cfgs = ['x86_64'] if ctx.tier == 'quick' else ['x86_64', 'aarch64', 'i686']
    ctx.rule('C12.a-accessor-atoms', 'accessor returns Some exactly under the documented condition and exposes the shard cut to shard_bytes')
    ctx.rule('C12.a-forwarding', 'public result methods forward to the work accessors / build the iterator from the same work')
    ctx.rule('C12.b-iterators', 'iterator protocol: ended only set to true, ended => None, index ascending, items are the accessor results')
    ctx.rule('C12.c-drop-resets', 'Drop of a result calls the implicit reset of its work on every path')
    ctx.rule('C12.c-implicit-reset-clears', 'the implicit reset clears every per-round field on every path')
    ctx.rule('C12.c-explicit-reset', 'the explicit reset rewrites every field of the work object')
    ctx.rule('C12.d-check-before-use', 'the accessor index is range-checked before any arithmetic or indexing')
    ctx.rule('C12.e-witness', 'compile-fail witness: no add while a result is alive; twin with drop compiles')
    ctx.rule('C06.a-sources', 'integer parameters of the result accessors are taint sources')
    ctx.rule('C12.f-repacked-is-exposed', 'the range of shards converted back from the working layout is exactly the range the accessor exposes, so every exposed shard has its plain byte layout (clause shared with C04.c)')
    from . import c04 as c04_
    ctx.guard('C12.analysable', ctx.shared, {'C04.c-range-agreement': 'C12.f-repacked-is-exposed'}, c04_.range_agreement, ctx, ctx.facts(cfgs[0]), cfgs[0])
    ctx.rule('C12.i-store-geometry-rewritten', 'the shard store rewrites its whole geometry (every field, on every path) at each resize: the length the accessors cut to and the split of the last block are those of the current configuration (clause shared with C04.d)')
    ctx.guard('C12.analysable', c04_.store_resize_complete, ctx, ctx.facts(cfgs[0]), cfgs[0], 'C12.i-store-geometry-rewritten')
    ctx.rule('C12.h-repacked-exactly-once', 'the conversion back from the working layout runs exactly once, last, on every path that produces a result: run twice (or not at all) it leaves the exposed shards in a mixed layout for some shard sizes (clause shared with C04.b)')
    ctx.guard('C12.analysable', ctx.shared, {'C04.b-unencode-once-last': 'C12.h-repacked-exactly-once'}, c04_.unencode, ctx, ctx.facts(cfgs[0]), cfgs[0])
    ctx.rule('C12.g-round-input-fully-defined', 'what a round hands to its truncated transforms is fully written in that round (tail zeroed): the recovery shards of a new round on the same object do not depend on the round before (clause shared with C05.c)')
    from . import c05 as c05_
    ctx.guard('C12.analysable', ctx.shared, {'C05.c-truncated-ifft-zeroed': 'C12.g-round-input-fully-defined'}, c05_.ifft_rule, ctx, ctx.facts(cfgs[0]), cfgs[0])
    ctx.rule('C12.j-given-map-marked-by-accepted-adds-only', 'the map of given shards, which the accessors and iterators read to tell a restored shard from a given one, is marked by accepted calls only: no Err exit is reachable after a bit of it was written, so a rejected add does not make restored_original(i) answer None for (or the iterator skip) a shard that was produced (clause shared with C07.atomic, for writes of the bitmap)')
    from . import c07 as c07_
    marks_given = lambda key: re.match(r'(call FixedBitSet::|write [^-]*received)', key) is not None
    ctx.guard('C12.analysable', ctx.shared, {'C07.atomic': 'C12.j-given-map-marked-by-accepted-adds-only'}, c07_.check_cfg, ctx, ctx.facts(cfgs[0]), cfgs[0], {'only': marks_given})
    for cfg in cfgs:
        facts = ctx.facts(cfg)
        ctx.guard('C12.analysable', accessors, ctx, facts, cfg)
        ctx.guard('C12.analysable', iterators, ctx, facts, cfg)
        ctx.guard('C12.analysable', resetrules.check_reset_discipline, ctx, facts, cfg, 'C12.c-drop-resets', 'C12.c-implicit-reset-clears', 'C12.c-explicit-reset')
        ctx.guard('C12.analysable', taint_part, ctx, facts, cfg)
    ws = witness.run_witnesses(ctx.repo)
    n = 0
    for name, (ok, info) in sorted(ws.items()):
        if name.startswith('C12.'):
            n += 1
            if ok:
                ctx.ok('C12.e-witness', name, {'doctest': info})
            else:
                ctx.violation('C12.e-witness', name, 'type-level witness failed: %s' % info, site='witness/src/lib.rs', fn=name)
    ctx.floor('C12.e-witness', 4, n, 'C12 witnesses')


def taint_part(ctx, facts, cfg):
    def src(fn):
        if fn.reachable and fn.path.startswith(('encoder_result::', 'decoder_result::')):
            return [i for i in range(fn.body.arg_count) if fn.body.local_ty(i + 1) == 'usize']
        return []
    T = taint.Taint(facts, src)
    fts = T.run()
    n = 0
    for p, ft in sorted(fts.items()):
        n += 1
        seen = set()
        for (b, kind, detail, line, names) in ft.sinks:
            nm = sorted(x[1] for x in names)
            key = '%s:%s:%s' % (kind, ','.join(nm), re.sub(r'\s+', ' ', detail)[:80])
            if key in seen:
                continue
            seen.add(key)
            ctx.violation('C12.d-check-before-use', key, 'accessor index %s reaches %s `%s` without a dominating range check' % ('/'.join(nm), kind, detail[:100]),
                          site=line, fn=p, cfg=cfg)
        if not ft.sinks:
            ctx.ok('C12.d-check-before-use', '%s@%s' % (p, cfg), {'tainted': sorted(ft.tainted_params)})
    ctx.floor('C12.d-check-before-use', 4, n, 'functions reached by an accessor index', cfg=cfg)


SELF = ('local', 'self')


def sf(name):
    return ('field', SELF, name)


def store_elem_accessors(facts, RL):
    """inherent methods of the shard store that hand out element `index` exactly as its Index impl does:
    `fn shard(&self, index: usize) -> &[[u8; 64]] { &self.data[index * self.len..(index + 1) * self.len] }` (also &mut)"""
    out = set()
    for q, g in facts.fns.items():
        if g.impl_self_adt != RL.store_adt or g.impl_trait or not g.hir or len(g.hir.get('params', [])) != 2:
            continue
        if not re.match(r'&(mut )?\[\[u8; 64\]\]$', g.output or ''):
            continue
        ip = g.hir['params'][1]
        if ip.get('k') != 'bind':
            continue
        v = hcanon(g.hir['value'], {})
        while isinstance(v, tuple) and v and v[0] in ('ref', 'deref'):
            v = v[1]
        if not (isinstance(v, tuple) and v[0] == 'index' and isinstance(v[2], tuple) and v[2][0] == 'struct' and str(v[2][1]).endswith('ops::Range')):
            continue
        base = v[1]
        while isinstance(base, tuple) and base and base[0] in ('ref', 'deref'):
            base = base[1]
        if not (isinstance(base, tuple) and base[0] == 'field' and base[1] == ('local', 'self')):
            continue
        d = dict(v[2][2])
        i = ('local', ip['name'])
        st, en = d.get('start'), d.get('end')

        def prod(x):
            """(index-ish factor, length field) of a product with a field of self"""
            if isinstance(x, tuple) and x[0] == 'bin' and x[1] == 'Mul':
                for a_, b_ in ((x[2], x[3]), (x[3], x[2])):
                    if isinstance(b_, tuple) and b_[0] == 'field' and b_[1] == ('local', 'self'):
                        return a_, b_
            return None
        ps, pe = prod(st), prod(en)
        if ps and pe and ps[1] == pe[1] and ps[0] == i and pe[0] in (('bin', 'Add', i, ('const', 1)), ('bin', 'Add', ('const', 1), i), core.norm_bin('Add', i, ('const', 1))):
            out.add(q)
    return out


def via_elem_accessor(facts, RL, payload, store, pos):
    acc = store_elem_accessors(facts, RL)
    hit = []

    def go(c):
        if isinstance(c, tuple):
            if c and c[0] == 'call' and c[1] in acc and len(c[2]) == 2:
                x = c[2][0]
                while isinstance(x, tuple) and x and x[0] in ('ref', 'deref'):
                    x = x[1]
                if x == store and c[2][1] == pos:
                    hit.append(c)
            for y in c:
                go(y)
    go(payload)
    return bool(hit)


def accessors(ctx, facts, cfg):
    RL = roles_mod.roles(facts)
    spec = {'enc': dict(count='recovery_count', base=None), 'dec': dict(count='original_count', base='original_base_pos')}
    for side, sp in spec.items():
        fn = RL.get(ctx, side + '.accessor', 'C12.a-accessor-atoms', cfg)
        if fn is None:
            continue
        p = fn.path
        somes, nones = [], []

        def visit(e, conds, env):
            if e.get('k') == 'call' and e['f'].get('k') == 'path' and (e['f'].get('path') or '').endswith('::Some') and e.get('ty') == 'std::option::Option<&[u8]>':
                somes.append((e, conds, dict(env)))
        core.PathWalker(visit, facts).walk_fn(fn)
        if len(somes) != 1:
            ctx.violation('C12.a-accessor-atoms', 'some-sites', '%s has %d `Some(..)` exits, expected one' % (p, len(somes)), site=fn.span, fn=p, cfg=cfg)
            continue
        e, conds, env = somes[0]
        from .c06 import inlined_atoms
        atoms = inlined_atoms(conds, env, facts, RL, p)
        idx = ('local', 'index')
        pos = idx if sp['base'] is None else core.norm_bin('Add', sf(sp['base']), idx)
        want = {('lt', idx, sf(sp['count']))}
        got = set()
        bit_ok = sp['base'] is None
        extra = []
        for c, pol in atoms:
            ca = c06.cmp_atom(c, pol)
            if ca:
                got.add(ca)
                continue
            if isinstance(c, tuple) and c[0] == 'index' and c[1] == sf('received'):
                if c[2] == pos and not pol:
                    bit_ok = True
                else:
                    extra.append('received[%s] is %s' % (hshow(c[2]), pol))
                continue
            if isinstance(c, tuple) and c[0] == 'call' and str(c[1]).endswith('FixedBitSet::contains') and c[2][0] == sf('received'):
                if c[2][1] == pos and not pol:
                    bit_ok = True
                else:
                    extra.append('received.contains(%s) is %s' % (hshow(c[2][1]), pol))
                continue
            extra.append('%s%s' % ('' if pol else 'not ', hshow(c)))
        problems = []
        if got != want:
            problems.append('range condition is %s, expected index < self.%s' % (sorted(got), sp['count']))
        if not bit_ok:
            problems.append('not conditioned on the received bit at %s being clear' % hshow(pos))
        if extra:
            problems.append('extra conditions: %s' % extra)
        # payload: &self.shards[pos].as_flattened()[..self.shard_bytes]
        payload = RL.norm(core.inline_calls(hcanon(e['args'][0], env), facts), p)
        ptxt = repr(payload)
        want_idx = ('index', sf('shards'), pos)
        if repr(want_idx) not in ptxt and not via_elem_accessor(facts, RL, RL.norm(hcanon(e['args'][0], env), p), sf('shards'), pos):
            problems.append('exposed slice is not self.shards[%s]' % hshow(pos))
        rng = [x for x in core.hir_find(e['args'][0], lambda n: core.is_range_struct(n) is not None)]
        ok_cut = False
        for (n, _) in rng:
            st, en, inc = core.is_range_struct(n)
            if st is None and en is not None and RL.norm(hcanon(en, env), p) == sf('shard_bytes') and not inc:
                ok_cut = True
        if not ok_cut:
            # the cut may live in a private single-expression helper of the work object (`self.shard(pos)`): read it off the
            # payload with the helper expanded
            def cut_in(c):
                if isinstance(c, tuple):
                    if len(c) == 3 and c[0] == 'struct' and str(c[1]).endswith('RangeTo') and not str(c[1]).endswith('Inclusive') \
                            and dict(c[2]).get('end') == sf('shard_bytes'):
                        return True
                    return any(cut_in(y) for y in c)
                return False
            ok_cut = cut_in(payload)
        if not ok_cut:
            # the cut may live in an accessor of the store that keeps the configured byte length itself (`shards.bytes(i)`):
            # `..self.shards.<size field>` where the store sets that field from shard_bytes at every resize (C04.c / C04.d)
            def find_cut(c):
                if isinstance(c, tuple):
                    if len(c) == 3 and c[0] == 'struct' and str(c[1]).endswith('RangeTo') and not str(c[1]).endswith('Inclusive'):
                        d_ = dict(c[2])
                        e_ = d_.get('end')
                        if isinstance(e_, tuple) and e_[0] == 'field' and e_[1] == sf('shards') and 'bytes' in str(e_[2]):
                            return True
                    return any(find_cut(x) for x in c)
                return False
            if find_cut(payload):
                from . import c04 as c04__
                ok_cut = c04__.store_keeps_configured_size(facts, RL, side) is True
        if not ok_cut:
            problems.append('exposed slice is not cut to ..self.shard_bytes')
        if problems:
            ctx.violation('C12.a-accessor-atoms', 'wrong-condition', '%s: %s' % (p, '; '.join(problems)), site=e.get('line') or fn.span, fn=p, cfg=cfg)
        else:
            ctx.ok('C12.a-accessor-atoms', '%s@%s' % (p, cfg), {'some_iff': [('' if pol else 'not ') + hshow(c) for c, pol in atoms], 'slice': 'shards[%s][..shard_bytes]' % hshow(pos)})
    # forwarding of the public methods
    fwd = {"encoder_result::EncoderResult::<'_>::recovery": (RL.fn.get('enc.accessor'), True),
           "decoder_result::DecoderResult::<'_>::restored_original": (RL.fn.get('dec.accessor'), True),
           "encoder_result::EncoderResult::<'_>::recovery_iter": ("encoder_result::Recovery::<'a>::new", False),
           "decoder_result::DecoderResult::<'_>::restored_original_iter": ("decoder_result::RestoredOriginal::<'a>::new", False)}
    for p, (target, with_idx) in fwd.items():
        fn = ctx.anchor(facts, p, 'C12.a-forwarding')
        if fn is None:
            continue
        b = fn.body
        cc = [(bb, t) for bb, t in b.calls() if t['callee'].get('local')]
        bad = None
        if len(cc) != 1 or cc[0][1]['callee'].get('path') != target:
            bad = 'calls %s instead of exactly %s' % ([t['callee'].get('path') for _, t in cc], target)
        else:
            t = cc[0][1]
            a0 = core.show(b.canon_op(t['args'][0]))
            if 'self' not in a0 or 'work' not in a0:
                bad = 'receiver is %s, not self.work' % a0
            if with_idx and b.canon_op(t['args'][1]) != ('param', 'index'):
                bad = 'index is not forwarded unchanged'
            if not (t['dest']['l'] == 0 and not t['dest']['p']):
                bad = 'result is post-processed'
        if bad:
            ctx.violation('C12.a-forwarding', 'not-forwarding', '%s %s' % (p, bad), site=fn.span, fn=p, cfg=cfg)
        else:
            ctx.ok('C12.a-forwarding', '%s@%s' % (p, cfg), None)
    # iterator constructors start at index 0, not ended
    for p in ("encoder_result::Recovery::<'a>::new", "decoder_result::RestoredOriginal::<'a>::new"):
        fn = ctx.anchor(facts, p, 'C12.a-forwarding')
        if fn is None:
            continue
        okc = False
        for bb in range(fn.body.n):
            for st in fn.body.blocks[bb]['stmts']:
                if st['k'] == 'assign' and st['rv']['k'] == 'agg' and st['rv'].get('agg') == 'adt':
                    vals = [fn.body.canon_op(o) for o in st['rv']['ops']]
                    pn = fn.param_names()
                    if sorted(map(repr, vals)) == sorted(map(repr, [('const', 0), ('const', 0), ('param', pn[0] if pn else 'work')])) and len(vals) == 3:
                        okc = True
        if okc:
            ctx.ok('C12.a-forwarding', '%s@%s' % (p, cfg), {'initial': 'ended=false, next_index=0'})
        else:
            ctx.violation('C12.a-forwarding', 'iterator-initial-state', '%s does not start with ended=false, next_index=0 on the given work' % p, site=fn.span, fn=p, cfg=cfg)


def iterators(ctx, facts, cfg):
    """Iterator protocol, decided on MIR (so that while/for, if-let/is_some, early-return forms are all the same):
    fields of the iterator struct are identified by type (bool = ended, usize = next index, reference = work)."""
    RL = roles_mod.roles(facts)
    specs = [("<encoder_result::Recovery<'a> as std::iter::Iterator>::next", 'encoder_result::Recovery', RL.fn.get('enc.accessor'), 'recovery'),
             ("<decoder_result::RestoredOriginal<'a> as std::iter::Iterator>::next", 'decoder_result::RestoredOriginal', RL.fn.get('dec.accessor'), 'restored')]
    for p, adt_p, accessor, kind in specs:
        fn = ctx.anchor(facts, p, 'C12.b-iterators')
        if fn is None:
            continue
        if accessor is None:
            ctx.violation('C12.b-iterators', 'role-missing:accessor', 'unrecognised idiom: %s' % (RL.problems[:1] or ['accessor of the work object not identified'])[0], fn=p, cfg=cfg)
            continue
        adt = facts.adts.get(adt_p)
        if adt is None:
            ctx.violation('C12.b-iterators', 'anchor-missing', 'anchor missing: %s' % adt_p, fn=adt_p, cfg=cfg)
            continue
        fl = [(f['name'], f['ty']) for v in adt['variants'] for f in v['fields']]
        F = {}
        for n, t in fl:
            if t == 'bool':
                F['ended'] = n
            elif t == 'usize':
                F['next'] = n
            elif t.startswith('&'):
                F['work'] = n
        if len(fl) != 3 or set(F) != {'ended', 'next', 'work'}:
            ctx.violation('C12.b-iterators', 'iterator-state', '%s holds %s; expected exactly an ended flag, a next index and the borrowed work' % (adt_p, fl), site=adt['span'], fn=adt_p, cfg=cfg)
            continue
        problems = iterator_protocol(facts, fn, F, accessor, kind, RL)
        second = None
        if problems:
            # second opinion: path-sensitive walk of the MIR (loops once, Option variants learnt from aggregates and switches)
            from . import iterpaths
            try:
                p2 = iterpaths.check(facts, fn, F, accessor, kind, RL, scan_value)
                if not p2:
                    second = problems
                    problems = []
            except iterpaths.Giveup:
                pass
            except Exception:
                pass
        problems += other_iterator_methods(facts, adt_p, F)
        if problems:
            for pr in sorted(set(problems)):
                ctx.violation('C12.b-iterators', re.sub(r'[^A-Za-z]+', '-', pr)[:60], '%s: %s' % (p, pr), site=fn.span, fn=p, cfg=cfg)
        else:
            ctx.ok('C12.b-iterators', '%s@%s' % (p, cfg), {'protocol': 'ended only set true; ended => None without effects; index only grows; items = %s(index); None only after ended := true' % core.short(accessor),
                                                           'decided_by': 'path-sensitive second opinion (shape not recognised by the pattern checker: %s)' % second[0][:80] if second else 'pattern checker'})


def other_iterator_methods(facts, adt_p, F):
    """Overrides of Iterator methods other than next() (nth, fold, last, ...) and further ways to draw items (DoubleEndedIterator)
    must keep the iterator fused: every path on which such a method reports None has either seen the ended flag set or sets it,
    and the borrowed work is never replaced.  Methods taking &self (size_hint) cannot change what is yielded."""
    problems = []
    for p, g in sorted(facts.fns.items()):
        if g.impl_self_adt != adt_p or not g.impl_trait or g.name == 'next':
            continue
        if g.impl_trait not in ('std::iter::Iterator', 'std::iter::DoubleEndedIterator', 'std::iter::ExactSizeIterator', 'std::iter::FusedIterator'):
            continue
        if g.inputs and g.inputs[0].startswith('&') and not g.inputs[0].startswith('&mut'):
            continue
        body = g.body
        if not (body.local_ty(0).startswith('std::option::Option<')):
            if g.impl_trait == 'std::iter::Iterator' and g.name in ('count', 'last', 'fold', 'for_each', 'collect', 'sum', 'product', 'max', 'min'):
                # consuming methods: the iterator is gone afterwards
                continue
        W, T = set(), set()
        for b in range(body.n):
            blk = body.blocks[b]
            if blk['cleanup']:
                continue
            for st in blk['stmts']:
                l = st.get('lhs')
                if st['k'] == 'assign' and l['l'] == 1 and len(l['p']) >= 2 and l['p'][0] == '*' and isinstance(l['p'][1], dict):
                    if l['p'][1].get('f') == F['ended'] and body.canon_rv(st['rv']) == ('const', 1):
                        W.add(b)
                    if l['p'][1].get('f') == F['work']:
                        problems.append('%s reassigns the borrowed work' % g.name)
            t = blk['term']
            if t['k'] == 'switch':
                c = body.canon_op(t['discr'])
                neg = False
                while c[0] == 'un' and c[1] == 'Not':
                    neg, c = (not neg), c[2]
                if core.strip_var_ids(c) == ('field', ('deref', ('param', body.local_name(1) or 'self')), F['ended']):
                    zero = [tgt for v, tgt in t['targets'] if v == 0]
                    te = t['otherwise'] if not neg else (zero[0] if zero else None)
                    if te is not None:
                        T.add(te)
        nones = []
        for b in range(body.n):
            blk = body.blocks[b]
            if blk['cleanup']:
                continue
            for st in blk['stmts']:
                if st['k'] == 'assign' and st['lhs']['l'] == 0 and not st['lhs']['p'] and st['rv']['k'] == 'agg' and st['rv'].get('variant') == 'None':
                    nones.append(b)
            t = blk['term']
            if t['k'] == 'call' and t['dest']['l'] == 0 and not t['dest']['p'] and t['callee'].get('decl') == 'std::ops::FromResidual::from_residual':
                nones.append(b)
        reach = body.reachable_from(0, stop=frozenset(W | T))
        for b in nones:
            if b in reach and b not in W:
                problems.append('%s::%s can report None on a path that neither found the ended flag set nor sets it: the iterator may yield again after None (the items of the round are exactly those of next())'
                                % (g.impl_trait.split('::')[-1], g.name))
                break
    return problems


def iterator_protocol(facts, fn, F, accessor, kind, RL):
    body = fn.body
    SELF = ('deref', ('param', body.local_name(1) or 'self'))
    fe, fn_, fw = ('field', SELF, F['ended']), ('field', SELF, F['next']), ('field', SELF, F['work'])
    problems = []

    def self_write(st):
        l = st['lhs']
        if st['k'] == 'assign' and l['l'] == 1 and len(l['p']) >= 2 and l['p'][0] == '*' and isinstance(l['p'][1], dict):
            return l['p'][1].get('f')
        return None
    live = body.reachable_from(0)
    writes = []          # (bb, idx, field, canon rvalue)
    for b in sorted(live):
        for i, st in enumerate(body.blocks[b]['stmts']):
            f = self_write(st)
            if f:
                writes.append((b, i, f, core.strip_var_ids(body.canon_rv(st['rv'], 0, True))))
    # (i) ended only set to true
    for (b, i, f, v) in writes:
        if f == F['ended'] and v != ('const', 1):
            problems.append('the ended flag is assigned %s (it may only ever become true)' % core.show(v))
        if f == F['work']:
            problems.append('the borrowed work is reassigned')
    # (ii) ended => None, no effects
    ended_true_blocks = set()
    found_test = False
    for sb in sorted(live):
        t = body.term(sb)
        if t['k'] != 'switch':
            continue
        c = body.canon_op(t['discr'])
        neg = False
        while c[0] == 'un' and c[1] == 'Not':
            neg, c = (not neg), c[2]
        if core.strip_var_ids(c) == fe:
            found_test = True
            zero = [tgt for v, tgt in t['targets'] if v == 0]
            te = t['otherwise'] if not neg else (zero[0] if zero else None)
            if te is not None:
                removed = {(sb, x) for x in body.succs(sb) if x != te}
                ended_true_blocks |= body.reachable_from(te) if False else reach_only(body, sb, te)
    if not found_test:
        problems.append('next() does not test the ended flag first')
    for (b, i, f, v) in writes:
        if b in ended_true_blocks and b not in not_only_ended(body, ended_true_blocks):
            problems.append('state is modified on the ended path')
    for b in ended_true_blocks:
        t = body.term(b)
        if t['k'] == 'call' and t['callee'].get('local'):
            problems.append('the ended path calls %s' % core.short(t['callee'].get('path') or '?'))
        for st in body.blocks[b]['stmts']:
            if st['k'] == 'assign' and st['lhs']['l'] == 0 and not st['lhs']['p']:
                rv = st['rv']
                if not (rv['k'] == 'agg' and rv.get('variant') == 'None'):
                    problems.append('the ended path can return something other than None')
    # (iii) next index only grows by one past a value that is >= the old one
    acc_calls = [(b, t) for b, t in body.calls() if t['callee'].get('path') == accessor and b in live]
    if not acc_calls:
        problems.append('next() does not obtain its items from %s' % core.short(accessor))
        return problems
    idx_vals = set()
    for b, t in acc_calls:
        recv = core.strip_var_ids(body.canon_op(t['args'][0], 0, True))
        if recv not in (fw, ('deref', fw)):
            problems.append('the accessor is called on %s, not on the borrowed work' % core.show(recv))
        idx = core.strip_var_ids(body.canon_op(t['args'][1], 0, True))
        idx_vals.add(idx)
        if kind == 'recovery':
            if idx != fn_:
                problems.append('Recovery::next asks for index %s, expected its own next index' % core.show(idx))
        else:
            okv, why = scan_value(body, idx, fn_, fw, RL)
            if not okv:
                problems.append('RestoredOriginal::next asks for %s: %s' % (core.show(idx), why))
    for (b, i, f, v) in writes:
        if f == F['next']:
            ok = v[0] == 'bin' and v[1] == 'Add' and ('const', 1) in (v[2], v[3]) and \
                ((v[2] if v[3] == ('const', 1) else v[3]) in idx_vals | {fn_})
            if not ok:
                problems.append('the next index is assigned %s (allowed: index just asked for + 1)' % core.show(v))
    # (iv) Some exits
    some_seen = False
    for b in sorted(live):
        for i, st in enumerate(body.blocks[b]['stmts']):
            if not (st['k'] == 'assign' and st['lhs']['l'] == 0 and not st['lhs']['p']):
                continue
            rv = st['rv']
            c = body.canon_rv(rv, 0, True)
            if rv['k'] == 'agg' and rv.get('variant') == 'None':
                # (v) None on a not-ended path only after ended := true
                if b not in ended_true_blocks or b in not_only_ended(body, ended_true_blocks):
                    if not any(f == F['ended'] and body.dominates(wb, b) for (wb, wi, f, v) in writes):
                        problems.append('None is returned on a path that does not set the ended flag (the iterator could yield again later)')
                continue
            if rv['k'] == 'agg' and rv.get('variant') == 'Some':
                some_seen = True
                payload = core.strip_var_ids(c[3][0][1])
                src, idx = some_source(payload, accessor, kind)
                if src is None:
                    problems.append('a Some(..) exit yields %s, not the accessor result%s' % (core.show(payload)[:80], '' if kind == 'recovery' else ' paired with its index'))
                    continue
                # the next index must have been advanced past idx before returning
                adv = [(wb, wi) for (wb, wi, f, v) in writes if f == F['next'] and v[0] == 'bin' and
                       (v[2] if v[3] == ('const', 1) else v[3]) == idx]
                if not any(body.dominates(wb, b) for (wb, wi) in adv):
                    problems.append('the next index is not advanced past the yielded index on the Some path')
                continue
            # returning the accessor's Option as it is
            cc = core.strip_var_ids(c)
            if cc[0] == 'call' and cc[1] == accessor:
                some_seen = True
                idx = cc[2][1]
                okk = False
                for sb in sorted(live):
                    t = body.term(sb)
                    if t['k'] != 'switch':
                        continue
                    d = core.strip_var_ids(body.canon_op(t['discr']))
                    is_some = (d[0] == 'call' and str(d[1]).endswith('::is_some') and strip_r(d[2][0]) == cc) or (d[0] == 'discr' and strip_r(d[1]) == cc)
                    if not is_some:
                        continue
                    zero = [tgt for v, tgt in t['targets'] if v == 0]
                    some_edge = (sb, t['otherwise']) if d[0] == 'call' else next(((sb, tgt) for v, tgt in t['targets'] if v == 1), (sb, t['otherwise']))
                    none_edge = (sb, zero[0]) if zero else None
                    adv = {wb for (wb, wi, f, v) in writes if f == F['next']}
                    endw = {wb for (wb, wi, f, v) in writes if f == F['ended']}
                    r1 = set() if some_edge[1] in adv else body.reachable_from(some_edge[1], stop=frozenset(adv))
                    r2 = set() if (none_edge is None or none_edge[1] in endw) else body.reachable_from(none_edge[1], stop=frozenset(endw))
                    rets = set(body.exits())
                    if not (rets & (r1 - adv)) and not (rets & (r2 - endw)):
                        okk = True
                if not okk:
                    problems.append('the accessor result is returned as it is, but the index is not advanced on Some / the ended flag not set on None')
                continue
            problems.append('next() can return %s' % core.show(cc)[:80])
    if not some_seen:
        problems.append('no exit yields an item')
    return problems


def strip_r(c):
    while isinstance(c, tuple) and c and c[0] in ('ref', 'deref'):
        c = c[1]
    return c


def reach_only(body, sb, te):
    """blocks reachable from edge sb->te"""
    return body.reachable_from(te)


def not_only_ended(body, ended_blocks):
    """blocks of ended_blocks that are ALSO reachable without taking the ended-true edge (shared exits)"""
    shared = set()
    for b in ended_blocks:
        if body.term(b)['k'] in ('return', 'goto') and not body.blocks[b]['stmts']:
            shared.add(b)
    return shared


def some_source(payload, accessor, kind):
    """payload of Some(..): recovery -> (call accessor(..) as Some).0 ; restored -> (idx, (call accessor(.., idx) as Some).0)"""
    def acc(x):
        x = strip_r(x)
        if isinstance(x, tuple) and x[0] == 'field' and x[2] == '0' and x[1][0] == 'down' and x[1][2] == 'Some':
            c = strip_r(x[1][1])
            if c[0] == 'call' and c[1] == accessor:
                return c
        return None
    if kind == 'recovery':
        c = acc(payload)
        return (c, c[2][1]) if c else (None, None)
    if isinstance(payload, tuple) and payload[0] == 'tuple' and len(payload[1]) == 2:
        c = acc(payload[1][1])
        if c and strip_r(payload[1][0]) == c[2][1]:
            return c, c[2][1]
    return None, None


def scan_value(body, idx, fn_, fw, RL):
    """idx is a scan value: starts at the own next index, advances by exactly 1, bounded by work.original_count()"""
    idx = strip_r(idx)
    # for-loop form: payload of Range::next with start == next index
    if idx[0] == 'field' and idx[2] == '0' and idx[1][0] == 'down' and idx[1][2] == 'Some':
        c = strip_r(idx[1][1])
        if c[0] == 'call' and 'Iterator' in str(c[1]) and str(c[1]).endswith('::next'):
            return range_source(body, c, fn_, fw, RL)
    if idx[0] == 'var':
        # named loop variable: for-loop binding or while-loop counter
        name = idx[1]
        locs = [i for i, l in enumerate(body.locals) if l.get('name') == name]
        for l in locs:
            ds = [d for d in body.defs().get(l, []) if d[0] == 'stmt']
            vals = [core.strip_var_ids(body.canon_rv(body.blocks[d[1]]['stmts'][d[2]]['rv'], 0, False)) for d in ds]
            if not vals:
                continue
            inits = [v for v in vals if v == fn_]
            incs = [v for v in vals if v[0] == 'bin' and v[1] == 'Add' and ('const', 1) in (v[2], v[3]) and ('var', name) in (v[2], v[3])]
            others = [v for v in vals if v not in inits and v not in incs]
            if inits and not others:
                # while form: guarded by idx < getter(work)
                for sb in range(body.n):
                    t = body.term(sb)
                    if t['k'] == 'switch':
                        c = core.strip_var_ids(body.canon_op(t['discr']))
                        if c[0] == 'bin' and c[1] == 'Lt' and c[2] == ('var', name) and is_count_getter(body, c[3], fw, RL):
                            return True, ''
                return False, 'the scan is not bounded by the original count'
            if len(vals) == 1:
                v = strip_r(vals[0])
                if v[0] == 'field' and v[2] == '0' and v[1][0] == 'down':
                    c = strip_r(v[1][1])
                    if c[0] == 'call' and str(c[1]).endswith('::next'):
                        return range_source(body, c, fn_, fw, RL)
        return False, 'the scan variable does not start at the next index and advance by one'
    return False, 'not a scan over the indexes from the next index upward'


def range_source(body, next_call, fn_, fw, RL):
    """next_call = ('call', '<Range as Iterator>::next', (iter,)) ; iter = into_iter(Range{start,end})"""
    it = strip_r(next_call[2][0])
    # the iterator local is a named/unnamed local defined by into_iter(range)
    if it[0] == 'var':
        locs = [i for i, l in enumerate(body.locals) if l.get('name') == it[1]]
        for l in locs:
            for d in body.defs().get(l, []):
                if d[0] == 'call':
                    t = body.term(d[1])
                    it = core.strip_var_ids(('call', t['callee'].get('key') or t['callee'].get('path'), tuple(body.canon_op(a) for a in t['args'])))
                elif d[0] == 'stmt':
                    st = body.blocks[d[1]]['stmts'][d[2]]
                    if st['k'] == 'assign':
                        it = core.strip_var_ids(body.canon_rv(st['rv'], 0, True))
    if it[0] == 'call' and str(it[1]).endswith('into_iter'):
        it = strip_r(it[2][0])
    it = core.strip_var_ids(it)
    if it[0] == 'adt' and str(it[1]).endswith('ops::Range'):
        d = dict(it[3])
        if core.strip_var_ids(d.get('start')) != fn_:
            return False, 'the scan range starts at %s, not at the next index' % core.show(d.get('start'))
        if not is_count_getter(body, d.get('end'), fw, RL):
            return False, 'the scan range does not end at the original count (%s)' % core.show(d.get('end'))
        return True, ''
    return False, 'unrecognised iteration source %s' % core.show(it)[:60]


def is_count_getter(body, c, fw, RL):
    c = core.strip_var_ids(strip_r(c))
    if c[0] != 'call' or not c[2] or strip_r(c[2][0]) not in (fw, ('deref', fw)):
        return False
    g = body.facts.fns.get(c[1])
    if g is None or g.impl_self_adt != roles_mod.DEC_WORK:
        return False
    return any(st['k'] == 'assign' and st['lhs']['l'] == 0 and
               RL.norm(g.body.canon_rv(st['rv']), side='dec') == ('field', ('deref', ('param', 'self')), 'original_count')
               for bb in g.body.blocks for st in bb['stmts'])


def pat_names(p, out=None):
    if out is None:
        out = set()
    if isinstance(p, dict):
        if p.get('k') == 'bind':
            out.add(p['name'])
        for v in p.values():
            if isinstance(v, (dict, list)):
                pat_names(v, out)
    elif isinstance(p, list):
        for x in p:
            pat_names(x, out)
    return out


def cond_prefix(a, b):
    """conditions a are a prefix of b (ignoring loop markers)"""
    a = [x for x in a if x[0] != 'loop']
    b = [x for x in b if x[0] != 'loop']
    if len(a) > len(b):
        return False
    for x, y in zip(a, b):
        if x[0] != y[0]:
            return False
        if x[0] == 'if' and not (x[1] is y[1] and x[2] == y[2]):
            return False
        if x[0] == 'let' and not (x[1] is y[1] and x[3] == y[3]):
            return False
    return True


def collect_tails(e, conds, env, out):
    """value-producing tail expressions of a fn body with their path conditions"""
    e = core.strip_refs(e) if isinstance(e, dict) else e
    if not isinstance(e, dict):
        return
    k = e.get('k')
    if k == 'block':
        conds2 = tuple(conds)
        for s in e.get('stmts', []):
            if s['k'] == 'let' and 'else' in s:
                conds2 = conds2 + (('let', s['pat'], s.get('init'), True),)
        if e.get('tail') is not None:
            collect_tails(e['tail'], conds2, env, out)
        return
    if k == 'if':
        c = core.strip_refs(e['cond'])
        if c.get('k') == 'letexpr':
            collect_tails(e['then'], conds + (('let', c['pat'], c['init'], True),), env, out)
            if 'else' in e:
                collect_tails(e['else'], conds + (('let', c['pat'], c['init'], False),), env, out)
        else:
            collect_tails(e['then'], conds + (('if', e['cond'], True),), env, out)
            if 'else' in e:
                collect_tails(e['else'], conds + (('if', e['cond'], False),), env, out)
        return
    if k == 'match':
        for i, a in enumerate(e['arms']):
            collect_tails(a['body'], conds + (('arm', e['scrut'], a['pat'], i, None),), env, out)
        return
    out.append((e, conds, env))
