"""C12 — result accessors expose exactly the produced shards; drop starts a new round."""
import re
from . import core, taint, witness, resetrules, c06, roles as roles_mod
from .core import hcanon, hshow

EXPLANATION = (
    "(a) Decision atoms of the accessors (typed HIR path conditions): EncoderWork::recovery(i) is Some exactly "
    "under i < self.recovery_count and exposes self.shards[i] cut to ..self.shard_bytes; "
    "DecoderWork::restored_original(i) is Some exactly under i < self.original_count and the received bit at "
    "self.original_base_pos + i being clear, exposing self.shards[base+i] cut to ..self.shard_bytes; the public "
    "EncoderResult/DecoderResult methods only forward. (b) Iterators: `ended` is only ever assigned true and the "
    "ended path returns None without effects; next_index only grows; Recovery::next yields work.recovery(next_index) "
    "and advances by one; RestoredOriginal::next scans indexes upward from next_index with work.restored_original(index) "
    "while index < original_count, yields the first Some with next_index = index + 1. (c) Drop of a result calls the "
    "work's implicit reset on every path and that reset clears, on every path, every field the add_* methods write "
    "(except the shard store). (d) the index parameter is range-checked before any arithmetic (taint rule of C06). "
    "(e) compile-fail witnesses: no shard can be added while a result is alive.")
DECIDES = "the accessor / iterator / drop structure stated by the property."
NOT_DECIDED = "the bytes exposed (C01/C02: not applicable)."
TRUSTED = ["rustc borrow checker (witness E0499)"]
ASSUMPTIONS = []


def run(ctx):
    cfgs = ['x86_64'] if ctx.tier == 'quick' else ['x86_64', 'aarch64', 'i686']
    ctx.rule('C12.a-accessor-atoms', 'accessor returns Some exactly under the documented condition and exposes the shard cut to shard_bytes')
    ctx.rule('C12.a-forwarding', 'public result methods forward to the work accessors / build the iterator from the same work')
    ctx.rule('C12.b-iterators', 'iterator protocol: ended only set to true, ended => None, index ascending, items are the accessor results')
    ctx.rule('C12.c-drop-resets', 'Drop of a result calls the implicit reset of its work on every path')
    ctx.rule('C12.c-implicit-reset-clears', 'the implicit reset clears every per-round field on every path')
    ctx.rule('C12.c-explicit-reset', 'the explicit reset rewrites every field of the work object')
    ctx.rule('C12.d-check-before-use', 'the accessor index is range-checked before any arithmetic or indexing')
    ctx.rule('C12.e-witness', 'compile-fail witness: no add while a result is alive; twin with drop compiles')
    ctx.rule('C06.a-sources', 'integer parameters of the result accessors are taint sources')
    for cfg in cfgs:
        facts = ctx.facts(cfg)
        ctx.guard('C12.analysable', accessors, ctx, facts, cfg)
        ctx.guard('C12.analysable', iterators, ctx, facts, cfg)
        ctx.guard('C12.analysable', resetrules.check_reset_discipline, ctx, facts, cfg, 'C12.c-drop-resets', 'C12.c-implicit-reset-clears', 'C12.c-explicit-reset')
        ctx.guard('C12.analysable', taint_part, ctx, facts, cfg)
    ws = witness.run_witnesses(ctx.repo)
    n = 0
    for name, (ok, info) in sorted(ws.items()):
        if name.startswith('C12.'):
            n += 1
            if ok:
                ctx.ok('C12.e-witness', name, {'doctest': info})
            else:
                ctx.violation('C12.e-witness', name, 'type-level witness failed: %s' % info, site='witness/src/lib.rs', fn=name)
    ctx.floor('C12.e-witness', 4, n, 'C12 witnesses')


def taint_part(ctx, facts, cfg):
    def src(fn):
        if fn.reachable and fn.path.startswith(('encoder_result::', 'decoder_result::')):
            return [i for i in range(fn.body.arg_count) if fn.body.local_ty(i + 1) == 'usize']
        return []
    T = taint.Taint(facts, src)
    fts = T.run()
    n = 0
    for p, ft in sorted(fts.items()):
        n += 1
        seen = set()
        for (b, kind, detail, line, names) in ft.sinks:
            nm = sorted(x[1] for x in names)
            key = '%s:%s:%s' % (kind, ','.join(nm), re.sub(r'\s+', ' ', detail)[:80])
            if key in seen:
                continue
            seen.add(key)
            ctx.violation('C12.d-check-before-use', key, 'accessor index %s reaches %s `%s` without a dominating range check' % ('/'.join(nm), kind, detail[:100]),
                          site=line, fn=p, cfg=cfg)
        if not ft.sinks:
            ctx.ok('C12.d-check-before-use', '%s@%s' % (p, cfg), {'tainted': sorted(ft.tainted_params)})
    ctx.floor('C12.d-check-before-use', 4, n, 'functions reached by an accessor index', cfg=cfg)


SELF = ('local', 'self')


def sf(name):
    return ('field', SELF, name)


def accessors(ctx, facts, cfg):
    RL = roles_mod.roles(facts)
    spec = {'enc': dict(count='recovery_count', base=None), 'dec': dict(count='original_count', base='original_base_pos')}
    for side, sp in spec.items():
        fn = RL.get(ctx, side + '.accessor', 'C12.a-accessor-atoms', cfg)
        if fn is None:
            continue
        p = fn.path
        somes, nones = [], []

        def visit(e, conds, env):
            if e.get('k') == 'call' and e['f'].get('k') == 'path' and (e['f'].get('path') or '').endswith('::Some') and e.get('ty') == 'std::option::Option<&[u8]>':
                somes.append((e, conds, dict(env)))
        core.PathWalker(visit).walk_fn(fn)
        if len(somes) != 1:
            ctx.violation('C12.a-accessor-atoms', 'some-sites', '%s has %d `Some(..)` exits, expected one' % (p, len(somes)), site=fn.span, fn=p, cfg=cfg)
            continue
        e, conds, env = somes[0]
        from .c06 import inlined_atoms
        atoms = inlined_atoms(conds, env, facts, RL, p)
        idx = ('local', 'index')
        pos = idx if sp['base'] is None else core.norm_bin('Add', sf(sp['base']), idx)
        want = {('lt', idx, sf(sp['count']))}
        got = set()
        bit_ok = sp['base'] is None
        extra = []
        for c, pol in atoms:
            ca = c06.cmp_atom(c, pol)
            if ca:
                got.add(ca)
                continue
            if isinstance(c, tuple) and c[0] == 'index' and c[1] == sf('received'):
                if c[2] == pos and not pol:
                    bit_ok = True
                else:
                    extra.append('received[%s] is %s' % (hshow(c[2]), pol))
                continue
            if isinstance(c, tuple) and c[0] == 'call' and str(c[1]).endswith('FixedBitSet::contains') and c[2][0] == sf('received'):
                if c[2][1] == pos and not pol:
                    bit_ok = True
                else:
                    extra.append('received.contains(%s) is %s' % (hshow(c[2][1]), pol))
                continue
            extra.append('%s%s' % ('' if pol else 'not ', hshow(c)))
        problems = []
        if got != want:
            problems.append('range condition is %s, expected index < self.%s' % (sorted(got), sp['count']))
        if not bit_ok:
            problems.append('not conditioned on the received bit at %s being clear' % hshow(pos))
        if extra:
            problems.append('extra conditions: %s' % extra)
        # payload: &self.shards[pos].as_flattened()[..self.shard_bytes]
        payload = RL.norm(core.inline_calls(hcanon(e['args'][0], env), facts), p)
        ptxt = repr(payload)
        want_idx = ('index', sf('shards'), pos)
        if repr(want_idx) not in ptxt:
            problems.append('exposed slice is not self.shards[%s]' % hshow(pos))
        rng = [x for x in core.hir_find(e['args'][0], lambda n: core.is_range_struct(n) is not None)]
        ok_cut = False
        for (n, _) in rng:
            st, en, inc = core.is_range_struct(n)
            if st is None and en is not None and RL.norm(hcanon(en, env), p) == sf('shard_bytes') and not inc:
                ok_cut = True
        if not ok_cut:
            problems.append('exposed slice is not cut to ..self.shard_bytes')
        if problems:
            ctx.violation('C12.a-accessor-atoms', 'wrong-condition', '%s: %s' % (p, '; '.join(problems)), site=e.get('line') or fn.span, fn=p, cfg=cfg)
        else:
            ctx.ok('C12.a-accessor-atoms', '%s@%s' % (p, cfg), {'some_iff': [('' if pol else 'not ') + hshow(c) for c, pol in atoms], 'slice': 'shards[%s][..shard_bytes]' % hshow(pos)})
    # forwarding of the public methods
    fwd = {"encoder_result::EncoderResult::<'_>::recovery": (RL.fn.get('enc.accessor'), True),
           "decoder_result::DecoderResult::<'_>::restored_original": (RL.fn.get('dec.accessor'), True),
           "encoder_result::EncoderResult::<'_>::recovery_iter": ("encoder_result::Recovery::<'a>::new", False),
           "decoder_result::DecoderResult::<'_>::restored_original_iter": ("decoder_result::RestoredOriginal::<'a>::new", False)}
    for p, (target, with_idx) in fwd.items():
        fn = ctx.anchor(facts, p, 'C12.a-forwarding')
        if fn is None:
            continue
        b = fn.body
        cc = [(bb, t) for bb, t in b.calls() if t['callee'].get('local')]
        bad = None
        if len(cc) != 1 or cc[0][1]['callee'].get('path') != target:
            bad = 'calls %s instead of exactly %s' % ([t['callee'].get('path') for _, t in cc], target)
        else:
            t = cc[0][1]
            a0 = core.show(b.canon_op(t['args'][0]))
            if 'self' not in a0 or 'work' not in a0:
                bad = 'receiver is %s, not self.work' % a0
            if with_idx and b.canon_op(t['args'][1]) != ('param', 'index'):
                bad = 'index is not forwarded unchanged'
            if not (t['dest']['l'] == 0 and not t['dest']['p']):
                bad = 'result is post-processed'
        if bad:
            ctx.violation('C12.a-forwarding', 'not-forwarding', '%s %s' % (p, bad), site=fn.span, fn=p, cfg=cfg)
        else:
            ctx.ok('C12.a-forwarding', '%s@%s' % (p, cfg), None)
    # iterator constructors start at index 0, not ended
    for p in ("encoder_result::Recovery::<'a>::new", "decoder_result::RestoredOriginal::<'a>::new"):
        fn = ctx.anchor(facts, p, 'C12.a-forwarding')
        if fn is None:
            continue
        okc = False
        for bb in range(fn.body.n):
            for st in fn.body.blocks[bb]['stmts']:
                if st['k'] == 'assign' and st['rv']['k'] == 'agg' and st['rv'].get('agg') == 'adt':
                    d = dict(zip(st['rv']['fields'], [fn.body.canon_op(o) for o in st['rv']['ops']]))
                    if d.get('ended') == ('const', 0) and d.get('next_index') == ('const', 0) and d.get('work') == ('param', 'work'):
                        okc = True
        if okc:
            ctx.ok('C12.a-forwarding', '%s@%s' % (p, cfg), {'initial': 'ended=false, next_index=0'})
        else:
            ctx.violation('C12.a-forwarding', 'iterator-initial-state', '%s does not start with ended=false, next_index=0 on the given work' % p, site=fn.span, fn=p, cfg=cfg)


def iterators(ctx, facts, cfg):
    RL = roles_mod.roles(facts)
    specs = [("<encoder_result::Recovery<'a> as std::iter::Iterator>::next", RL.fn.get('enc.accessor'), 'recovery'),
             ("<decoder_result::RestoredOriginal<'a> as std::iter::Iterator>::next", RL.fn.get('dec.accessor'), 'restored')]
    for p, accessor, kind in specs:
        fn = ctx.anchor(facts, p, 'C12.b-iterators')
        if fn is None:
            continue
        if accessor is None:
            ctx.violation('C12.b-iterators', 'role-missing:accessor', 'unrecognised idiom: %s' % (RL.problems[:1] or ['accessor of the work object not identified'])[0], fn=p, cfg=cfg)
            continue
        problems = []
        assigns = []     # (target canon, value node, conds, env, op)
        rets = []        # (value canon, conds, env, node)
        calls = []

        def visit(e, conds, env):
            k = e.get('k')
            if k == 'assign':
                assigns.append((hcanon(e['l'], env), e['r'], conds, dict(env), '='))
            elif k == 'assignop':
                assigns.append((hcanon(e['l'], env), e['r'], conds, dict(env), e['op']))
            elif k in ('mcall', 'call'):
                calls.append((e, conds, dict(env)))
            if k == 'ret' and 'x' in e:
                rets.append((e['x'], conds, dict(env)))
        W = core.PathWalker(visit)
        W.walk_fn(fn)
        # collect tail values: expression-valued exits
        tails = []
        collect_tails(fn.hir['value'], (), {}, tails)
        for (x, conds, env) in rets:
            tails.append((x, conds, env))
        ended = sf('ended')
        nidx = sf('next_index')
        # (i) ended only assigned true
        for (tgt, val, conds, env, op) in assigns:
            if tgt == ended:
                if not (op == '=' and hcanon(val, env) == ('const', 1)):
                    problems.append('`ended` is assigned %s' % hshow(hcanon(val, env)))
        # (ii) ended => None, no effects
        for (tgt, val, conds, env, op) in assigns:
            if any(cd[0] == 'if' and hcanon(cd[1], env) == ended and cd[2] for cd in conds):
                problems.append('state is modified on the ended path')
        seen_ended_none = False
        for (x, conds, env) in tails:
            under_ended = any(cd[0] == 'if' and hcanon(cd[1], env) == ended and cd[2] for cd in conds)
            v = hcanon(x, env)
            is_none = (v[0] == 'def' and str(v[1]).endswith('::None'))
            if under_ended:
                if is_none:
                    seen_ended_none = True
                else:
                    problems.append('the ended path can return %s' % hshow(v))
        if not seen_ended_none:
            problems.append('no `if self.ended { None }` path found')
        # None returned on a not-ended path must set ended = true first
        for (x, conds, env) in tails:
            v = hcanon(x, env)
            is_none = (v[0] == 'def' and str(v[1]).endswith('::None'))
            under_ended = any(cd[0] == 'if' and hcanon(cd[1], env) == ended and cd[2] for cd in conds)
            if is_none and not under_ended:
                # an assignment ended = true with compatible conditions must exist
                if not any(tgt == ended for (tgt, val, c2, e2, op) in assigns if cond_prefix(c2, conds) or cond_prefix(conds, c2)):
                    problems.append('None is returned on a path that does not set ended = true (iterator could yield again later)')
        # (iii) next_index only grows
        for (tgt, val, conds, env, op) in assigns:
            if tgt == nidx:
                v = hcanon(val, env)
                if op in ('+', '+=') and v == ('const', 1):
                    continue
                if op == '=' and v[0] == 'bin' and v[1] == 'Add' and ('const', 1) in (v[2], v[3]):
                    continue
                problems.append('next_index is assigned %s %s' % (op, hshow(v)))
        # (iv) items come from the accessor
        acc_calls = [(e, conds, env) for (e, conds, env) in calls if (e.get('path') == accessor)]
        if not acc_calls:
            problems.append('next() does not obtain its items from %s' % core.short(accessor))
        for (e, conds, env) in acc_calls:
            recv = hcanon(e['recv'], env)
            if recv != sf('work'):
                problems.append('accessor is called on %s, not self.work' % hshow(recv))
            arg = hcanon(e['args'][0], {})
            if kind == 'recovery' and arg != nidx:
                problems.append('Recovery::next asks for index %s, expected self.next_index' % hshow(arg))
            if kind == 'restored' and arg != ('local', 'index'):
                problems.append('RestoredOriginal::next asks for %s, expected the scan variable' % hshow(arg))
        somes = [(x, conds, env) for (x, conds, env) in tails if hcanon(x, env)[0] == 'call' and str(hcanon(x, env)[1]).endswith('::Some')]
        if not somes:
            problems.append('no Some(..) exit')
        for (x, conds, env) in somes:
            # under a successful `let Some(v) = accessor(..)`
            lets = [cd for cd in conds if cd[0] == 'let' and cd[3] is True and isinstance(cd[2], dict)
                    and cd[2].get('k') == 'mcall' and cd[2].get('path') == accessor]
            if not lets:
                problems.append('a Some(..) exit is not governed by `if let Some(..) = work.%s(..)`' % accessor.split('::')[-1])
                continue
            bound = pat_names(lets[0][1])
            v = hcanon(x, {})
            payload = v[2][0]
            if kind == 'recovery':
                if not (payload[0] == 'local' and payload[1] in bound):
                    problems.append('Recovery::next yields %s, not the accessor result' % hshow(payload))
            else:
                if not (payload[0] == 'tuple' and payload[1][0] == ('local', 'index') and payload[1][1][0] == 'local' and payload[1][1][1] in bound):
                    problems.append('RestoredOriginal::next yields %s, not (index, accessor result)' % hshow(payload))
            # next_index advanced on this path
            adv = [a for a in assigns if a[0] == nidx and cond_prefix(a[2], conds)]
            if not adv:
                problems.append('next_index is not advanced on the Some path')
        if kind == 'restored':
            # scan: index starts at next_index, `while index < work.original_count()`, index += 1
            inits = []
            loops = []

            def v2(e, conds, env):
                if e.get('k') == 'loop' and 'While' in e.get('source', ''):
                    loops.append(e)
            core.PathWalker(v2).walk_fn(fn)
            for st in core.hir_find(fn.hir['value'], lambda n: n.get('k') == 'let' and n.get('pat', {}).get('name') == 'index'):
                inits.append(hcanon(st[0].get('init'), {}))
            if inits != [nidx]:
                problems.append('scan variable does not start at self.next_index (%s)' % [hshow(i) for i in inits])
            if len(loops) != 1:
                problems.append('expected one `while` scan loop, found %d' % len(loops))
            else:
                # while cond: first `if` inside loop body
                conds_in = core.hir_find(loops[0], lambda n: n.get('k') == 'if')
                wc = hcanon(conds_in[0][0]['cond'], {}) if conds_in else None
                getter = facts.fns.get(wc[3][1]) if (wc is not None and wc[0] == 'bin' and isinstance(wc[3], tuple) and wc[3][0] == 'call' and isinstance(wc[3][1], str)) else None
                getter_ok = False
                if getter is not None and getter.impl_self_adt == roles_mod.DEC_WORK:
                    getter_ok = any(st['k'] == 'assign' and st['lhs']['l'] == 0 and
                                    RL.norm(getter.body.canon_rv(st['rv']), side='dec') == ('field', ('deref', ('param', 'self')), 'original_count')
                                    for bb in getter.body.blocks for st in bb['stmts'])
                okw = wc is not None and wc[0] == 'bin' and wc[1] == 'Lt' and wc[2] == ('local', 'index') and \
                    wc[3][0] == 'call' and getter_ok and wc[3][2][0] == sf('work')
                if not okw:
                    problems.append('scan loop condition is %s, expected index < self.work.original_count()' % (hshow(wc) if wc else None))
                incs = [a for a in assigns if a[0] == ('local', 'index')]
                if not incs or not all(a[4] in ('+', '+=') and hcanon(a[1], {}) == ('const', 1) for a in incs):
                    problems.append('scan variable is not advanced by exactly 1')
        if problems:
            for pr in sorted(set(problems)):
                ctx.violation('C12.b-iterators', re.sub(r'[^A-Za-z]+', '-', pr)[:60], '%s: %s' % (p, pr), site=fn.span, fn=p, cfg=cfg)
        else:
            ctx.ok('C12.b-iterators', '%s@%s' % (p, cfg), {'protocol': 'ended-only-true, ended=>None, ascending, items = %s' % core.short(accessor)})


def pat_names(p, out=None):
    if out is None:
        out = set()
    if isinstance(p, dict):
        if p.get('k') == 'bind':
            out.add(p['name'])
        for v in p.values():
            if isinstance(v, (dict, list)):
                pat_names(v, out)
    elif isinstance(p, list):
        for x in p:
            pat_names(x, out)
    return out


def cond_prefix(a, b):
    """conditions a are a prefix of b (ignoring loop markers)"""
    a = [x for x in a if x[0] != 'loop']
    b = [x for x in b if x[0] != 'loop']
    if len(a) > len(b):
        return False
    for x, y in zip(a, b):
        if x[0] != y[0]:
            return False
        if x[0] == 'if' and not (x[1] is y[1] and x[2] == y[2]):
            return False
        if x[0] == 'let' and not (x[1] is y[1] and x[3] == y[3]):
            return False
    return True


def collect_tails(e, conds, env, out):
    """value-producing tail expressions of a fn body with their path conditions"""
    e = core.strip_refs(e) if isinstance(e, dict) else e
    if not isinstance(e, dict):
        return
    k = e.get('k')
    if k == 'block':
        conds2 = tuple(conds)
        for s in e.get('stmts', []):
            if s['k'] == 'let' and 'else' in s:
                conds2 = conds2 + (('let', s['pat'], s.get('init'), True),)
        if e.get('tail') is not None:
            collect_tails(e['tail'], conds2, env, out)
        return
    if k == 'if':
        c = core.strip_refs(e['cond'])
        if c.get('k') == 'letexpr':
            collect_tails(e['then'], conds + (('let', c['pat'], c['init'], True),), env, out)
            if 'else' in e:
                collect_tails(e['else'], conds + (('let', c['pat'], c['init'], False),), env, out)
        else:
            collect_tails(e['then'], conds + (('if', e['cond'], True),), env, out)
            if 'else' in e:
                collect_tails(e['else'], conds + (('if', e['cond'], False),), env, out)
        return
    if k == 'match':
        for i, a in enumerate(e['arms']):
            collect_tails(a['body'], conds + (('arm', e['scrut'], a['pat'], i, None),), env, out)
        return
    out.append((e, conds, env))
