//! Minimal JSON value + serializer (no external crates in a rustc_private driver).

use std::fmt::Write;

#[derive(Clone, Debug)]
pub enum J {
    Null,
    Bool(bool),
    Num(i128),
    Str(String),
    Arr(Vec<J>),
    Obj(Vec<(String, J)>),
}

impl J {
    pub fn s<S: Into<String>>(s: S) -> J {
        J::Str(s.into())
    }
    pub fn obj() -> J {
        J::Obj(Vec::new())
    }
    pub fn set<S: Into<String>>(&mut self, k: S, v: J) -> &mut Self {
        if let J::Obj(o) = self {
            o.push((k.into(), v));
        }
        self
    }
    pub fn with<S: Into<String>>(mut self, k: S, v: J) -> Self {
        self.set(k, v);
        self
    }
    pub fn write(&self, out: &mut String) {
        match self {
            J::Null => out.push_str("null"),
            J::Bool(b) => out.push_str(if *b { "true" } else { "false" }),
            J::Num(n) => {
                let _ = write!(out, "{}", n);
            }
            J::Str(s) => esc(s, out),
            J::Arr(a) => {
                out.push('[');
                for (i, x) in a.iter().enumerate() {
                    if i > 0 {
                        out.push(',');
                    }
                    x.write(out);
                }
                out.push(']');
            }
            J::Obj(o) => {
                out.push('{');
                for (i, (k, v)) in o.iter().enumerate() {
                    if i > 0 {
                        out.push(',');
                    }
                    esc(k, out);
                    out.push(':');
                    v.write(out);
                }
                out.push('}');
            }
        }
    }
}

fn esc(s: &str, out: &mut String) {
    out.push('"');
    for c in s.chars() {
        match c {
            '"' => out.push_str("\\\""),
            '\\' => out.push_str("\\\\"),
            '\n' => out.push_str("\\n"),
            '\r' => out.push_str("\\r"),
            '\t' => out.push_str("\\t"),
            c if (c as u32) < 0x20 => {
                let _ = write!(out, "\\u{:04x}", c as u32);
            }
            c => out.push(c),
        }
    }
    out.push('"');
}
