//! Typed HIR: expression trees with resolved paths, for shape rules.

use crate::items::{def_path, span_str, ty_str, Ctx};
use crate::json::J;
use rustc_hir as hir;
use rustc_hir::def::{DefKind, Res};
use rustc_hir::def_id::{DefId, LocalDefId};
use rustc_hir::{Block, Expr, ExprKind, Pat, PatKind, QPath, StmtKind};
use rustc_middle::ty::{self, TyCtxt, TypeckResults};

struct H<'a, 'tcx> {
    tcx: TyCtxt<'tcx>,
    tr: &'tcx TypeckResults<'tcx>,
    cx: &'a mut Ctx<'tcx>,
    owner: DefId,
    unsafe_depth: usize,
}

pub fn emit_body<'tcx>(cx: &mut Ctx<'tcx>, ldid: LocalDefId) -> J {
    let tcx = cx.tcx;
    let body = tcx.hir_body_owned_by(ldid);
    let tr = tcx.typeck(ldid);
    let mut h = H {
        tcx,
        tr,
        cx,
        owner: ldid.to_def_id(),
        unsafe_depth: 0,
    };
    let mut o = J::obj();
    let mut ps = Vec::new();
    for p in body.params {
        ps.push(h.pat(p.pat));
    }
    o.set("params", J::Arr(ps));
    o.set("value", h.expr(body.value));
    o
}

impl<'a, 'tcx> H<'a, 'tcx> {
    fn res_json(&mut self, res: Res) -> J {
        let tcx = self.tcx;
        match res {
            Res::Local(hid) => {
                let name = tcx.hir_name(hid);
                J::obj()
                    .with("res", J::s("local"))
                    .with("name", J::s(name.as_str()))
                    .with("id", J::Num(hid.local_id.as_u32() as i128))
            }
            Res::Def(kind, did) => {
                let mut o = J::obj()
                    .with("res", J::s("def"))
                    .with("def_kind", J::s(format!("{:?}", kind)))
                    .with("path", J::s(def_path(tcx, did)))
                    .with("local", J::Bool(did.is_local()));
                if let DefKind::Static { mutability, .. } = kind {
                    o.set("static_mut", J::Bool(mutability.is_mut()));
                }
                if let DefKind::Ctor(..) = kind {
                    // variant / struct ctor: parent is the variant or struct
                    let p = tcx.parent(did);
                    o.set("ctor_of", J::s(def_path(tcx, p)));
                }
                o
            }
            Res::SelfTyAlias { alias_to, .. } => J::obj()
                .with("res", J::s("selfty"))
                .with("path", J::s(def_path(tcx, alias_to))),
            Res::SelfCtor(did) => J::obj()
                .with("res", J::s("selfctor"))
                .with("path", J::s(def_path(tcx, did))),
            other => J::obj()
                .with("res", J::s("other"))
                .with("dbg", J::s(format!("{:?}", other))),
        }
    }

    fn qpath(&mut self, qp: &QPath<'tcx>, hid: hir::HirId) -> J {
        let res = self.tr.qpath_res(qp, hid);
        let mut o = self.res_json(res);
        // Method / assoc fn paths: record resolved fn + substs' self type where available
        if let Res::Def(DefKind::AssocFn | DefKind::Fn, did) = res {
            let args = self.tr.node_args(hid);
            if let Some(t) = args.types().next() {
                o.set("self_ty", J::s(ty_str(self.tcx, t)));
            }
            if !did.is_local() {
                self.cx.externs.insert(did);
            }
            self.note_unsafe_callee(did, &mut o);
        }
        o
    }

    fn note_unsafe_callee(&mut self, did: DefId, o: &mut J) {
        let tcx = self.tcx;
        if matches!(tcx.def_kind(did), DefKind::Fn | DefKind::AssocFn) {
            let uns = tcx.fn_sig(did).skip_binder().safety().is_unsafe();
            if uns {
                o.set("unsafe_callee", J::Bool(true));
            }
            let callee_tf = &tcx.codegen_fn_attrs(did).target_features;
            if !callee_tf.is_empty() {
                o.set(
                    "callee_features",
                    J::Arr(callee_tf.iter().map(|f| J::s(f.name.as_str())).collect()),
                );
            }
        }
    }

    fn block(&mut self, b: &'tcx Block<'tcx>) -> J {
        let is_unsafe = matches!(b.rules, hir::BlockCheckMode::UnsafeBlock(_));
        let user_unsafe = matches!(
            b.rules,
            hir::BlockCheckMode::UnsafeBlock(hir::UnsafeSource::UserProvided)
        );
        if is_unsafe {
            self.unsafe_depth += 1;
        }
        let mut stmts = Vec::new();
        for s in b.stmts {
            match s.kind {
                StmtKind::Let(l) => {
                    let mut o = J::obj().with("k", J::s("let"));
                    o.set("pat", self.pat(l.pat));
                    if let Some(i) = l.init {
                        o.set("init", self.expr(i));
                    }
                    if let Some(e) = l.els {
                        o.set("else", self.block(e));
                    }
                    o.set("line", J::s(span_str(self.tcx, s.span)));
                    stmts.push(o);
                }
                StmtKind::Expr(e) | StmtKind::Semi(e) => {
                    let ej = self.expr(e);
                    stmts.push(J::obj().with("k", J::s("expr")).with("e", ej));
                }
                StmtKind::Item(_) => {}
            }
        }
        let mut o = J::obj().with("k", J::s("block"));
        if user_unsafe {
            o.set("unsafe", J::Bool(true));
            o.set("line", J::s(span_str(self.tcx, b.span)));
        }
        o.set("stmts", J::Arr(stmts));
        if let Some(e) = b.expr {
            o.set("tail", self.expr(e));
        }
        if is_unsafe {
            self.unsafe_depth -= 1;
        }
        o
    }

    fn pat(&mut self, p: &'tcx Pat<'tcx>) -> J {
        match p.kind {
            PatKind::Binding(mode, hid, ident, sub) => {
                let mut o = J::obj()
                    .with("k", J::s("bind"))
                    .with("name", J::s(ident.name.as_str()))
                    .with("id", J::Num(hid.local_id.as_u32() as i128))
                    .with("mode", J::s(format!("{:?}", mode)));
                o.set("ty", J::s(ty_str(self.tcx, self.tr.pat_ty(p))));
                if let Some(s) = sub {
                    o.set("sub", self.pat(s));
                }
                o
            }
            PatKind::Wild => J::obj().with("k", J::s("wild")),
            PatKind::Tuple(ps, dd) => J::obj()
                .with("k", J::s("tuple"))
                .with("dd", J::Bool(dd.as_opt_usize().is_some()))
                .with("pats", J::Arr(ps.iter().map(|x| self.pat(x)).collect())),
            PatKind::TupleStruct(ref qp, ps, _) => {
                let q = self.qpath(qp, p.hir_id);
                J::obj()
                    .with("k", J::s("tuplestruct"))
                    .with("path", q)
                    .with("pats", J::Arr(ps.iter().map(|x| self.pat(x)).collect()))
            }
            PatKind::Struct(ref qp, fs, _) => {
                let q = self.qpath(qp, p.hir_id);
                let mut fl = Vec::new();
                for f in fs {
                    let pj = self.pat(f.pat);
                    fl.push(J::obj().with("name", J::s(f.ident.name.as_str())).with("pat", pj));
                }
                J::obj()
                    .with("k", J::s("struct"))
                    .with("path", q)
                    .with("fields", J::Arr(fl))
            }
            PatKind::Ref(inner, ..) => J::obj().with("k", J::s("ref")).with("pat", self.pat(inner)),
            PatKind::Or(ps) => J::obj()
                .with("k", J::s("or"))
                .with("pats", J::Arr(ps.iter().map(|x| self.pat(x)).collect())),
            PatKind::Expr(pe) => {
                let mut o = J::obj().with("k", J::s("patexpr"));
                match pe.kind {
                    hir::PatExprKind::Path(ref qp) => {
                        o.set("path", self.qpath(qp, pe.hir_id));
                    }
                    hir::PatExprKind::Lit { lit, negated } => {
                        o.set("lit", J::s(format!("{:?}", lit.node)));
                        o.set("neg", J::Bool(negated));
                    }
                    #[allow(unreachable_patterns)]
                    _ => {
                        o.set("dbg", J::s(format!("{:?}", pe.kind)));
                    }
                }
                o
            }
            _ => J::obj()
                .with("k", J::s("otherpat"))
                .with("dbg", J::s(format!("{:?}", p.kind).chars().take(200).collect::<String>())),
        }
    }

    fn lit(&mut self, l: &hir::Lit, o: &mut J) {
        use rustc_ast::LitKind;
        match l.node {
            LitKind::Int(v, _) => {
                o.set("int", J::Num(v.get() as i128));
            }
            LitKind::Bool(b) => {
                o.set("bool", J::Bool(b));
            }
            LitKind::Str(s, _) => {
                o.set("str", J::s(s.as_str()));
            }
            ref other => {
                o.set("lit", J::s(format!("{:?}", other)));
            }
        }
    }

    fn expr(&mut self, e: &'tcx Expr<'tcx>) -> J {
        let tcx = self.tcx;
        let mut o = J::obj();
        let line = span_str(tcx, e.span);
        let exp = e.span.from_expansion();
        match e.kind {
            ExprKind::Path(ref qp) => {
                o.set("k", J::s("path"));
                let q = self.qpath(qp, e.hir_id);
                if let J::Obj(kv) = q {
                    for (k, v) in kv {
                        o.set(k, v);
                    }
                }
            }
            ExprKind::Lit(l) => {
                o.set("k", J::s("lit"));
                self.lit(&l, &mut o);
            }
            ExprKind::Call(f, args) => {
                o.set("k", J::s("call"));
                o.set("f", self.expr(f));
                o.set("args", J::Arr(args.iter().map(|a| self.expr(a)).collect()));
                o.set("line", J::s(line.clone()));
                // overloaded call / fn pointer?
                let fty = self.tr.expr_ty_adjusted(f);
                if let ty::FnPtr(..) = fty.kind() {
                    o.set("fnptr", J::Bool(true));
                }
            }
            ExprKind::MethodCall(seg, recv, args, _) => {
                o.set("k", J::s("mcall"));
                o.set("name", J::s(seg.ident.name.as_str()));
                if let Some(did) = self.tr.type_dependent_def_id(e.hir_id) {
                    o.set("path", J::s(def_path(tcx, did)));
                    o.set("local", J::Bool(did.is_local()));
                    if !did.is_local() {
                        self.cx.externs.insert(did);
                    }
                    self.note_unsafe_callee(did, &mut o);
                    if let Some(tr) = tcx.trait_of_assoc(did) {
                        o.set("trait", J::s(def_path(tcx, tr)));
                    }
                }
                o.set("recv_ty", J::s(ty_str(tcx, self.tr.expr_ty(recv))));
                o.set("recv", self.expr(recv));
                o.set("args", J::Arr(args.iter().map(|a| self.expr(a)).collect()));
                o.set("line", J::s(line.clone()));
            }
            ExprKind::Binary(op, l, r) => {
                o.set("k", J::s("bin"));
                o.set("op", J::s(op.node.as_str()));
                // overloaded operator?
                if let Some(did) = self.tr.type_dependent_def_id(e.hir_id) {
                    o.set("overloaded", J::s(def_path(tcx, did)));
                }
                o.set("l", self.expr(l));
                o.set("r", self.expr(r));
            }
            ExprKind::Unary(op, x) => {
                o.set("k", J::s("un"));
                o.set("op", J::s(format!("{:?}", op)));
                if let hir::UnOp::Deref = op {
                    let t = self.tr.expr_ty_adjusted(x);
                    if t.is_raw_ptr() {
                        o.set("raw_deref", J::Bool(true));
                    }
                    if let Some(did) = self.tr.type_dependent_def_id(e.hir_id) {
                        o.set("overloaded", J::s(def_path(tcx, did)));
                    }
                }
                o.set("x", self.expr(x));
            }
            ExprKind::Cast(x, _) => {
                o.set("k", J::s("cast"));
                o.set("to", J::s(ty_str(tcx, self.tr.expr_ty(e))));
                o.set("from", J::s(ty_str(tcx, self.tr.expr_ty(x))));
                o.set("x", self.expr(x));
            }
            ExprKind::Type(x, _) => {
                return self.expr(x);
            }
            ExprKind::DropTemps(x) => {
                return self.expr(x);
            }
            ExprKind::Use(x, _) => {
                return self.expr(x);
            }
            ExprKind::Let(l) => {
                o.set("k", J::s("letexpr"));
                o.set("pat", self.pat(l.pat));
                o.set("init", self.expr(l.init));
            }
            ExprKind::If(c, t, el) => {
                o.set("k", J::s("if"));
                o.set("cond", self.expr(c));
                o.set("then", self.expr(t));
                if let Some(x) = el {
                    o.set("else", self.expr(x));
                }
                o.set("line", J::s(line.clone()));
            }
            ExprKind::Loop(b, _, src, _) => {
                o.set("k", J::s("loop"));
                o.set("source", J::s(format!("{:?}", src)));
                o.set("body", self.block(b));
                o.set("line", J::s(line.clone()));
            }
            ExprKind::Match(x, arms, src) => {
                o.set("k", J::s("match"));
                o.set("source", J::s(format!("{:?}", src)));
                o.set("scrut", self.expr(x));
                o.set("scrut_ty", J::s(ty_str(tcx, self.tr.expr_ty(x))));
                let mut al = Vec::new();
                for a in arms {
                    let mut ao = J::obj();
                    ao.set("pat", self.pat(a.pat));
                    if let Some(g) = a.guard {
                        ao.set("guard", self.expr(g));
                    }
                    ao.set("body", self.expr(a.body));
                    al.push(ao);
                }
                o.set("arms", J::Arr(al));
                o.set("line", J::s(line.clone()));
            }
            ExprKind::Closure(c) => {
                o.set("k", J::s("closure"));
                o.set("def", J::s(def_path(tcx, c.def_id.to_def_id())));
            }
            ExprKind::Block(b, _) => {
                return self.block(b);
            }
            ExprKind::Assign(l, r, _) => {
                o.set("k", J::s("assign"));
                o.set("l", self.expr(l));
                o.set("r", self.expr(r));
                o.set("line", J::s(line.clone()));
            }
            ExprKind::AssignOp(op, l, r) => {
                o.set("k", J::s("assignop"));
                o.set("op", J::s(op.node.as_str()));
                if let Some(did) = self.tr.type_dependent_def_id(e.hir_id) {
                    o.set("overloaded", J::s(def_path(tcx, did)));
                }
                o.set("l", self.expr(l));
                o.set("r", self.expr(r));
                o.set("line", J::s(line.clone()));
            }
            ExprKind::Field(x, ident) => {
                o.set("k", J::s("field"));
                o.set("name", J::s(ident.name.as_str()));
                let bt = self.tr.expr_ty_adjusted(x);
                let bt = bt.peel_refs();
                if let ty::Adt(adt, _) = bt.kind() {
                    o.set("of", J::s(def_path(tcx, adt.did())));
                    if adt.is_union() {
                        o.set("union_field", J::Bool(true));
                    }
                }
                o.set("x", self.expr(x));
            }
            ExprKind::Index(b, i, _) => {
                o.set("k", J::s("index"));
                if let Some(did) = self.tr.type_dependent_def_id(e.hir_id) {
                    o.set("overloaded", J::s(def_path(tcx, did)));
                }
                o.set("base_ty", J::s(ty_str(tcx, self.tr.expr_ty_adjusted(b).peel_refs())));
                o.set("base", self.expr(b));
                o.set("idx", self.expr(i));
                o.set("line", J::s(line.clone()));
            }
            ExprKind::AddrOf(kind, m, x) => {
                o.set("k", J::s("addrof"));
                o.set("raw", J::Bool(matches!(kind, hir::BorrowKind::Raw)));
                o.set("mut", J::Bool(m.is_mut()));
                o.set("x", self.expr(x));
            }
            ExprKind::Break(_, x) => {
                o.set("k", J::s("break"));
                if let Some(x) = x {
                    o.set("x", self.expr(x));
                }
            }
            ExprKind::Continue(_) => {
                o.set("k", J::s("continue"));
            }
            ExprKind::Ret(x) => {
                o.set("k", J::s("ret"));
                if let Some(x) = x {
                    o.set("x", self.expr(x));
                }
                o.set("line", J::s(line.clone()));
            }
            ExprKind::Struct(qp, fields, tail) => {
                o.set("k", J::s("struct"));
                let q = self.qpath(qp, e.hir_id);
                o.set("path", q);
                let t = self.tr.expr_ty(e);
                if let ty::Adt(adt, _) = t.kind() {
                    o.set("adt", J::s(def_path(tcx, adt.did())));
                }
                let mut fl = Vec::new();
                for f in fields {
                    let ej = self.expr(f.expr);
                    fl.push(J::obj().with("name", J::s(f.ident.name.as_str())).with("e", ej));
                }
                o.set("fields", J::Arr(fl));
                if let hir::StructTailExpr::Base(b) = tail {
                    o.set("base", self.expr(b));
                }
                o.set("line", J::s(line.clone()));
            }
            ExprKind::Tup(xs) => {
                o.set("k", J::s("tup"));
                o.set("xs", J::Arr(xs.iter().map(|x| self.expr(x)).collect()));
            }
            ExprKind::Array(xs) => {
                o.set("k", J::s("array"));
                o.set("xs", J::Arr(xs.iter().map(|x| self.expr(x)).collect()));
            }
            ExprKind::Repeat(x, _) => {
                o.set("k", J::s("repeat"));
                o.set("x", self.expr(x));
                o.set("ty", J::s(ty_str(tcx, self.tr.expr_ty(e))));
            }
            ExprKind::InlineAsm(_) => {
                o.set("k", J::s("asm"));
            }
            ExprKind::ConstBlock(_) => {
                o.set("k", J::s("constblock"));
            }
            _ => {
                o.set("k", J::s("other"));
                o.set(
                    "dbg",
                    J::s(format!("{:?}", e.kind).chars().take(120).collect::<String>()),
                );
            }
        }
        o.set("ty", J::s(ty_str(tcx, self.tr.expr_ty(e))));
        if exp {
            o.set("exp", J::Bool(true));
        }
        if self.unsafe_depth > 0 {
            o.set("in_unsafe", J::Bool(true));
        }
        let _ = self.owner;
        o
    }
}
