use crate::json::J;
use crate::{hirx, mirx};
use rustc_hir::def::DefKind;
use rustc_hir::def_id::{DefId, LocalDefId};
use rustc_middle::ty::{self, Ty, TyCtxt};
use rustc_middle::ty::print::PrintTraitRefExt;
use rustc_span::Span;
use std::collections::{BTreeMap, HashSet};

pub struct Ctx<'tcx> {
    pub tcx: TyCtxt<'tcx>,
    /// external (non-local) callees seen in any body
    pub externs: HashSet<DefId>,
    /// types whose layout size is wanted
    pub layouts: BTreeMap<String, Option<u64>>,
}

pub fn span_str(tcx: TyCtxt<'_>, sp: Span) -> String {
    let sp = sp.source_callsite();
    let sm = tcx.sess.source_map();
    let loc = sm.lookup_char_pos(sp.lo());
    let name = format!("{}", loc.file.name.prefer_local_unconditionally());
    format!("{}:{}", name, loc.line)
}

pub fn span_obj(tcx: TyCtxt<'_>, sp: Span) -> J {
    let cs = sp.source_callsite();
    let sm = tcx.sess.source_map();
    let lo = sm.lookup_char_pos(cs.lo());
    let hi = sm.lookup_char_pos(cs.hi());
    J::Arr(vec![
        J::Num(lo.line as i128),
        J::Num(lo.col.0 as i128),
        J::Num(hi.line as i128),
        J::Num(hi.col.0 as i128),
    ])
}

pub fn def_path(tcx: TyCtxt<'_>, did: DefId) -> String {
    ty::print::with_no_trimmed_paths!(ty::print::with_forced_impl_filename_line!(
        tcx.def_path_str(did)
    ))
    .to_string();
    // plain path, crate-qualified for externs, `crate::` stripped by rustc for locals
    ty::print::with_no_trimmed_paths!(tcx.def_path_str(did))
}

pub fn ty_str<'tcx>(_tcx: TyCtxt<'tcx>, t: Ty<'tcx>) -> String {
    ty::print::with_no_trimmed_paths!(format!("{}", t))
}

pub fn crate_of(tcx: TyCtxt<'_>, did: DefId) -> String {
    tcx.crate_name(did.krate).to_string()
}

fn target_features(tcx: TyCtxt<'_>, did: DefId) -> J {
    let attrs = tcx.codegen_fn_attrs(did);
    J::Arr(
        attrs
            .target_features
            .iter()
            .map(|f| J::s(f.name.as_str()))
            .collect(),
    )
}

fn is_fn_like(k: DefKind) -> bool {
    matches!(k, DefKind::Fn | DefKind::AssocFn | DefKind::Closure)
}

fn fn_is_unsafe(tcx: TyCtxt<'_>, did: DefId) -> bool {
    match tcx.def_kind(did) {
        DefKind::Fn | DefKind::AssocFn => tcx.fn_sig(did).skip_binder().safety().is_unsafe(),
        _ => false,
    }
}

pub fn emit<'tcx>(tcx: TyCtxt<'tcx>, root: &mut J) {
    let mut cx = Ctx {
        tcx,
        externs: HashSet::new(),
        layouts: BTreeMap::new(),
    };
    root.set("crate", J::s(tcx.crate_name(rustc_hir::def_id::LOCAL_CRATE).as_str()));
    root.set("target", J::s(tcx.sess.opts.target_triple.to_string()));
    root.set("pointer_bits", J::Num(tcx.data_layout.pointer_size().bits() as i128));
    root.set(
        "baseline_features",
        J::Arr(
            tcx.sess
                .target_features
                .iter()
                .map(|s| J::s(s.as_str()))
                .collect(),
        ),
    );

    let vis = tcx.effective_visibilities(());
    root.set("implied_features", J::obj());

    // ---------------- functions / closures / statics / consts with bodies
    let mut fns = Vec::new();
    let mut statics = Vec::new();
    let mut body_count = 0;
    for ldid in tcx.hir_body_owners() {
        let did = ldid.to_def_id();
        let kind = tcx.def_kind(did);
        match kind {
            DefKind::Fn | DefKind::AssocFn | DefKind::Closure => {
                body_count += 1;
                fns.push(emit_fn(&mut cx, ldid, kind, vis));
            }
            DefKind::Static { mutability, .. } => {
                let mut o = J::obj();
                o.set("path", J::s(def_path(tcx, did)));
                o.set("mutable", J::Bool(mutability.is_mut()));
                o.set(
                    "ty",
                    J::s(ty_str(tcx, tcx.type_of(did).instantiate_identity().skip_norm_wip())),
                );
                o.set("span", J::s(span_str(tcx, tcx.def_span(did))));
                o.set("reachable", J::Bool(vis.is_reachable(ldid)));
                let body = tcx.mir_for_ctfe(ldid);
                o.set("mir", mirx::emit_body(&mut cx, did, body));
                statics.push(o);
            }
            _ => {}
        }
    }
    root.set("body_count", J::Num(body_count));
    root.set("fns", J::Arr(fns));
    root.set("statics", J::Arr(statics));

    // ---------------- ADTs, traits, impls (module items)
    let mut adts = Vec::new();
    let mut impls = Vec::new();
    let mut traits = Vec::new();
    let mut others = Vec::new();
    for id in tcx.hir_free_items() {
        let ldid = id.owner_id.def_id;
        let did = ldid.to_def_id();
        match tcx.def_kind(did) {
            DefKind::Struct | DefKind::Enum | DefKind::Union => {
                let adt = tcx.adt_def(did);
                let mut o = J::obj();
                o.set("path", J::s(def_path(tcx, did)));
                o.set(
                    "kind",
                    J::s(if adt.is_struct() {
                        "struct"
                    } else if adt.is_enum() {
                        "enum"
                    } else {
                        "union"
                    }),
                );
                o.set("reachable", J::Bool(vis.is_reachable(ldid)));
                o.set("span", J::s(span_str(tcx, tcx.def_span(did))));
                let mut vs = Vec::new();
                for v in adt.variants() {
                    let mut vo = J::obj();
                    vo.set("name", J::s(v.name.as_str()));
                    let mut fs = Vec::new();
                    for f in v.fields.iter() {
                        let fty = tcx.type_of(f.did).instantiate_identity().skip_norm_wip();
                        fs.push(
                            J::obj()
                                .with("name", J::s(f.name.as_str()))
                                .with("ty", J::s(ty_str(tcx, fty)))
                                .with("pub", J::Bool(f.vis.is_public())),
                        );
                    }
                    vo.set("fields", J::Arr(fs));
                    vs.push(vo);
                }
                o.set("variants", J::Arr(vs));
                adts.push(o);
            }
            DefKind::Impl { of_trait } => {
                let mut o = J::obj();
                let self_ty = tcx.type_of(did).instantiate_identity().skip_norm_wip();
                o.set("self_ty", J::s(ty_str(tcx, self_ty)));
                o.set("span", J::s(span_str(tcx, tcx.def_span(did))));
                if of_trait {
                    let tr = tcx.impl_trait_ref(did).instantiate_identity().skip_norm_wip();
                    o.set("trait", J::s(def_path(tcx, tr.def_id)));
                    o.set(
                        "trait_ref",
                        J::s(ty::print::with_no_trimmed_paths!(format!(
                            "{}",
                            tr.print_only_trait_path()
                        ))),
                    );
                    let hdr = tcx.impl_trait_header(did);
                    o.set("unsafe", J::Bool(hdr.safety.is_unsafe()));
                    o.set(
                        "negative",
                        J::Bool(matches!(hdr.polarity, ty::ImplPolarity::Negative)),
                    );
                } else {
                    o.set("trait", J::Null);
                }
                let mut its = Vec::new();
                for it in tcx.associated_items(did).in_definition_order() {
                    let mut io = J::obj();
                    io.set("name", J::s(it.name().as_str()));
                    io.set("path", J::s(def_path(tcx, it.def_id)));
                    io.set("kind", J::s(format!("{:?}", it.tag())));
                    if it.is_type() {
                        let t = tcx.type_of(it.def_id).instantiate_identity().skip_norm_wip();
                        io.set("ty", J::s(ty_str(tcx, t)));
                    }
                    if let Some(tid) = it.trait_item_def_id() {
                        io.set("trait_item", J::s(def_path(tcx, tid)));
                    }
                    its.push(io);
                }
                o.set("items", J::Arr(its));
                impls.push(o);
            }
            DefKind::Trait => {
                let mut o = J::obj();
                o.set("path", J::s(def_path(tcx, did)));
                let mut its = Vec::new();
                for it in tcx.associated_items(did).in_definition_order() {
                    let mut io = J::obj();
                    io.set("name", J::s(it.name().as_str()));
                    io.set("path", J::s(def_path(tcx, it.def_id)));
                    io.set("kind", J::s(format!("{:?}", it.tag())));
                    io.set("has_default", J::Bool(it.defaultness(tcx).has_value()));
                    its.push(io);
                }
                o.set("items", J::Arr(its));
                traits.push(o);
            }
            k => {
                let mut oo = J::obj()
                    .with("path", J::s(def_path(tcx, did)))
                    .with("kind", J::s(format!("{:?}", k)))
                    .with("span", J::s(span_str(tcx, tcx.def_span(did))));
                // integer constants: their evaluated value (loop bounds / table sizes are written in terms of them)
                if matches!(k, DefKind::Const { .. }) {
                    let ty = tcx.type_of(did).instantiate_identity().skip_norm_wip();
                    if ty.is_integral() && tcx.generics_of(did).is_empty() {
                        if let Ok(v) = tcx.const_eval_poly(did) {
                            if let Some(sc) = v.try_to_scalar_int() {
                                oo.set("val", J::Num(sc.to_bits_unchecked() as i128));
                                oo.set("ty", J::s(format!("{}", ty)));
                            }
                        }
                    }
                }
                others.push(oo);
            }
        }
    }
    root.set("adts", J::Arr(adts));
    root.set("impls", J::Arr(impls));
    root.set("traits", J::Arr(traits));
    root.set("other_items", J::Arr(others));

    // ---------------- instance-level call graph
    root.set("instances", mirx::instance_graph(&mut cx));

    // ---------------- external callees
    let mut ex = Vec::new();
    let mut externs: Vec<DefId> = cx.externs.iter().copied().collect(); externs.sort_by_key(|d| def_path(tcx, *d));
    for did in externs {
        let kind = tcx.def_kind(did);
        let mut o = J::obj();
        o.set("path", J::s(def_path(tcx, did)));
        o.set("crate", J::s(crate_of(tcx, did)));
        o.set("kind", J::s(format!("{:?}", kind)));
        if is_fn_like(kind) {
            o.set("unsafe", J::Bool(fn_is_unsafe(tcx, did)));
            o.set("target_features", target_features(tcx, did));
            if matches!(kind, DefKind::Fn | DefKind::AssocFn) {
                let sig = tcx.fn_sig(did).skip_binder().skip_binder();
                o.set(
                    "inputs",
                    J::Arr(sig.inputs().iter().map(|t| J::s(ty_str(tcx, *t))).collect()),
                );
                o.set("output", J::s(ty_str(tcx, sig.output())));
                o.set("diverges", J::Bool(sig.output().is_never()));
            }
            o.set("intrinsic", J::Bool(tcx.intrinsic(did).is_some()));
        }
        ex.push(o);
    }
    root.set("externs", J::Arr(ex));

    // ---------------- implied target features (closure) for every feature name seen
    {
        let mut names: std::collections::BTreeSet<String> = std::collections::BTreeSet::new();
        for ldid in tcx.hir_body_owners() {
            let did = ldid.to_def_id();
            if is_fn_like(tcx.def_kind(did)) {
                for f in tcx.codegen_fn_attrs(did).target_features.iter() {
                    names.insert(f.name.to_string());
                }
            }
        }
        for did in cx.externs.iter() {
            if is_fn_like(tcx.def_kind(*did)) {
                for f in tcx.codegen_fn_attrs(*did).target_features.iter() {
                    names.insert(f.name.to_string());
                }
            }
        }
        for extra in ["avx2", "ssse3", "neon", "sse2", "avx", "sse4.1", "sse4.2", "avx512f"] {
            names.insert(extra.to_string());
        }
        let mut imp = J::obj();
        for n in names {
            let v = tcx.implied_target_features(rustc_span::Symbol::intern(&n));
            imp.set(n.clone(), J::Arr(v.iter().map(|s| J::s(s.as_str())).collect()));
        }
        if let J::Obj(o) = root {
            for kv in o.iter_mut() {
                if kv.0 == "implied_features" {
                    kv.1 = imp.clone();
                }
            }
        }
    }

    // ---------------- layouts
    let mut lo = J::obj();
    for (k, v) in cx.layouts.iter() {
        lo.set(
            k.clone(),
            match v {
                Some(n) => J::Num(*n as i128),
                None => J::Null,
            },
        );
    }
    root.set("layouts", lo);
}

fn emit_fn<'tcx>(
    cx: &mut Ctx<'tcx>,
    ldid: LocalDefId,
    kind: DefKind,
    vis: &rustc_middle::middle::privacy::EffectiveVisibilities,
) -> J {
    let tcx = cx.tcx;
    let did = ldid.to_def_id();
    let mut o = J::obj();
    o.set("path", J::s(def_path(tcx, did)));
    o.set("kind", J::s(format!("{:?}", kind)));
    o.set("span", J::s(span_str(tcx, tcx.def_span(did))));
    o.set("name", J::s(tcx.opt_item_name(did).map(|s| s.to_string()).unwrap_or_else(|| "{closure}".to_string())));
    let reachable = match kind {
        DefKind::Fn | DefKind::AssocFn => vis.is_reachable(ldid),
        _ => false,
    };
    o.set("reachable", J::Bool(reachable));
    o.set("unsafe", J::Bool(fn_is_unsafe(tcx, did)));
    o.set("target_features", target_features(tcx, did));
    let attrs = tcx.codegen_fn_attrs(did);
    o.set("inline", J::s(format!("{:?}", attrs.inline)));

    // container
    if let DefKind::AssocFn = kind {
        let parent = tcx.parent(did);
        match tcx.def_kind(parent) {
            DefKind::Impl { of_trait } => {
                let self_ty = tcx.type_of(parent).instantiate_identity().skip_norm_wip();
                o.set("impl_self", J::s(ty_str(tcx, self_ty)));
                if let ty::Adt(adt, _) = self_ty.kind() {
                    o.set("impl_self_adt", J::s(def_path(tcx, adt.did())));
                }
                if of_trait {
                    let tr = tcx.impl_trait_ref(parent).instantiate_identity().skip_norm_wip();
                    o.set("impl_trait", J::s(def_path(tcx, tr.def_id)));
                    let ai = tcx.associated_item(did);
                    if let Some(tid) = ai.trait_item_def_id() {
                        o.set("trait_item", J::s(def_path(tcx, tid)));
                    }
                }
            }
            DefKind::Trait => {
                o.set("in_trait", J::s(def_path(tcx, parent)));
            }
            _ => {}
        }
    }
    if let DefKind::Closure = kind {
        o.set("closure_parent", J::s(def_path(tcx, tcx.typeck_root_def_id(did))));
    }

    if matches!(kind, DefKind::Fn | DefKind::AssocFn) {
        let sig = tcx.fn_sig(did).instantiate_identity().skip_norm_wip().skip_binder();
        o.set(
            "inputs",
            J::Arr(sig.inputs().iter().map(|t| J::s(ty_str(tcx, *t))).collect()),
        );
        o.set("output", J::s(ty_str(tcx, sig.output())));
    }

    let body = tcx.optimized_mir(did);
    o.set("mir", mirx::emit_body(cx, did, body));
    o.set("hir", hirx::emit_body(cx, ldid));
    o
}
