//! rsfacts — fact extractor for the static checks in /verif.
//!
//! Used as RUSTC_WORKSPACE_WRAPPER under `cargo +nightly check`: argv[1] is the real
//! rustc path (dropped).  Every invocation is passed through to the compiler unchanged;
//! for the crate named by RSFACTS_CRATE (default `reed_solomon_simd`) the type-checked
//! program (items, MIR with resolved callees, typed HIR, instance-level call graph,
//! layouts) is additionally written as one JSON file to RSFACTS_OUT.
#![feature(rustc_private)]
#![feature(box_patterns)]
#![allow(clippy::all)]

extern crate rustc_abi;
extern crate rustc_ast;
extern crate rustc_data_structures;
extern crate rustc_driver;
extern crate rustc_hir;
extern crate rustc_interface;
extern crate rustc_middle;
extern crate rustc_session;
extern crate rustc_span;
extern crate rustc_target;

mod hirx;
mod items;
mod json;
mod mirx;

use json::J;
use rustc_driver::{run_compiler, Callbacks, Compilation};
use rustc_interface::interface::Compiler;
use rustc_middle::ty::TyCtxt;

struct PassThrough;
impl Callbacks for PassThrough {}

struct Extract {
    out: String,
}

impl Callbacks for Extract {
    fn after_analysis<'tcx>(&mut self, _c: &Compiler, tcx: TyCtxt<'tcx>) -> Compilation {
        let mut root = J::obj();
        items::emit(tcx, &mut root);
        let mut s = String::with_capacity(8 << 20);
        root.write(&mut s);
        std::fs::write(&self.out, s).expect("rsfacts: cannot write facts");
        Compilation::Continue
    }
}

fn main() {
    let mut args: Vec<String> = std::env::args().collect();
    // RUSTC_WORKSPACE_WRAPPER: argv[1] is the path of the real rustc.
    if args.len() > 1 && (args[1].ends_with("rustc") || args[1].contains("/rustc")) {
        args.remove(1);
    }
    let want = std::env::var("RSFACTS_CRATE").unwrap_or_else(|_| "reed_solomon_simd".into());
    let mut crate_name = None;
    let mut is_test = false;
    let mut i = 0;
    while i < args.len() {
        if args[i] == "--crate-name" && i + 1 < args.len() {
            crate_name = Some(args[i + 1].clone());
        }
        if args[i] == "--test" {
            is_test = true;
        }
        i += 1;
    }
    let out = std::env::var("RSFACTS_OUT").ok();
    if crate_name.as_deref() == Some(want.as_str()) && !is_test && out.is_some() {
        run_compiler(&args, &mut Extract { out: out.unwrap() });
    } else {
        run_compiler(&args, &mut PassThrough);
    }
}
