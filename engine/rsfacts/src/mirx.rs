use crate::items::{crate_of, def_path, span_obj, span_str, ty_str, Ctx};
use crate::json::J;
use rustc_hir::def::DefKind;
use rustc_hir::def_id::DefId;
use rustc_middle::mir::{
    AggregateKind, BasicBlock, Body, Const, Operand, Place, PlaceElem, Rvalue, StatementKind,
    TerminatorKind, VarDebugInfoContents,
};
use rustc_middle::ty::{self, GenericArgsRef, Instance, Ty, TyCtxt, TypingEnv};
use std::collections::{BTreeMap, VecDeque};

fn want_layout<'tcx>(cx: &mut Ctx<'tcx>, env: TypingEnv<'tcx>, t: Ty<'tcx>) {
    use rustc_middle::ty::TypeVisitableExt;
    if t.has_param() || t.has_aliases() || t.has_infer() {
        return;
    }
    let key = ty_str(cx.tcx, t);
    if cx.layouts.contains_key(&key) {
        return;
    }
    let sz = match cx.tcx.layout_of(env.as_query_input(t)) {
        Ok(l) => Some(l.size.bytes()),
        Err(_) => None,
    };
    cx.layouts.insert(key, sz);
    match t.kind() {
        ty::Ref(_, inner, _) | ty::RawPtr(inner, _) => want_layout(cx, env, *inner),
        ty::Array(inner, _) | ty::Slice(inner) => want_layout(cx, env, *inner),
        _ => {}
    }
}

fn place_json<'tcx>(cx: &mut Ctx<'tcx>, body: &Body<'tcx>, p: &Place<'tcx>) -> J {
    let tcx = cx.tcx;
    let mut projs = Vec::new();
    for (base, elem) in p.iter_projections() {
        let bty = base.ty(body, tcx);
        projs.push(match elem {
            PlaceElem::Deref => J::s("*"),
            PlaceElem::Field(f, fty) => {
                let name = match bty.ty.kind() {
                    ty::Adt(adt, _) => {
                        let v = bty.variant_index.unwrap_or(rustc_abi::FIRST_VARIANT);
                        adt.variant(v).fields[f].name.to_string()
                    }
                    _ => format!("{}", f.index()),
                };
                let mut fo = J::obj()
                    .with("f", J::s(name))
                    .with("i", J::Num(f.index() as i128))
                    .with("ty", J::s(ty_str(tcx, fty)));
                if let ty::Adt(adt, _) = bty.ty.kind() {
                    fo.set("of", J::s(def_path(tcx, adt.did())));
                }
                fo
            }
            PlaceElem::Index(l) => J::obj().with("idx", J::Num(l.index() as i128)),
            PlaceElem::ConstantIndex {
                offset,
                min_length,
                from_end,
            } => J::obj()
                .with("cidx", J::Num(offset as i128))
                .with("min", J::Num(min_length as i128))
                .with("from_end", J::Bool(from_end)),
            PlaceElem::Subslice { from, to, from_end } => J::obj()
                .with("sub", J::Arr(vec![J::Num(from as i128), J::Num(to as i128)]))
                .with("from_end", J::Bool(from_end)),
            PlaceElem::Downcast(name, vi) => J::obj()
                .with(
                    "down",
                    J::s(name.map(|s| s.to_string()).unwrap_or_default()),
                )
                .with("vi", J::Num(vi.index() as i128)),
            other => J::obj().with("other", J::s(format!("{:?}", other))),
        });
    }
    J::obj()
        .with("l", J::Num(p.local.index() as i128))
        .with("p", J::Arr(projs))
}

fn generic_args_json<'tcx>(tcx: TyCtxt<'tcx>, args: GenericArgsRef<'tcx>) -> J {
    J::Arr(
        args.iter()
            .filter_map(|a| a.as_type().map(|t| J::s(ty_str(tcx, t))))
            .collect(),
    )
}

fn const_generic_args_json<'tcx>(_tcx: TyCtxt<'tcx>, args: GenericArgsRef<'tcx>) -> J {
    J::Arr(
        args.iter()
            .filter_map(|a| a.as_const().map(|c| J::s(format!("{}", c))))
            .collect(),
    )
}

fn const_json<'tcx>(cx: &mut Ctx<'tcx>, env: TypingEnv<'tcx>, c: &Const<'tcx>) -> J {
    let tcx = cx.tcx;
    let t = c.ty();
    let mut o = J::obj();
    o.set("ty", J::s(ty_str(tcx, t)));
    match t.kind() {
        ty::FnDef(did, args) => {
            o.set("fn", J::s(def_path(tcx, *did)));
            o.set("fn_args", generic_args_json(tcx, args));
            if !did.is_local() {
                cx.externs.insert(*did);
            }
        }
        ty::Bool | ty::Int(_) | ty::Uint(_) | ty::Char => {
            if let Some(si) = c.try_eval_scalar_int(tcx, env) {
                let bits = si.to_bits_unchecked();
                o.set("val", J::Num(bits as i128));
            } else {
                o.set("sym", J::s(format!("{}", c)));
            }
        }
        _ => {
            o.set("sym", J::s(format!("{}", c)));
        }
    }
    // statics referenced by address
    if let Const::Val(rustc_middle::mir::ConstValue::Scalar(rustc_middle::mir::interpret::Scalar::Ptr(p, _)), _) = c {
        let alloc_id = p.provenance.alloc_id();
        if let Some(rustc_middle::mir::interpret::GlobalAlloc::Static(sdid)) =
            tcx.try_get_global_alloc(alloc_id)
        {
            o.set("static", J::s(def_path(tcx, sdid)));
            o.set("static_local", J::Bool(sdid.is_local()));
        }
    }
    o
}

fn operand_json<'tcx>(
    cx: &mut Ctx<'tcx>,
    body: &Body<'tcx>,
    env: TypingEnv<'tcx>,
    op: &Operand<'tcx>,
) -> J {
    match op {
        Operand::Copy(p) => J::obj().with("copy", place_json(cx, body, p)),
        Operand::Move(p) => J::obj().with("move", place_json(cx, body, p)),
        Operand::Constant(c) => J::obj().with("const", const_json(cx, env, &c.const_)),
        other => J::obj().with("other", J::s(format!("{:?}", other))),
    }
}

fn rvalue_json<'tcx>(
    cx: &mut Ctx<'tcx>,
    body: &Body<'tcx>,
    env: TypingEnv<'tcx>,
    rv: &Rvalue<'tcx>,
) -> J {
    let tcx = cx.tcx;
    match rv {
        Rvalue::Use(op, ..) => J::obj()
            .with("k", J::s("use"))
            .with("op", operand_json(cx, body, env, op)),
        Rvalue::Repeat(op, n) => J::obj()
            .with("k", J::s("repeat"))
            .with("op", operand_json(cx, body, env, op))
            .with("n", J::s(format!("{}", n))),
        Rvalue::Ref(_, bk, p) => J::obj()
            .with("k", J::s("ref"))
            .with(
                "mut",
                J::Bool(matches!(bk, rustc_middle::mir::BorrowKind::Mut { .. })),
            )
            .with("place", place_json(cx, body, p)),
        Rvalue::RawPtr(kind, p) => J::obj()
            .with("k", J::s("rawptr"))
            .with("mut", J::Bool(format!("{:?}", kind).contains("Mut")))
            .with("place", place_json(cx, body, p)),
        Rvalue::Cast(kind, op, t) => {
            want_layout(cx, env, *t);
            J::obj()
                .with("k", J::s("cast"))
                .with("cast", J::s(format!("{:?}", kind)))
                .with("op", operand_json(cx, body, env, op))
                .with("ty", J::s(ty_str(tcx, *t)))
        }
        Rvalue::BinaryOp(op, box (a, b)) => J::obj()
            .with("k", J::s("bin"))
            .with("op", J::s(format!("{:?}", op)))
            .with("a", operand_json(cx, body, env, a))
            .with("b", operand_json(cx, body, env, b)),
        Rvalue::UnaryOp(op, a) => J::obj()
            .with("k", J::s("un"))
            .with("op", J::s(format!("{:?}", op)))
            .with("a", operand_json(cx, body, env, a)),
        Rvalue::Discriminant(p) => J::obj()
            .with("k", J::s("discr"))
            .with("place", place_json(cx, body, p)),
        Rvalue::Aggregate(box kind, ops) => {
            let mut o = J::obj().with("k", J::s("agg"));
            match kind {
                AggregateKind::Array(t) => {
                    o.set("agg", J::s("array"));
                    o.set("ty", J::s(ty_str(tcx, *t)));
                }
                AggregateKind::Tuple => {
                    o.set("agg", J::s("tuple"));
                }
                AggregateKind::Adt(did, vi, args, _, _) => {
                    let adt = tcx.adt_def(*did);
                    o.set("agg", J::s("adt"));
                    o.set("adt", J::s(def_path(tcx, *did)));
                    o.set("variant", J::s(adt.variant(*vi).name.as_str()));
                    o.set("vi", J::Num(vi.index() as i128));
                    o.set("adt_args", generic_args_json(tcx, args));
                    o.set(
                        "fields",
                        J::Arr(
                            adt.variant(*vi)
                                .fields
                                .iter()
                                .map(|f| J::s(f.name.as_str()))
                                .collect(),
                        ),
                    );
                }
                AggregateKind::Closure(did, _) => {
                    o.set("agg", J::s("closure"));
                    o.set("closure", J::s(def_path(tcx, *did)));
                }
                other => {
                    o.set("agg", J::s(format!("{:?}", other)));
                }
            }
            o.set(
                "ops",
                J::Arr(ops.iter().map(|x| operand_json(cx, body, env, x)).collect()),
            );
            o
        }
        Rvalue::CopyForDeref(p) => J::obj()
            .with("k", J::s("use"))
            .with("op", J::obj().with("copy", place_json(cx, body, p))),
        other => J::obj()
            .with("k", J::s("other"))
            .with("dbg", J::s(format!("{:?}", other))),
    }
}

/// Resolve a callee operand under `env` (the typing env of the *root* instance)
/// after substituting `subst` (args of the current instance) into the callee type.
pub struct Callee<'tcx> {
    pub did: DefId,
    pub args: GenericArgsRef<'tcx>,
    pub resolved: Option<Instance<'tcx>>,
    pub is_virtual: bool,
}

fn resolve_callee<'tcx>(
    tcx: TyCtxt<'tcx>,
    env: TypingEnv<'tcx>,
    fty: Ty<'tcx>,
) -> Option<Callee<'tcx>> {
    if let ty::FnDef(did, args) = fty.kind() {
        let inst = Instance::try_resolve(tcx, env, *did, args).ok().flatten();
        let is_virtual = matches!(
            inst.map(|i| i.def),
            Some(ty::InstanceKind::Virtual(..))
        );
        Some(Callee {
            did: *did,
            args,
            resolved: inst,
            is_virtual,
        })
    } else {
        None
    }
}

fn callee_json<'tcx>(cx: &mut Ctx<'tcx>, c: &Callee<'tcx>) -> J {
    let tcx = cx.tcx;
    let mut o = J::obj();
    o.set("decl", J::s(def_path(tcx, c.did)));
    o.set("decl_args", generic_args_json(tcx, c.args));
    if let Some(t) = c.args.types().next() {
        o.set("self_ty", J::s(ty_str(tcx, t)));
    }
    // trait method?
    if let Some(tr) = tcx.trait_of_assoc(c.did) {
        o.set("trait", J::s(def_path(tcx, tr)));
    }
    match c.resolved {
        Some(inst) if !c.is_virtual => {
            let rdid = inst.def_id();
            o.set("path", J::s(def_path(tcx, rdid)));
            o.set("args", generic_args_json(tcx, inst.args));
            o.set("const_args", const_generic_args_json(tcx, inst.args));
            o.set("local", J::Bool(rdid.is_local()));
            o.set("crate", J::s(crate_of(tcx, rdid)));
            o.set("shim", J::Bool(!matches!(inst.def, ty::InstanceKind::Item(_))));
            o.set("shim_kind", J::s(format!("{:?}", inst.def).split('(').next().unwrap_or("").to_string()));
            o.set(
                "key",
                J::s(inst_key(tcx, inst)),
            );
            if !rdid.is_local() {
                cx.externs.insert(rdid);
            }
        }
        Some(_) => {
            o.set("virtual", J::Bool(true));
            o.set("path", J::s(def_path(tcx, c.did)));
            o.set("local", J::Bool(c.did.is_local()));
            o.set("crate", J::s(crate_of(tcx, c.did)));
        }
        None => {
            o.set("unresolved", J::Bool(true));
            o.set("path", J::s(def_path(tcx, c.did)));
            o.set("local", J::Bool(c.did.is_local()));
            o.set("crate", J::s(crate_of(tcx, c.did)));
            if !c.did.is_local() {
                cx.externs.insert(c.did);
            }
        }
    }
    o
}

pub fn inst_key<'tcx>(tcx: TyCtxt<'tcx>, inst: Instance<'tcx>) -> String {
    ty::print::with_no_trimmed_paths!(tcx.def_path_str_with_args(inst.def_id(), inst.args))
}

pub fn emit_body<'tcx>(cx: &mut Ctx<'tcx>, did: DefId, body: &Body<'tcx>) -> J {
    let tcx = cx.tcx;
    let env = TypingEnv::post_analysis(tcx, did);
    let mut o = J::obj();
    o.set("arg_count", J::Num(body.arg_count as i128));

    // locals
    let mut names: BTreeMap<usize, String> = BTreeMap::new();
    for vdi in body.var_debug_info.iter() {
        if let VarDebugInfoContents::Place(p) = &vdi.value {
            if p.projection.is_empty() {
                names.entry(p.local.index()).or_insert(vdi.name.to_string());
            }
        }
    }
    let mut locals = Vec::new();
    for (l, decl) in body.local_decls.iter_enumerated() {
        want_layout(cx, env, decl.ty);
        let mut lo = J::obj();
        lo.set("ty", J::s(ty_str(tcx, decl.ty)));
        if let Some(n) = names.get(&l.index()) {
            lo.set("name", J::s(n.clone()));
        }
        lo.set("user", J::Bool(names.contains_key(&l.index())));
        lo.set("mut", J::Bool(decl.mutability.is_mut()));
        locals.push(lo);
    }
    o.set("locals", J::Arr(locals));
    // debug info for captured / projected vars too
    let mut dbg = Vec::new();
    for vdi in body.var_debug_info.iter() {
        if let VarDebugInfoContents::Place(p) = &vdi.value {
            dbg.push(
                J::obj()
                    .with("name", J::s(vdi.name.as_str()))
                    .with("place", place_json(cx, body, p)),
            );
        }
    }
    o.set("debug", J::Arr(dbg));

    let mut blocks = Vec::new();
    for (_bb, data) in body.basic_blocks.iter_enumerated() {
        let mut bo = J::obj();
        bo.set("cleanup", J::Bool(data.is_cleanup));
        let mut stmts = Vec::new();
        for st in data.statements.iter() {
            match &st.kind {
                StatementKind::Assign(box (place, rv)) => {
                    stmts.push(
                        J::obj()
                            .with("k", J::s("assign"))
                            .with("lhs", place_json(cx, body, place))
                            .with("rv", rvalue_json(cx, body, env, rv))
                            .with("line", J::s(span_str(tcx, st.source_info.span)))
                            .with("exp", J::Bool(st.source_info.span.from_expansion())),
                    );
                }
                StatementKind::SetDiscriminant {
                    place,
                    variant_index,
                } => {
                    stmts.push(
                        J::obj()
                            .with("k", J::s("setdiscr"))
                            .with("lhs", place_json(cx, body, place))
                            .with("vi", J::Num(variant_index.index() as i128))
                            .with("line", J::s(span_str(tcx, st.source_info.span))),
                    );
                }
                StatementKind::Intrinsic(i) => {
                    stmts.push(
                        J::obj()
                            .with("k", J::s("intrinsic"))
                            .with("dbg", J::s(format!("{:?}", i)))
                            .with("line", J::s(span_str(tcx, st.source_info.span))),
                    );
                }
                _ => {}
            }
        }
        bo.set("stmts", J::Arr(stmts));
        let term = data.terminator();
        let mut to = J::obj();
        to.set("line", J::s(span_str(tcx, term.source_info.span)));
        to.set("span", span_obj(tcx, term.source_info.span));
        to.set("exp", J::Bool(term.source_info.span.from_expansion()));
        let bbn = |b: BasicBlock| J::Num(b.index() as i128);
        match &term.kind {
            TerminatorKind::Goto { target } => {
                to.set("k", J::s("goto"));
                to.set("target", bbn(*target));
            }
            TerminatorKind::SwitchInt { discr, targets } => {
                to.set("k", J::s("switch"));
                to.set("discr", operand_json(cx, body, env, discr));
                let mut ts = Vec::new();
                for (v, b) in targets.iter() {
                    ts.push(J::Arr(vec![J::Num(v as i128), bbn(b)]));
                }
                to.set("targets", J::Arr(ts));
                to.set("otherwise", bbn(targets.otherwise()));
            }
            TerminatorKind::Return => {
                to.set("k", J::s("return"));
            }
            TerminatorKind::Unreachable => {
                to.set("k", J::s("unreachable"));
            }
            TerminatorKind::UnwindResume => {
                to.set("k", J::s("resume"));
            }
            TerminatorKind::UnwindTerminate(_) => {
                to.set("k", J::s("terminate"));
            }
            TerminatorKind::Drop { place, target, .. } => {
                to.set("k", J::s("drop"));
                to.set("place", place_json(cx, body, place));
                to.set("target", bbn(*target));
                let pty = place.ty(body, tcx).ty;
                to.set("ty", J::s(ty_str(tcx, pty)));
            }
            TerminatorKind::Call {
                func,
                args,
                destination,
                target,
                fn_span,
                ..
            } => {
                to.set("k", J::s("call"));
                let fty = func.ty(body, tcx);
                if let Some(c) = resolve_callee(tcx, env, fty) {
                    to.set("callee", callee_json(cx, &c));
                } else {
                    to.set(
                        "callee",
                        J::obj()
                            .with("indirect", J::Bool(true))
                            .with("fn_ty", J::s(ty_str(tcx, fty)))
                            .with("op", operand_json(cx, body, env, func)),
                    );
                }
                to.set(
                    "args",
                    J::Arr(
                        args.iter()
                            .map(|a| operand_json(cx, body, env, &a.node))
                            .collect(),
                    ),
                );
                to.set("dest", place_json(cx, body, destination));
                to.set(
                    "target",
                    match target {
                        Some(t) => bbn(*t),
                        None => J::Null,
                    },
                );
                to.set("fn_line", J::s(span_str(tcx, *fn_span)));
            }
            TerminatorKind::Assert {
                cond,
                expected,
                msg,
                target,
                ..
            } => {
                to.set("k", J::s("assert"));
                to.set("cond", operand_json(cx, body, env, cond));
                to.set("expected", J::Bool(*expected));
                let dbg = format!("{:?}", msg);
                let kind = dbg.split(|c| c == '(' || c == ' ' || c == '{').next().unwrap_or("").to_string();
                to.set("assert_kind", J::s(kind));
                to.set("msg", J::s(dbg));
                to.set("target", bbn(*target));
            }
            TerminatorKind::FalseEdge { real_target, .. } => {
                to.set("k", J::s("goto"));
                to.set("target", bbn(*real_target));
            }
            TerminatorKind::FalseUnwind { real_target, .. } => {
                to.set("k", J::s("goto"));
                to.set("target", bbn(*real_target));
            }
            TerminatorKind::InlineAsm { .. } => {
                to.set("k", J::s("asm"));
            }
            other => {
                to.set("k", J::s("other"));
                to.set("dbg", J::s(format!("{:?}", other)));
            }
        }
        bo.set("term", to);
        blocks.push(bo);
    }
    o.set("blocks", J::Arr(blocks));
    o
}

/// Instance-level call graph.  Nodes are (def, generic args) with the crate's type
/// parameters kept symbolic.  Starting from the identity instance of every local
/// fn, each call is resolved after substituting the instance's args into the callee
/// type, in the typing env of the *root* (identity) instance that reached it.
pub fn instance_graph<'tcx>(cx: &mut Ctx<'tcx>) -> J {
    let tcx = cx.tcx;
    let mut out = J::obj();
    let mut seen: BTreeMap<String, ()> = BTreeMap::new();
    let mut work: VecDeque<(Instance<'tcx>, DefId, usize)> = VecDeque::new();
    for ldid in tcx.hir_body_owners() {
        let did = ldid.to_def_id();
        if !matches!(tcx.def_kind(did), DefKind::Fn | DefKind::AssocFn) {
            continue;
        }
        let inst = Instance::new_raw(did, ty::GenericArgs::identity_for_item(tcx, did));
        let key = inst_key(tcx, inst);
        if seen.insert(key, ()).is_none() {
            work.push_back((inst, did, 0));
        }
    }
    // provided (defaulted) trait methods instantiated at every local impl that does not override them:
    // they may never be called inside the crate, yet they are public API of the implementing type
    for id in tcx.hir_free_items() {
        let did = id.owner_id.def_id.to_def_id();
        if let DefKind::Impl { of_trait: true } = tcx.def_kind(did) {
            let tr = tcx.impl_trait_ref(did).instantiate_identity().skip_norm_wip();
            if !tr.def_id.is_local() {
                continue;
            }
            let overridden: Vec<DefId> = tcx
                .associated_items(did)
                .in_definition_order()
                .filter_map(|it| it.trait_item_def_id())
                .collect();
            for m in tcx.provided_trait_methods(tr.def_id) {
                if overridden.contains(&m.def_id) {
                    continue;
                }
                if tcx.generics_of(m.def_id).own_params.len() != 0 {
                    continue;
                }
                let env = TypingEnv::post_analysis(tcx, did);
                if let Ok(Some(inst)) = Instance::try_resolve(tcx, env, m.def_id, tr.args) {
                    let key = inst_key(tcx, inst);
                    if seen.insert(key, ()).is_none() {
                        work.push_back((inst, did, 0));
                    }
                }
            }
        }
    }
    while let Some((inst, root, depth)) = work.pop_front() {
        let did = inst.def_id();
        if !did.is_local() || !tcx.is_mir_available(did) {
            continue;
        }
        if !matches!(tcx.def_kind(did), DefKind::Fn | DefKind::AssocFn | DefKind::Closure) {
            continue;
        }
        let env = TypingEnv::post_analysis(tcx, root);
        let body = tcx.optimized_mir(did);
        let mut calls = J::obj();
        for (bb, data) in body.basic_blocks.iter_enumerated() {
            if let TerminatorKind::Call { func, .. } = &data.terminator().kind {
                let fty0 = func.ty(body, tcx);
                let fty1 = ty::EarlyBinder::bind(fty0).instantiate(tcx, inst.args);
                let fty = match tcx.try_normalize_erasing_regions(env, fty1) {
                    Ok(t) => t,
                    Err(_) => fty1.skip_norm_wip(),
                };
                if let Some(c) = resolve_callee(tcx, env, fty) {
                    let cj = callee_json(cx, &c);
                    if let Some(ci) = c.resolved {
                        if !c.is_virtual && ci.def_id().is_local() && depth < 12 {
                            let k = inst_key(tcx, ci);
                            if seen.insert(k, ()).is_none() {
                                work.push_back((ci, root, depth + 1));
                            }
                        }
                    }
                    calls.set(format!("{}", bb.index()), cj);
                }
            }
        }
        let mut io = J::obj();
        io.set("def", J::s(def_path(tcx, did)));
        io.set("args", generic_args_json(tcx, inst.args));
        io.set("calls", calls);
        out.set(inst_key(tcx, inst), io);
    }
    out
}
