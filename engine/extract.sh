#!/bin/bash
# usage: extract.sh <src_dir> <out.json> <cfg: x86_64|aarch64|i686|x86_64+avx2> [crate_name]
set -e
SRC=$1; OUT=$2; CFG=$3; CRATE=${4:-reed_solomon_simd}
DRV=/verif/engine/rsfacts/target/release/rsfacts
T=$(mktemp -d /tmp/rsfacts_tgt.XXXXXX)
trap 'rm -rf "$T"' EXIT
export LD_LIBRARY_PATH=$(rustc +nightly --print sysroot)/lib
export CARGO_NET_OFFLINE=true
FLAGS="-Zmir-opt-level=0 -Awarnings"
EXTRA=""
case "$CFG" in
  x86_64) ;;
  x86_64+avx2) FLAGS="$FLAGS -C target-feature=+avx2" ;;
  aarch64) EXTRA="--target aarch64-unknown-linux-gnu -Zbuild-std=std" ;;
  i686) EXTRA="--target i686-unknown-linux-gnu -Zbuild-std=std" ;;
  *) echo "unknown cfg $CFG" >&2; exit 2 ;;
esac
rm -f "$OUT"
cd "$SRC"
RUSTFLAGS="$FLAGS" RUSTC_WORKSPACE_WRAPPER=$DRV RSFACTS_OUT="$OUT" RSFACTS_CRATE=$CRATE CARGO_TARGET_DIR=$T \
  cargo +nightly check --offline --lib $EXTRA >"$T/log" 2>&1 || { tail -40 "$T/log" >&2; exit 3; }
test -s "$OUT" || { echo "no facts written" >&2; tail -20 "$T/log" >&2; exit 3; }
