#!/bin/bash
# usage: extract.sh <src_dir> <out.json> <cfg: x86_64|aarch64|i686|x86_64+avx2|x86_64+release> [crate_name]
# Runs `cargo +nightly check --lib` on <src_dir> with the rsfacts driver as
# RUSTC_WORKSPACE_WRAPPER and writes the facts of <crate_name> to <out.json>.
# Host configurations use a fresh target dir (removed afterwards).  The build-std
# configurations keep std's artifacts in /verif/.cache/tgt-<cfg> (35 s -> 3 s) and delete
# every artifact and fingerprint of the analysed package first, so that cargo can never
# skip the driver; the existence of the fact file is asserted.
set -e
SRC=$1; OUT=$2; CFG=$3; CRATE=${4:-reed_solomon_simd}
VERIF=$(cd "$(dirname "$0")/.." && pwd)
DRV=$VERIF/engine/rsfacts/target/release/rsfacts
export LD_LIBRARY_PATH=$(rustc +nightly --print sysroot)/lib
export CARGO_NET_OFFLINE=true
FLAGS="-Zmir-opt-level=0 -Awarnings"
EXTRA=""
PERSIST=""
case "$CFG" in
  x86_64) ;;
  x86_64+avx2) FLAGS="$FLAGS -C target-feature=+avx2" ;;
  x86_64+release) FLAGS="$FLAGS -C debug-assertions=off -C overflow-checks=off" ;;   # what cfg(debug_assertions) hides from a dev build
  aarch64) EXTRA="--target aarch64-unknown-linux-gnu -Zbuild-std=std"; PERSIST=1 ;;
  i686) EXTRA="--target i686-unknown-linux-gnu -Zbuild-std=std"; PERSIST=1 ;;
  *) echo "unknown cfg $CFG" >&2; exit 2 ;;
esac
if [ -n "$PERSIST" ] && [ -z "$VERIF_NO_CACHE" ]; then
  T=$VERIF/.cache/tgt-$CFG
  mkdir -p "$T"
  PKG=$(echo "$CRATE" | tr '_' '-')
  find "$T" \( -name "${PKG}-*" -o -name "lib${CRATE}-*" -o -name "${CRATE}-*" \) -prune -exec rm -rf {} + 2>/dev/null || true
  LOG=$(mktemp /tmp/rsfacts_log.XXXXXX)
  trap 'rm -f "$LOG"' EXIT
else
  T=$(mktemp -d /tmp/rsfacts_tgt.XXXXXX)
  LOG=$T/log
  trap 'rm -rf "$T"' EXIT
fi
rm -f "$OUT"
cd "$SRC"
RUSTFLAGS="$FLAGS" RUSTC_WORKSPACE_WRAPPER=$DRV RSFACTS_OUT="$OUT" RSFACTS_CRATE=$CRATE CARGO_TARGET_DIR=$T \
  cargo +nightly check --offline --lib $EXTRA >"$LOG" 2>&1 || { tail -40 "$LOG" >&2; exit 3; }
test -s "$OUT" || { echo "no facts written (driver was skipped?)" >&2; tail -20 "$LOG" >&2; exit 3; }
