#!/usr/bin/env python3
"""Self-test of the checker: every mutant (one broken rule instance each, still compiling)
must be reported by the named property's check with a violation key matching `expect`;
the unmodified tree must stay silent.  Mutants are search/replace edits applied to a
scratch copy of /repo outside /repo and /verif; the copy is deleted afterwards.

usage: run_mutants.py [--only REGEX] [--prop Cxx] [--jobs N] [--list] [--seeded]
exit 0 = all applicable mutants caught; 1 = some mutant missed; mutants whose `find`
text no longer occurs in /repo are skipped and listed (never a failure)."""
import sys, os, json, re, shutil, subprocess, tempfile, glob
from concurrent.futures import ThreadPoolExecutor

HERE = os.path.dirname(os.path.abspath(__file__))
VERIF = os.path.dirname(HERE)
REPO = os.environ.get('VERIF_REPO', '/repo')


def load_mutants():
    ms = []
    for p in sorted(glob.glob(os.path.join(HERE, 'mutants', '*.json'))):
        for m in json.load(open(p)):
            m['source'] = os.path.basename(p)
            ms.append(m)
    for p in sorted(glob.glob(os.path.join(VERIF, 'seeded', '*', 'meta.json'))):
        meta = json.load(open(p))
        if not meta.get('expect') or not meta.get('detected_by'):
            continue
        ms.append({'id': 'seeded-' + meta['id'], 'property': meta['detected_by'], 'expect': meta['expect'],
                   'patch': os.path.relpath(os.path.join(os.path.dirname(p), 'patch.diff'), VERIF), 'source': 'seeded'})
    for p in sorted(glob.glob(os.path.join(HERE, 'benign', '*.patch'))):
        name = os.path.basename(p)[:-6]
        props = [name.split('-')[0].upper()]
        if name.startswith('all-'):
            props = ['C03', 'C04', 'C05', 'C06', 'C07', 'C08', 'C09', 'C10', 'C11', 'C12', 'C14', 'C16', 'C17']
        ms.append({'id': 'benign-' + name, 'property': props, 'expect': None,
                   'patch': os.path.relpath(p, VERIF), 'source': 'benign',
                   'tier': 'thorough' if name.startswith(('c03', 'c14')) else 'quick'})
    return ms


def copy_repo(dst):
    for name in os.listdir(REPO):
        if name in ('.git', 'target'):
            continue
        s = os.path.join(REPO, name)
        d = os.path.join(dst, name)
        if os.path.isdir(s):
            shutil.copytree(s, d)
        else:
            shutil.copy2(s, d)


def run_one(m, tier='quick'):
    tmp = tempfile.mkdtemp(prefix='rsmut_', dir='/tmp')
    try:
        copy_repo(tmp)
        if 'patch' in m:
            r = subprocess.run(['patch', '-p1', '-s', '-d', tmp, '-i', os.path.join(VERIF, m['patch'])],
                               capture_output=True, text=True)
            if r.returncode != 0:
                return (m, 'skipped', 'patch does not apply: ' + r.stdout[-200:])
        if 'edits' in m:
            for ed in m['edits']:
                fp = os.path.join(tmp, ed['file'])
                src = open(fp).read()
                cnt = src.count(ed['find'])
                if cnt == 0:
                    return (m, 'skipped', 'find text not present in %s' % ed['file'])
                if ed.get('all'):
                    src = src.replace(ed['find'], ed['replace'])
                else:
                    nth = ed.get('nth', 0)
                    idx = -1
                    for _ in range(nth + 1):
                        idx = src.find(ed['find'], idx + 1)
                    if idx < 0:
                        return (m, 'skipped', 'occurrence %d of find text not present' % nth)
                    src = src[:idx] + ed['replace'] + src[idx + len(ed['find']):]
                open(fp, 'w').write(src)
        env = dict(os.environ, VERIF_REPO=tmp, VERIF_MUTANT='1')
        props = m['property'] if isinstance(m['property'], list) else [m['property']]
        outs = []
        caught = False
        for pid in props:
            r = subprocess.run([os.path.join(VERIF, 'check'), pid, '--tier', m.get('tier', tier), '--no-evidence'],
                               capture_output=True, text=True, env=env)
            outs.append(r.stdout + r.stderr)
            if r.returncode == 2:
                return (m, 'infra', (r.stdout + r.stderr)[-1500:])
            keys = re.findall(r'VIOLATION-KEY (.*)', r.stdout)
            if m['expect'] is None:
                if r.returncode != 0:
                    return (m, 'MISSED', 'benign edit raised an alarm:\n' + (r.stdout + r.stderr)[-1500:])
                continue
            if r.returncode == 1 and any(re.search(m['expect'], k) for k in keys):
                caught = True
        if m['expect'] is None:
            return (m, 'silent', '')
        if caught:
            return (m, 'caught', '')
        return (m, 'MISSED', '\n'.join(outs)[-1500:])
    finally:
        shutil.rmtree(tmp, ignore_errors=True)


def main():
    args = sys.argv[1:]
    only = prop = extra_file = None
    jobs = 8
    i = 0
    while i < len(args):
        if args[i] == '--only':
            only = args[i + 1]; i += 1
        elif args[i] == '--prop':
            prop = args[i + 1]; i += 1
        elif args[i] == '--jobs':
            jobs = int(args[i + 1]); i += 1
        elif args[i] == '--file':
            extra_file = args[i + 1]; i += 1
        elif args[i] == '--list':
            for m in load_mutants():
                print(m['id'], m['property'], m['expect'])
            return 0
        i += 1
    ms = load_mutants()
    if extra_file:
        ms = json.load(open(extra_file))      # ad-hoc trial of mutants that are not (yet) part of the self-test
    if only:
        ms = [m for m in ms if re.search(only, m['id'])]
    if prop:
        ms = [m for m in ms if prop in (m['property'] if isinstance(m['property'], list) else [m['property']])]
        for m in ms:
            if m.get('expect') is None:
                m['property'] = [prop]      # benign fixtures: only the requested property's check
    res = []
    with ThreadPoolExecutor(max_workers=jobs) as ex:
        for r in ex.map(run_one, ms):
            m, st, info = r
            print('%-8s %-44s %s' % (st, m['id'], m['property']))
            if st in ('MISSED', 'infra'):
                print('    ' + info.replace('\n', '\n    '))
            elif st == 'skipped':
                print('    ' + info)
            res.append(r)
    missed = [r for r in res if r[1] in ('MISSED', 'infra')]
    print('mutants: %d caught, %d missed, %d skipped' % (
        sum(1 for r in res if r[1] in ('caught', 'silent')), len(missed), sum(1 for r in res if r[1] == 'skipped')))
    return 1 if missed else 0


if __name__ == '__main__':
    sys.exit(main())
