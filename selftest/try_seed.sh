#!/bin/bash
# try_seed.sh <seeded-id> : run all checks against a seeded patch, print violation keys per property
ID=$1
T=$(mktemp -d /tmp/tryseed.XXXX)
(cd /repo && tar --exclude=.git --exclude=target -cf - .) | tar -C $T -xf -
(cd $T && patch -p1 -s < /verif/seeded/$ID/patch.diff) || { echo "patch failed"; rm -rf $T; exit 1; }
for c in C03 C04 C05 C06 C07 C08 C09 C10 C11 C12 C14 C16 C17; do
  VERIF_REPO=$T /verif/check $c --no-evidence 2>&1 | grep -E "VIOLATION-KEY|INFRA" | sed "s/^/$c  /" | cut -c1-230
done
rm -rf $T
