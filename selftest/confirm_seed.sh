#!/bin/bash
# usage: confirm_seed.sh <dir containing patch.diff and seed_demo.rs>
# Confirms, in a scratch worktree of /repo (outside /repo and /verif), that the change
#  (1) applies and compiles, (2) the unedited existing suite passes with it,
#  (3) the demo fails with it, (4) the demo passes without it.
# Prints one line RESULT ... and exits 0 iff all four hold.
D=$(cd "$1" && pwd)
W=${SEEDCONFIRM_DIR:-/tmp/seedconfirm}
export CARGO_TARGET_DIR=$W-target CARGO_NET_OFFLINE=true
if [ ! -d $W ]; then git -C /repo worktree add -q --detach $W HEAD || exit 2; fi
cd $W && git checkout -q --detach $(git -C /repo rev-parse HEAD) && git checkout -q -- . && git clean -fdq
run_demo() { cp "$D/seed_demo.rs" tests/seed_demo.rs; timeout 1200 cargo test --offline --test seed_demo >$W.demo.log 2>&1; rc=$?; rm -f tests/seed_demo.rs; return $rc; }
run_demo; PRISTINE=$?
git apply "$D/patch.diff" || { echo "RESULT apply-failed"; exit 1; }
timeout 2400 cargo test --workspace --no-fail-fast --offline >$W.suite.log 2>&1; SUITE=$?
NPASS=$(grep -E "^test result" $W.suite.log | awk '{s+=$4} END{print s}')
run_demo; WITH=$?
DEMOFAIL=$(grep -E "^test result|panicked|error\[" $W.demo.log | head -3 | tr '\n' ' ')
git checkout -q -- . && git clean -fdq
echo "RESULT pristine_demo_rc=$PRISTINE suite_rc=$SUITE suite_passed=$NPASS demo_with_change_rc=$WITH :: $DEMOFAIL"
[ $PRISTINE -eq 0 ] && [ $SUITE -eq 0 ] && [ $WITH -ne 0 ]
