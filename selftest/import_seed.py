#!/usr/bin/env python3
"""import_seed.py <Cxx> <A|B> : copy a confirmed sub-agent delivery into /verif/seeded/<Cxx>-<V>/"""
import sys, os, json, shutil, re
pid, v = sys.argv[1], sys.argv[2]
src = '/tmp/seed/%s/SEED/%s' % (pid, v)
dst = '/verif/seeded/%s-%s' % (pid, v)
os.makedirs(dst, exist_ok=True)
shutil.copy(src + '/patch.diff', dst + '/patch.diff')
shutil.copy(src + '/seed_demo.rs', dst + '/seed_demo.rs')
if os.path.exists(src + '/README.md'):
    shutil.copy(src + '/README.md', dst + '/README.md')
conf = open(src + '/CONFIRM.txt').read().strip().splitlines()[-1]
meta_p = dst + '/meta.json'
meta = json.load(open(meta_p)) if os.path.exists(meta_p) else {}
meta.update({
    'id': '%s-%s' % (pid, v),
    'breaks_property': pid,
    'origin': 'fresh sub-agent given only the property text and its own scratch worktree of /repo (HEAD incl. the three fix: commits)',
    'files_touched': sorted(set(re.findall(r'^\+\+\+ b/(\S+)', open(dst + '/patch.diff').read(), re.M))),
    'confirmed_by': 'selftest/confirm_seed.sh in scratch worktree /tmp/seedconfirm: demo passes on pristine tree, full existing suite passes with the change (113 = 104 unit + 5 integration + 4 doc), demo fails with the change',
    'confirm_output': conf,
})
meta.setdefault('needs_to_manifest', '')
meta.setdefault('detected_by', [])
meta.setdefault('expect', '')
json.dump(meta, open(meta_p, 'w'), indent=1)
print(dst)
