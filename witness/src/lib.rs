//! Type-level witnesses for the static checks in /verif (compiled by `cargo +nightly test --doc`,
//! never executed: every example is `compile_fail,E…` or `no_run`).  Each compile-fail witness is
//! paired with a compiling twin that differs only in the offending line, so that a witness whose
//! paths are merely wrong cannot pass as "fails to compile".
//!
//! # C16.c — codecs, work objects and results are Send/Sync for EVERY engine type
//! (universally quantified: type-checked by rustc for all `E`, not sampled)
//! ```no_run
//! use reed_solomon_simd::engine::*;
//! use reed_solomon_simd::rate::*;
//! use reed_solomon_simd::*;
//! fn send<T: Send>() {}
//! fn sync<T: Sync>() {}
//! fn stat<T: 'static>() {}
//! fn all_send<E: Engine + Send>() {
//!     send::<HighRateEncoder<E>>(); send::<HighRateDecoder<E>>();
//!     send::<LowRateEncoder<E>>(); send::<LowRateDecoder<E>>();
//!     send::<DefaultRateEncoder<E>>(); send::<DefaultRateDecoder<E>>();
//! }
//! fn all_sync<E: Engine + Sync>() {
//!     sync::<HighRateEncoder<E>>(); sync::<HighRateDecoder<E>>();
//!     sync::<LowRateEncoder<E>>(); sync::<LowRateDecoder<E>>();
//!     sync::<DefaultRateEncoder<E>>(); sync::<DefaultRateDecoder<E>>();
//! }
//! fn concrete() {
//!     send::<ReedSolomonEncoder>(); sync::<ReedSolomonEncoder>(); stat::<ReedSolomonEncoder>();
//!     send::<ReedSolomonDecoder>(); sync::<ReedSolomonDecoder>(); stat::<ReedSolomonDecoder>();
//!     send::<EncoderWork>(); sync::<EncoderWork>(); send::<DecoderWork>(); sync::<DecoderWork>();
//!     send::<DefaultEngine>(); sync::<DefaultEngine>(); stat::<DefaultEngine>();
//!     send::<NoSimd>(); sync::<NoSimd>(); send::<Naive>(); sync::<Naive>();
//!     send::<Error>(); sync::<Error>(); stat::<Error>();
//!     send::<EncoderResult<'static>>(); sync::<EncoderResult<'static>>();
//!     send::<DecoderResult<'static>>(); sync::<DecoderResult<'static>>();
//!     send::<Recovery<'static>>(); sync::<Recovery<'static>>();
//!     send::<RestoredOriginal<'static>>(); sync::<RestoredOriginal<'static>>();
//!     all_send::<DefaultEngine>(); all_sync::<DefaultEngine>();
//!     all_send::<NoSimd>(); all_sync::<NoSimd>(); all_send::<Naive>(); all_sync::<Naive>();
//! }
//! ```
//!
//! # C16.c (x86) — SIMD engines are Send + Sync + Copy
//! ```no_run
//! #[cfg(any(target_arch = "x86", target_arch = "x86_64"))]
//! fn x86() {
//!     use reed_solomon_simd::engine::{Avx2, Ssse3};
//!     fn ss<T: Send + Sync + Copy + 'static>() {}
//!     ss::<Avx2>(); ss::<Ssse3>();
//! }
//! ```
//!
//! # C12.e — a shard cannot be added while a result is alive (the exposed bytes cannot change
//! under the caller; dropping the result is the only way to continue)
//! ```compile_fail,E0499
//! use reed_solomon_simd::ReedSolomonEncoder;
//! let mut enc = ReedSolomonEncoder::new(2, 1, 64).unwrap();
//! enc.add_original_shard([0u8; 64]).unwrap();
//! enc.add_original_shard([1u8; 64]).unwrap();
//! let result = enc.encode().unwrap();
//! enc.add_original_shard([2u8; 64]).unwrap(); // second mutable borrow while `result` lives
//! let _ = result.recovery(0);
//! ```
//! twin (drop first) compiles:
//! ```no_run
//! use reed_solomon_simd::ReedSolomonEncoder;
//! let mut enc = ReedSolomonEncoder::new(2, 1, 64).unwrap();
//! enc.add_original_shard([0u8; 64]).unwrap();
//! enc.add_original_shard([1u8; 64]).unwrap();
//! let result = enc.encode().unwrap();
//! let _ = result.recovery(0);
//! drop(result);
//! enc.add_original_shard([2u8; 64]).unwrap();
//! ```
//! decoder side:
//! ```compile_fail,E0499
//! use reed_solomon_simd::ReedSolomonDecoder;
//! let mut dec = ReedSolomonDecoder::new(2, 1, 64).unwrap();
//! dec.add_original_shard(0, [0u8; 64]).unwrap();
//! dec.add_recovery_shard(0, [1u8; 64]).unwrap();
//! let result = dec.decode().unwrap();
//! dec.add_original_shard(1, [2u8; 64]).unwrap();
//! let _ = result.restored_original(1);
//! ```
//! ```no_run
//! use reed_solomon_simd::ReedSolomonDecoder;
//! let mut dec = ReedSolomonDecoder::new(2, 1, 64).unwrap();
//! dec.add_original_shard(0, [0u8; 64]).unwrap();
//! dec.add_recovery_shard(0, [1u8; 64]).unwrap();
//! let result = dec.decode().unwrap();
//! let _ = result.restored_original(1);
//! drop(result);
//! dec.add_original_shard(1, [2u8; 64]).unwrap();
//! ```
//!
//! # C17.d — result slices are views into the working space, not copies
//! ```compile_fail,E0505
//! use reed_solomon_simd::ReedSolomonEncoder;
//! let mut enc = ReedSolomonEncoder::new(1, 1, 64).unwrap();
//! enc.add_original_shard([0u8; 64]).unwrap();
//! let result = enc.encode().unwrap();
//! let slice: &[u8] = result.recovery(0).unwrap();
//! drop(result);            // the slice borrows from the result (and so from the encoder)
//! let _ = slice.len();
//! ```
//! ```no_run
//! use reed_solomon_simd::ReedSolomonEncoder;
//! let mut enc = ReedSolomonEncoder::new(1, 1, 64).unwrap();
//! enc.add_original_shard([0u8; 64]).unwrap();
//! let result = enc.encode().unwrap();
//! let slice: &[u8] = result.recovery(0).unwrap();
//! let _ = slice.len();
//! drop(result);
//! ```
//! and the result itself borrows the encoder:
//! ```compile_fail,E0505
//! use reed_solomon_simd::ReedSolomonEncoder;
//! let mut enc = ReedSolomonEncoder::new(1, 1, 64).unwrap();
//! enc.add_original_shard([0u8; 64]).unwrap();
//! let result = enc.encode().unwrap();
//! drop(enc);
//! let _ = result.recovery(0);
//! ```
//! ```no_run
//! use reed_solomon_simd::ReedSolomonEncoder;
//! let mut enc = ReedSolomonEncoder::new(1, 1, 64).unwrap();
//! enc.add_original_shard([0u8; 64]).unwrap();
//! let result = enc.encode().unwrap();
//! let _ = result.recovery(0);
//! drop(result);
//! drop(enc);
//! ```
